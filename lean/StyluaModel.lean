import StyluaModel.Model.StrLit
import StyluaModel.Spec.StrVal
