/-
Model of StyLua's own part of file selection (src/cli/main.rs 405-518, 231-253): the directory
walker (crate `ignore`: nested `.styluaignore` files, hidden entries, `--glob` overrides) is a
parameter - what it yields, in order, is given - and the code's glue is mirrored: the
`seen_files` set keyed by the path *as yielded*, the default glob applied only when no `--glob`
was given and ignores are respected for that path, explicit paths and `--respect-ignores`.
-/
namespace StyluaModel.Select

structure Entry where
  file : Nat          -- identity of the file on disk
  spelling : Nat      -- identity of the path string the walker yielded
  isFile : Bool
  explicit : Bool     -- the path string equals one of the command-line arguments
  luaName : Bool      -- matches the default glob (**/*.lua, **/*.luau)
  styluaIgnored : Bool  -- path_is_stylua_ignored (the single nearest / cwd .styluaignore)
  deriving DecidableEq, Repr

structure Opts where
  globGiven : Bool
  respectIgnores : Bool
  deriving DecidableEq, Repr

/-- should_respect_ignores -/
def respects (o : Opts) (e : Entry) : Bool := !e.explicit || o.respectIgnores

/-- is the yielded entry handed to a worker? (given it was not seen before) -/
def accepted (o : Opts) (e : Entry) : Bool :=
  e.isFile &&
  (!(!o.globGiven && respects o e) || e.luaName) &&
  !(e.explicit && respects o e && e.styluaIgnored)

/-- the two generations of the de-duplication: `pinned` remembers every yielded path string
before the decisions (the code before fix 325a42a), `repaired` remembers the canonical path of
the files actually handed out -/
structure Variant where
  canonicalKey : Bool
  deriving DecidableEq, Repr

def pinned : Variant := { canonicalKey := false }
def repaired : Variant := { canonicalKey := true }

/-- the walker loop: entries in the order yielded; returns the processed entries -/
def process (v : Variant) (o : Opts) : (seen : List Nat) → List Entry → List Entry
  | _, [] => []
  | seen, e :: rest =>
      if v.canonicalKey then
        if accepted o e then
          if seen.contains e.file then process v o seen rest
          else e :: process v o (e.file :: seen) rest
        else process v o seen rest
      else
        if seen.contains e.spelling then process v o seen rest
        else if accepted o e then e :: process v o (e.spelling :: seen) rest
        else process v o (e.spelling :: seen) rest

end StyluaModel.Select
