/-
Model of how often `format_function_call` is entered for nested inputs (functions.rs:957-1149).
A call chain with more than one call suffix formats **every suffix twice**: once for the trial
layout (`formatted_suffixes`, 1016-1019) and once for the real one (1109); a suffix holding a
nested chain therefore doubles the work of everything inside it. Plain nested calls
`f(f(...), b)` are re-formatted by *other* functions' trial passes only.
The counts are tied to the code by the hook counter `stylua_lib::verif::FUNCTION_CALLS`.
-/
namespace StyluaModel.Cost

/-- invocations of format_function_call for `a:b(a:b(…):c()):c()` nested `d` deep -/
def chain : Nat → Nat
  | 0 => 0
  | d + 1 => 2 * chain d + 2 ^ (d + 1) - 1

/-- invocations for `f(f(…, b), b)` nested `d` deep -/
def call : Nat → Nat
  | 0 => 0
  | d + 1 => call d + (d + 1)

end StyluaModel.Cost
