/-
Abstract expression trees: exactly what StyLua's parenthesis logic inspects.
Atoms are opaque (names, numbers, strings, tables, functions, interpolated strings).
-/
namespace StyluaModel

inductive UnOp | minus | not | hash | tilde
  deriving DecidableEq, Repr

inductive BinOp
  | caret | percent | slash | star | dslash | minus | plus | concat | shl | shr
  | band | bxor | bor | gt | ge | lt | le | ne | eq | and | or
  deriving DecidableEq, Repr

/-- full_moon `BinOp::precedence` (ast/mod.rs make_bin_op!) -/
def BinOp.prec : BinOp → Nat
  | .caret => 12
  | .percent | .slash | .star | .dslash => 10
  | .minus | .plus => 9
  | .concat => 8
  | .shl | .shr => 7
  | .band => 6
  | .bxor => 5
  | .bor => 4
  | .gt | .ge | .lt | .le | .ne | .eq => 3
  | .and => 2
  | .or => 1

/-- full_moon `BinOp::is_right_associative` -/
def BinOp.rassoc : BinOp → Bool
  | .caret | .concat => true
  | _ => false

/-- full_moon `UnOp::precedence` -/
def unPrec : Nat := 11

inductive Expr
  | atom (n : Nat)
  | call (n : Nat)          -- function call / method call (multi-value)
  | varargs                 -- `...` (multi-value)
  | paren (e : Expr)
  | un (op : UnOp) (e : Expr)
  | bin (op : BinOp) (l r : Expr)
  | assert (e : Expr)       -- Luau `e :: T`
  | ifx (n : Nat)           -- Luau `if c then t else e`: opaque (its parts are formatted
                            -- as separate entries), but open-ended on the right
  deriving DecidableEq, Repr

end StyluaModel
