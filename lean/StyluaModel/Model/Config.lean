/-
Model of configuration resolution, mirroring /repo/src/cli/config.rs:
  ConfigResolver::load_configuration (68-96), load_configuration_for_stdin (98-121),
  lookup_config_file_in_directory (123-136), find_config_file with its cache (138-174),
  search_config_locations (177-220), load_overrides (249-284).
Directories are component lists in *reverse* order (head = last component, `[]` = `/`), so
that `Path::parent` is `List.tail`. Paths are joined lexically (`cwd.join(path)`), never
normalised: a component may be `..`; the file system is consulted through `norm`.
-/
namespace StyluaModel.Config

abbrev RDir := List String

/-- the directory a lexical path denotes (`..` resolved; the tree has no symlinks) -/
def norm : RDir → RDir
  | [] => []
  | c :: rest => if c == ".." then (norm rest).tail else if c == "." then norm rest else c :: norm rest

structure World where
  /-- id of the `stylua.toml` / `.stylua.toml` in a (normalised) directory -/
  toml : RDir → Option Nat
  cwd : RDir
  searchParents : Bool
  /-- what search_config_locations finds ($XDG_CONFIG_HOME, …/stylua, $HOME/.config, …/stylua) -/
  userConfig : Option Nat
  forced : Option Nat          -- --config-path
  noEditorconfig : Bool
  /-- id of the .editorconfig settings that apply to a file in this *lexical* directory, if any: the
  crate `ec4rs` walks the ancestors of the path as given (`cwd/../x` → `cwd/..` → `cwd` → …), so - like the
  stylua.toml search (D17) - a file reached through `..` can pick up the working directory's file -/
  editorconfig : RDir → Option Nat

inductive Source
  | forced (id : Nat) | toml (id : Nat) | user (id : Nat) | editorconfig (id : Nat) | default
  deriving DecidableEq, Repr

/-- find_config_file without the cache: walk up lexically; stop at the search root (cwd
unless --search-parent-directories) or at `/` -/
def walk (w : World) : RDir → Option Source
  | [] =>
      (match w.toml [] with
       | some id => some (.toml id)
       | none => if w.searchParents then w.userConfig.map .user else none)
  | c :: rest =>
      match w.toml (norm (c :: rest)) with
      | some id => some (.toml id)
      | none =>
          if (!w.searchParents && (c :: rest) == w.cwd) then none
          else walk w rest

abbrev Cache := List (RDir × Option Source)

def Cache.get (c : Cache) (d : RDir) : Option (Option Source) := (c.find? (·.1 == d)).map (·.2)

/-- find_config_file with `config_cache`: returns the result and the new cache. (When the
walk ends in the user-level locations the code returns early without caching.) -/
def walkCached (w : World) : Cache → RDir → Option Source × Cache
  | cache, [] =>
      (match cache.get [] with
       | some r => (r, cache)
       | none =>
          match w.toml [] with
          | some id => (some (.toml id), ([], some (.toml id)) :: cache)
          | none =>
              if w.searchParents then
                (match w.userConfig with
                 | some u => (some (.user u), cache)
                 | none => (none, ([], none) :: cache))
              else (none, ([], none) :: cache))
  | cache, c :: rest =>
      match cache.get (c :: rest) with
      | some r => (r, cache)
      | none =>
          match w.toml (norm (c :: rest)) with
          | some id => (some (.toml id), (c :: rest, some (.toml id)) :: cache)
          | none =>
              if (!w.searchParents && (c :: rest) == w.cwd) then (none, (c :: rest, none) :: cache)
              else
                let (r, cache') := walkCached w cache rest
                -- the early return for a user-level config skips the insertion
                match r with
                | some (.user _) => (r, cache')
                | _ => (r, (c :: rest, r) :: cache')

/-- load_configuration for a file whose lexical parent directory (cwd joined with the path
as given) is `dir` -/
def resolve (w : World) (dir : RDir) : Source :=
  match w.forced with
  | some id => .forced id
  | none =>
      match walk w dir with
      | some s => s
      | none =>
          if w.noEditorconfig then .default
          else match w.editorconfig dir with
            | some id => .editorconfig id
            | none => .default

/-- documented rule for a target inside the working directory: the nearest directory with a
config file among the target's directory and its ancestors up to and including cwd -/
def nearest (w : World) (dir : RDir) : Option Nat :=
  -- `dir` = extra ++ cwd (reverse order): candidates are the suffixes of `dir` not shorter than cwd
  let rec go : RDir → Option Nat
    | [] => w.toml []
    | c :: rest =>
        match w.toml (c :: rest) with
        | some id => some id
        | none => if (c :: rest) == w.cwd then none else go rest
  go dir

/-! ### command-line overrides (load_overrides) -/

structure Cfg where
  syntaxV : Nat
  columnWidth : Nat
  lineEndings : Nat
  indentType : Nat
  indentWidth : Nat
  quoteStyle : Nat
  callParentheses : Nat
  spaceAfterFunctionNames : Nat
  collapseSimpleStatement : Nat
  sortRequires : Bool
  deriving DecidableEq, Repr

structure Overrides where
  syntaxV : Option Nat := none
  columnWidth : Option Nat := none
  lineEndings : Option Nat := none
  indentType : Option Nat := none
  indentWidth : Option Nat := none
  quoteStyle : Option Nat := none
  callParentheses : Option Nat := none
  spaceAfterFunctionNames : Option Nat := none
  collapseSimpleStatement : Option Nat := none
  sortRequires : Bool := false
  deriving DecidableEq, Repr

def loadOverrides (c : Cfg) (o : Overrides) : Cfg :=
  { syntaxV := o.syntaxV.getD c.syntaxV
    columnWidth := o.columnWidth.getD c.columnWidth
    lineEndings := o.lineEndings.getD c.lineEndings
    indentType := o.indentType.getD c.indentType
    indentWidth := o.indentWidth.getD c.indentWidth
    quoteStyle := o.quoteStyle.getD c.quoteStyle
    callParentheses := o.callParentheses.getD c.callParentheses
    spaceAfterFunctionNames := o.spaceAfterFunctionNames.getD c.spaceAfterFunctionNames
    collapseSimpleStatement := o.collapseSimpleStatement.getD c.collapseSimpleStatement
    sortRequires := o.sortRequires || c.sortRequires }

end StyluaModel.Config
