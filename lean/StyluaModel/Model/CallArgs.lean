/-
Model of the call-parentheses and function-name-spacing decisions, mirroring
/repo/src/formatters/functions.rs format_function_args (363-545), the next-suffix test of
format_function_call (1099-1107) and /repo/src/context.rs should_omit_string_parens /
should_omit_table_parens (130-142), create_function_definition_trivia /
create_function_call_trivia (184-206).
-/
namespace StyluaModel.CallArgs

inductive Mode | always | noSingleString | noSingleTable | none | input
  deriving DecidableEq, Repr

/-- what the single argument is (only inspected when there is exactly one, written directly) -/
inductive ArgKind | string | table | other
  deriving DecidableEq, Repr

/-- how the call is written in the input -/
inductive Form
  | parens (nargs : Nat) (first : ArgKind)
  | stringSugar
  | tableSugar
  deriving DecidableEq, Repr

inductive OutForm | parens | sugar
  deriving DecidableEq, Repr

def omitString : Mode → Bool
  | .none | .noSingleString => true
  | _ => false

def omitTable : Mode → Bool
  | .none | .noSingleTable => true
  | _ => false

/-- format_function_args; `obscure` = an index or a method call follows the call -/
def callForm (m : Mode) (obscure : Bool) : Form → OutForm
  | .parens n first =>
      if m ≠ .input ∧ (omitString m ∨ omitTable m) ∧ n = 1 ∧ ¬ obscure then
        (match first with
         | .string => if omitString m then .sugar else .parens
         | .table => if omitTable m then .sugar else .parens
         | .other => .parens)
      else .parens
  | .stringSugar => if m = .input ∨ (omitString m ∧ ¬ obscure) then .sugar else .parens
  | .tableSugar => if m = .input ∨ (omitTable m ∧ ¬ obscure) then .sugar else .parens

inductive SpaceMode | never | definitions | calls | always
  deriving DecidableEq, Repr

/-- create_function_call_trivia / create_function_definition_trivia: number of spaces -/
def callSpace : SpaceMode → Nat
  | .always | .calls => 1
  | _ => 0
def defSpace : SpaceMode → Nat
  | .always | .definitions => 1
  | _ => 0

end StyluaModel.CallArgs
