import StyluaModel.Model.Sched
/-
Model of one CLI run over a set of files, mirroring src/cli/main.rs:
  format_file (133-174): read -> format_code -> (check: create_diff | write: fs::write iff changed)
  the output thread (342-400): Diff => exit status raised to 1 (+ diff printed); Err => logged => 2
  the walker loop (405-518): a missing path is logged => 2
  final status (551-558).
A file is abstracted to its outcome under the resolved configuration.
-/
namespace StyluaModel.Run
open StyluaModel.Sched

inductive Outcome
  | same          -- already equals its formatted form
  | differs       -- parses, formatted form differs
  | parseError    -- does not parse
  | unreadable    -- cannot be read as UTF-8 text
  | verifyFail    -- `--verify` rejects the formatted output
  | missing       -- path given on the command line does not exist (walker error)
  deriving DecidableEq, Repr

inductive Mode | check | write
  deriving DecidableEq, Repr

structure File where
  id : Nat
  outcome : Outcome
  deriving DecidableEq, Repr

def isError : Outcome → Bool
  | .parseError | .unreadable | .verifyFail | .missing => true
  | _ => false

/-- what the worker does with one file: (written?, diff printed?, operation on EXIT_CODE) -/
def worker (m : Mode) (o : Outcome) : Bool × Bool × Option Op :=
  match o, m with
  | .same, _ => (false, false, none)
  | .differs, .check => (false, true, some (.fetchMax 1))
  | .differs, .write => (true, false, none)
  | _, _ => (false, false, some (.store 2))   -- error value on the channel -> error! -> logger

structure Result where
  exit : Int
  written : List Nat
  diffs : List Nat
  deriving DecidableEq, Repr

/-- the run, with the exit-status operations taking effect in the order `order` gives
(a permutation of the files: workers finish in any order) -/
def run (m : Mode) (files : List File) (order : List File) : Result :=
  { exit := (order.filterMap fun f => (worker m f.outcome).2.2).foldl (fun c op => (stepOp c 0 op).1) 0
    written := (files.filter fun f => (worker m f.outcome).1).map (·.id)
    diffs := (files.filter fun f => (worker m f.outcome).2.1).map (·.id) }

end StyluaModel.Run
