/-
Hand classification of every panic-capable site of the library that is not an
`unknown node` catch-all or an unwrap of a constant (those two classes are recognised by the
translator). The inventory itself (Generated/PanicSites.lean) is regenerated from /repo/src
on every run; `C07_sites_classified` fails as soon as the code gains, loses or moves a site
to another function.  Classes:
  lengthGuard  a length / emptiness / variant test in the same function dominates the site
  grammar      the parser guarantees the shape (a FunctionCall has a suffix, a union is non-empty, ...)
  regex        follows from the shape of the regular expression used
  debugOnly    debug_assert!: not compiled into release builds
  constant     unwrap of a constant constructor
  open         no local guard: the guard is a property of the callers; exercised dynamically (ring 3)
The justifications are reviewed text, not theorems: they are part of the trusted base.
-/
namespace StyluaModel.PanicClass

inductive Class | lengthGuard | grammar | regex | debugOnly | constant | open
  deriving DecidableEq, Repr

def classified : List (String × Class × String) := [
  ("formatters/assignment.rs::attempt_assignment_tactics::unwrap#1", .lengthGuard, "expressions.len() == 1 is tested by the enclosing branch"),
  ("formatters/assignment.rs::format_local_assignment_no_trivia::unwrap#1", .grammar, "a local assignment with expressions has an `=` token (full_moon parser invariant)"),
  ("formatters/assignment.rs::hang_punctuated_list::assert#1", .open, "assert!(punctuated.len() == 1): callers pass single-expression lists only; exercised dynamically"),
  ("formatters/block.rs::format_return::unwrap#1", .lengthGuard, "returns.len() == 1 tested just before"),
  ("formatters/block.rs::prefix_remove_leading_newlines::unreachable#1", .grammar, "called only for prefixes for which var_has_parentheses / the call-prefix test held"),
  ("formatters/expression.rs::to_range::unwrap#1", .grammar, "every parsed expression has at least one token, hence a range"),
  ("formatters/functions.rs::block_contains_nested_function::assert#1", .debugOnly, "debug_assert: not compiled into release builds"),
  ("formatters/functions.rs::block_contains_nested_function::unreachable#1", .open, "reached only for blocks accepted by is_block_simple (assignment / call); exercised dynamically"),
  ("formatters/functions.rs::format_function_args::unwrap#1", .lengthGuard, "arguments.len() == 1 is a conjunct of the enclosing condition"),
  ("formatters/functions.rs::format_function_args::unwrap#2", .lengthGuard, "arguments.len() == 1 is a conjunct of the enclosing condition"),
  ("formatters/functions.rs::format_function_body::unreachable#1", .lengthGuard, "guarded by is_block_empty test in the same match"),
  ("formatters/functions.rs::format_function_call::unwrap#1", .lengthGuard, "call_count > 1 implies at least one suffix"),
  ("formatters/functions.rs::should_inline_prefix::unwrap#1", .grammar, "an identifier token is never empty"),
  ("formatters/general.rs::format_token::assert#1", .debugOnly, "debug_assert"),
  ("formatters/general.rs::format_token::expect#1", .lengthGuard, "text starts with '-.' so get(1..) is Some"),
  ("formatters/general.rs::format_token::expect#2", .regex, "the regex has two alternatives, each with exactly one capture group"),
  ("formatters/general.rs::format_token::unreachable#1", .regex, "capture group 1 matches only a single or double quote"),
  ("formatters/general.rs::get_quote_to_use::unreachable#1", .lengthGuard, "inner match on the two remaining QuoteStyle values"),
  ("formatters/luau.rs::format_generic_parameter::unreachable#1", .grammar, "default type present iff `=` present (parser invariant)"),
  ("formatters/luau.rs::format_type_info_generics::unwrap#1", .lengthGuard, "generics.len() == 1 tested first"),
  ("formatters/luau.rs::format_type_info_internal::unwrap#1", .lengthGuard, "types.len() == 1 tested first"),
  ("formatters/luau.rs::format_type_info_internal::unwrap#2", .lengthGuard, "types.len() == 1 tested first"),
  ("formatters/stmt.rs::format_if::assert#1", .debugOnly, "debug_assert"),
  ("formatters/stmt.rs::format_if::panic#1", .open, "if-guard collapse: is_if_guard requires exactly one statement; exercised dynamically (collapse configs)"),
  ("formatters/stmt.rs::format_if::unreachable#1", .grammar, "else token present iff else block present (parser invariant)"),
  ("formatters/stmt.rs::format_numeric_for::unreachable#1", .grammar, "step comma present iff step present"),
  ("formatters/stmt.rs::format_stmt_no_trivia::assert#1", .open, "assert!(should_format_node == Normal) for collapsed bodies / if guards: exercised dynamically with ranges and ignore directives"),
  ("formatters/stmt.rs::format_stmt_no_trivia::unreachable#1", .open, "callers pass assignment / call / goto only; exercised dynamically"),
  ("formatters/stmt.rs::hug_generic_for::unwrap#1", .lengthGuard, "expressions.len() == 1 tested by caller"),
  ("formatters/table.rs::format_field::unreachable#1", .open, "format_field on a field outside the range: callers test the range first; exercised dynamically with ranges over tables"),
  ("formatters/table.rs::format_singleline_table::assert#1", .open, "assert!(trailing_trivia.is_empty()): single-line tables are chosen only without comments; exercised dynamically (slots)"),
  ("formatters/table.rs::format_table_constructor::expect#1", .lengthGuard, "branch taken only when the table has fields"),
  ("formatters/table.rs::handle_field_key_equals_comments::unwrap#1", .constant, "TokenReference::symbol('=')"),
  ("formatters/trivia.rs::update_trailing_trivia::unwrap#1", .grammar, "method colon / default `=` present when the corresponding name / type is"),
  ("formatters/trivia.rs::update_trailing_trivia::unwrap#2", .grammar, "method colon / default `=` present when the corresponding name / type is"),
  ("formatters/trivia_util.rs::get_stmt_trailing_trivia::unreachable#1", .grammar, "a FunctionCall has at least one suffix"),
  ("formatters/trivia_util.rs::is_block_simple::unwrap#1", .lengthGuard, "last_stmt().is_some() / stmts().count() == 1 tested in the same expression"),
  ("formatters/trivia_util.rs::is_block_simple::unwrap#2", .lengthGuard, "last_stmt().is_some() / stmts().count() == 1 tested in the same expression"),
  ("formatters/trivia_util.rs::leading_trivia::expect#1", .grammar, "TypeUnion / TypeIntersection are never empty (parser invariant)"),
  ("formatters/trivia_util.rs::leading_trivia::expect#2", .grammar, "TypeUnion / TypeIntersection are never empty (parser invariant)"),
  ("formatters/trivia_util.rs::leading_trivia::unreachable#1", .grammar, "Prefix has only Name and Expression variants"),
  ("formatters/trivia_util.rs::trailing_trivia::expect#1", .grammar, "TypeUnion / TypeIntersection are never empty (parser invariant)"),
  ("formatters/trivia_util.rs::trailing_trivia::expect#2", .grammar, "TypeUnion / TypeIntersection are never empty (parser invariant)"),
  ("lib.rs::print_full_moon_errors::unwrap#1", .lengthGuard, "errors.len() == 1 tested first"),
  ("sort_requires.rs::partition_nodes_into_groups::expect#1", .grammar, "a local name token is an identifier"),
  ("sort_requires.rs::partition_nodes_into_groups::expect#2", .lengthGuard, "a RequiresGroup is created non-empty"),
  ("sort_requires.rs::partition_nodes_into_groups::expect#3", .grammar, "a parsed statement has an end position"),
  ("sort_requires.rs::partition_nodes_into_groups::unreachable#1", .lengthGuard, "parts.last_mut() is the part pushed just above"),
  ("sort_requires.rs::partition_nodes_into_groups::unreachable#2", .lengthGuard, "parts.last_mut() is the part pushed just above"),
  ("sort_requires.rs::partition_nodes_into_groups::unreachable#3", .lengthGuard, "parts.last_mut() is the part pushed just above"),
  ("sort_requires.rs::partition_nodes_into_groups::unreachable#4", .lengthGuard, "parts.last_mut() is the part pushed just above"),
  ("sort_requires.rs::partition_nodes_into_groups::unwrap#1", .lengthGuard, "names().len() == 1 && expressions().len() == 1 tested first"),
  ("sort_requires.rs::partition_nodes_into_groups::unwrap#2", .lengthGuard, "names().len() == 1 && expressions().len() == 1 tested first"),
  ("sort_requires.rs::partition_nodes_into_groups::unwrap#3", .grammar, "names() non-empty for a local assignment"),
  ("sort_requires.rs::sort_requires::unreachable#1", .lengthGuard, "group members are LocalAssignment by construction (partition)"),
  ("sort_requires.rs::sort_requires::unreachable#2", .lengthGuard, "group members are LocalAssignment by construction (partition)"),
  ("verify_ast.rs::remove_type_parentheses::unwrap#1", .lengthGuard, "types.len() == 1 tested first"),
  ("verify_ast.rs::visit_number::unreachable#1", .grammar, "visitor callback is invoked for that token type only"),
  ("verify_ast.rs::visit_string_literal::unreachable#1", .grammar, "visitor callback is invoked for that token type only")]

def openSites : List String := (classified.filter (fun x => x.2.1 == .open)).map (·.1)

end StyluaModel.PanicClass
