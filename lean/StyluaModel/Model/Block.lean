/-
Model of the per-statement decisions of `format_block` (block.rs:509-633),
`Context::check_toggle_formatting` / `should_format_node` (context.rs:49-127) and
`check_stmt_requires_semicolon` (block.rs:476-506).

A statement is abstracted to what these functions inspect: its kind, whether it would be
read as a call continuation of the previous statement (it starts with a parenthesised
prefix), whether it has a semicolon, the directive lines of its leading comments, and its
byte span. `format_stmt` itself is a parameter (Skip => the statement's own tokens are
returned untouched; NotInRange => only nested blocks are visited).
-/
namespace StyluaModel.Block

inductive Kind | assignment | localAssignment | call | repeatB | other
  deriving DecidableEq, Repr

/-- one trimmed comment line of the leading trivia -/
inductive Line | ignore | ignoreStart | ignoreEnd | other
  deriving DecidableEq, Repr

structure Stmt where
  id : Nat
  kind : Kind
  /-- as the *next* statement it begins with `(`: a call with a parenthesised prefix, an
  assignment / compound assignment whose first variable has one -/
  startsParen : Bool
  semi : Bool
  lines : List Line
  start : Nat
  stop : Nat
  deriving DecidableEq, Repr

inductive Decision | skip | notInRange | normal
  deriving DecidableEq, Repr

structure Range where
  start : Option Nat
  stop : Option Nat
  deriving DecidableEq, Repr

/-- check_toggle_formatting: the flag after the statement's leading comment lines -/
def toggle (disabled : Bool) : List Line → Bool
  | [] => disabled
  | .ignoreStart :: ls => toggle true ls
  | .ignoreEnd :: ls => toggle false ls
  | _ :: ls => toggle disabled ls

def inRange (r : Option Range) (s : Stmt) : Bool :=
  match r with
  | none => true
  | some r =>
    (match r.start with | some a => decide (a ≤ s.start) | none => true) &&
    (match r.stop with | some b => decide (s.stop ≤ b) | none => true)

/-- should_format_node, given the flag already updated for this statement -/
def decide1 (disabled : Bool) (r : Option Range) (s : Stmt) : Decision :=
  if disabled then .skip
  else if s.lines.contains .ignore then .skip
  else if inRange r s then .normal
  else .notInRange

/-- check_stmt_requires_semicolon -/
def requiresSemi (s : Stmt) (next : Option Stmt) : Bool :=
  match s.kind with
  | .assignment | .localAssignment | .call | .repeatB =>
      (match next with | some n => n.startsParen | none => false)
  | .other => false

structure Out where
  id : Nat
  decision : Decision
  semi : Bool
  /-- leading blank lines of the block's first statement removed -/
  stripped : Bool
  deriving DecidableEq, Repr

structure Variant where
  /-- the skip / range decision used for the first-statement newline stripping and for the
  semicolon is taken on the *original* statement, and a statement that is not formatted
  keeps its semicolon as written (fix of D3, D4, D19) -/
  keepUnformatted : Bool
  deriving DecidableEq, Repr

def pinned : Variant := { keepUnformatted := false }
def repaired : Variant := { keepUnformatted := true }

/-- what format_block emits for one statement, given its decision `d`.
In the pinned code the decision for newline stripping is re-taken on the *formatted*
statement, whose freshly created tokens carry position 0: under a range with a positive
start that reads as "not in range". -/
def outOf (v : Variant) (r : Option Range) (first : Bool) (d : Decision) (s : Stmt) (next : Option Stmt) : Out :=
  let strippedPinned :=
    first && (match d with
      | .normal => (match r with
          | some ⟨some a, _⟩ => decide (a = 0)
          | _ => true)
      | .skip => false
      | .notInRange => false)
  let stripped := if v.keepUnformatted then first && decide (d = .normal) else strippedPinned
  let semi := if v.keepUnformatted && decide (d ≠ .normal) then s.semi else requiresSemi s next
  { id := s.id, decision := d, semi := semi, stripped := stripped }

/-- the statement loop of format_block. `first` = no statement emitted yet. -/
def fmtStmts (v : Variant) (r : Option Range) : (disabled first : Bool) → List Stmt → List Out
  | _, _, [] => []
  | disabled, first, s :: rest =>
      outOf v r first (decide1 (toggle disabled s.lines) r s) s rest.head?
        :: fmtStmts v r (toggle disabled s.lines) false rest

def fmtBlock (v : Variant) (r : Option Range) (b : List Stmt) : List Out := fmtStmts v r false true b

end StyluaModel.Block
