import StyluaModel.Model.Trivia
/-
Model of format_end_token (/repo/src/formatters/general.rs 650-713): the token that closes an indented block
(`end`, `until`, a closing brace / parenthesis on its own line). Its leading trivia goes through
load_token_trivia (comments indented one level deeper than the token) and is then scanned from the back:
line endings are dropped until the first comment is met, except a line ending that directly follows a comment.
-/
namespace StyluaModel.EndToken
open StyluaModel.Trivia

def headIsComment : List Out → Bool
  | .comment _ _ :: _ => true
  | _ => false

/-- the loop over the reversed trivia; `stop` = `stop_removal` -/
def scan : (stop : Bool) → List Out → List Out
  | _, [] => []
  | stop, .newline :: rest =>
      if !stop && !headIsComment rest then scan stop rest else .newline :: scan stop rest
  | stop, .indent :: rest => .indent :: scan stop rest
  | stop, .space :: rest => .space :: scan stop rest
  | _, .comment k t :: rest => .comment k t :: scan true rest

/-- leading trivia of the formatted end token -/
def endLeading (eol : List Char) (lead : List Triv) : List Out :=
  (scan false (load eol .leading lead).reverse).reverse

end StyluaModel.EndToken
