import StyluaModel.Model.Semi
/-
Model of hang_binop (/repo/src/formatters/expression.rs 914-955): when a binary operator is pushed onto a new
line, its leading trivia is rebuilt from (i) its own leading comments, each on a line of its own, (ii) its
trailing comments, each behind one space, (iii) the leading comments of the right-hand operand, each on a line
of its own, and (iv) the line break and indentation in front of the operator; its trailing trivia becomes one
space. The operator is taken *unformatted* (`binop.to_owned()`), so the comments are the raw tokens.
-/
namespace StyluaModel.HangOp
open StyluaModel.Trivia StyluaModel.Semi

def ownLine (cs : List Out) : List Out := cs.flatMap fun c => [Out.newline, Out.indent, c]
def sameLine (cs : List Out) : List Out := cs.flatMap fun c => [Out.space, c]

/-- (leading trivia, trailing trivia) of the hung operator -/
def hangBinop (opLead opTrail rhsLead : List Triv) : List Out × List Out :=
  (ownLine (rawComments opLead) ++ sameLine (rawComments opTrail) ++ ownLine (rawComments rhsLead) ++
    [Out.newline, Out.indent], [Out.space])

end StyluaModel.HangOp

/-
Model of the key / equals-sign comment handling of a named table field (/repo/src/formatters/table.rs
handle_field_key_equals_comments 74-124 and the NameKey arm of format_field 193-211): the key is formatted
(its trivia through load_token_trivia); the comments that trail it and the raw comments on either side of `=`
are moved in front of the key, each on a line of its own; `=` is replaced by a fresh ` = `.
-/
namespace StyluaModel.FieldKey
open StyluaModel.Trivia StyluaModel.Semi

def onlyComments : List Out → List Out
  | [] => []
  | .comment k t :: r => .comment k t :: onlyComments r
  | _ :: r => onlyComments r

/-- new leading trivia of the key (its trailing trivia becomes empty). `singleToken`: the key is one token
(a name): `Node::surrounding_trivia`, which the code asks for the key's trailing trivia, takes the first token for
the leading side and the *remaining* last token for the trailing side, so for a one-token node it reports no
trailing trivia - the comments behind a name key are dropped (D29; enshrined by the repository's own snapshot
`table-comments-2.lua`, which is why it is not repaired here) -/
def keyLeading (eol : List Char) (multiline singleToken : Bool) (keyLead keyTrail eqLead eqTrail : List Triv) : List Out :=
  load eol .leading keyLead ++
    ((if singleToken then [] else onlyComments (load eol .trailing keyTrail)) ++ rawComments (eqLead ++ eqTrail)).flatMap
      (fun c => [Out.indent, c, Out.newline]) ++
    (if multiline then [Out.indent] else [])

end StyluaModel.FieldKey

/-
Model of the comma handling of format_punctuated_multiline (/repo/src/formatters/general.rs 437-491: value lists of
assignments and returns laid out one value per line): the formatted value's trailing comments are taken off and put
*behind* the comma, in front of the comma's own (formatted) trailing trivia; the comma's leading trivia stays where it
is; from the second value on, the value's leading comments get a line each (prepend_newline_indent).
`vLead` / `vTrail` are the trivia of the *formatted* value (a parameter: built by the value formatter).
-/
namespace StyluaModel.Punct
open StyluaModel.Trivia StyluaModel.Semi StyluaModel.FieldKey StyluaModel.HangOp

/-- prepend_newline_indent -/
def prependNewlineIndent (vLead : List Out) : List Out :=
  ownLine (onlyComments vLead) ++ [Out.newline, Out.indent]

/-- what is printed after a value that is followed by a comma: the comma's leading trivia, the comma (`none`),
its new trailing trivia -/
def afterValue (eol : List Char) (vTrail : List Out) (pLead pTrail : List Triv) : List (Option Out) :=
  (load eol .leading pLead).map some ++ [none] ++
    (sameLine (onlyComments vTrail) ++ load eol .trailing pTrail).map some

end StyluaModel.Punct

/-
Model of the trivia handling when format_function_args changes the form of a single-argument call
(/repo/src/formatters/functions.rs 370-412 parentheses dropped, 487-528 / 531-560 parentheses added; a string argument,
or a table constructor, whose first and last token then carry the trivia):
  * `f("x")` → `f "x"`: the argument token keeps its own trivia and receives the *trailing* trivia of `)`; the
    trivia in front of `(`, behind `(` and in front of `)` is not carried over;
  * `f "x"` → `f("x")`: the formatted argument's trailing comments are moved behind a fresh `)`.
-/
namespace StyluaModel.Sugar
open StyluaModel.Trivia StyluaModel.Semi StyluaModel.FieldKey StyluaModel.HangOp

/-- parentheses dropped: (leading, trailing) trivia of the string token as printed -/
def dropParens (eol : List Char) (_openLead _openTrail argLead argTrail _closeLead closeTrail : List Triv) :
    List Out × List Out :=
  (load eol .leading argLead ++ [Out.space], load eol .trailing (argTrail ++ closeTrail))

/-- parentheses added: leading trivia of the argument, trailing trivia of the new `)` -/
def addParens (eol : List Char) (argLead argTrail : List Triv) : List Out × List Out :=
  (load eol .leading argLead, sameLine (onlyComments (load eol .trailing argTrail)))

end StyluaModel.Sugar

/-
Model of what a multi-line table prints behind a field's value (/repo/src/formatters/table.rs: format_field /
format_field_expression_value take the value's trailing comments apart - block comments stay behind the value, raw;
line comments are moved behind the separator - and format_multiline_table 336-407 formats the moved comments as
trailing trivia, appends them and the line ending to the separator, which is the formatted original or a fresh `,`).
-/
namespace StyluaModel.TableField
open StyluaModel.Trivia StyluaModel.Semi StyluaModel.HangOp

def rawBlocks : List Triv → List Out
  | [] => []
  | .comment (.block l) t :: r => .comment (.block l) t :: rawBlocks r
  | _ :: r => rawBlocks r

/-- the single-line comments, each as format_token gives it in trailing position -/
def movedLines (eol : List Char) : List Triv → List Out
  | [] => []
  | .comment .line t :: r => fmtComment eol .trailing .line t ++ movedLines eol r
  | _ :: r => movedLines eol r

/-- what follows the value's last token; `none` marks the separator -/
def afterField (eol : List Char) (vTrail : List Triv) (sep : Option (List Triv × List Triv)) : List (Option Out) :=
  (sameLine (rawBlocks vTrail)).map some ++
    (match sep with
     | some (pl, pt) => (load eol .leading pl).map some ++ [none] ++ (load eol .trailing pt).map some
     | none => [none]) ++
    (movedLines eol vTrail ++ [Out.newline]).map some

end StyluaModel.TableField

/-
Model of what a multi-line argument list prints behind an argument (/repo/src/formatters/general.rs
format_contained_punctuated_multiline 520-585): block comments stay behind the argument; the comma loses its leading
trivia, whose comments are appended *behind* it, each on a line of its own, after the comma's own trailing trivia;
then the argument's line comments; then the line ending. Without a comma (last argument) a phantom token carries the
line comments and the line ending. `aTrail`: trailing trivia of the formatted argument (a parameter).
-/
namespace StyluaModel.CallArg
open StyluaModel.Trivia StyluaModel.Semi StyluaModel.HangOp StyluaModel.FieldKey

def blocksOut : List Out → List Out
  | [] => []
  | .comment (.block l) t :: r => .comment (.block l) t :: blocksOut r
  | _ :: r => blocksOut r

def linesOut : List Out → List Out
  | [] => []
  | .comment .line t :: r => .comment .line t :: linesOut r
  | _ :: r => linesOut r

def afterArg (eol : List Char) (aTrail : List Out) (sep : Option (List Triv × List Triv)) : List (Option Out) :=
  (sameLine (blocksOut aTrail)).map some ++
    (match sep with
     | some (pl, pt) =>
        [none] ++ (load eol .trailing pt ++ ownLine (onlyComments (load eol .leading pl))).map some
     | none => []) ++
    (sameLine (linesOut aTrail) ++ [Out.newline]).map some

end StyluaModel.CallArg
