/-
Model of `path_is_stylua_ignored` (src/cli/main.rs 244-296) and `find_ignore_file_path`
(src/cli/config.rs 235-246): which single `.styluaignore` is consulted for an explicitly named path
(or `--stdin-filepath`) under `--respect-ignores`, and what happens when that file's directory does
not contain the path.  gitignore matching itself (crate `ignore`) is a parameter.
Paths are absolute, as lists of components from the file-system root.
-/
namespace StyluaModel.Ignore

abbrev Path := List Nat

structure World where
  /-- the directories that hold a `.styluaignore` -/
  ignoreDirs : List Path
  /-- `matches d p`: the ignore file of directory `d` excludes `p` (itself or through a parent), for `p` under `d` -/
  matched : Path → Path → Bool

/-- find_ignore_file_path: the directory itself, then - if `recursive` - its ancestors (`fuel` bounds the walk
by the depth of the directory) -/
def findIgnore (w : World) (recursive : Bool) : Nat → Path → Option Path
  | 0, d => if w.ignoreDirs.contains d then some d else none
  | fuel + 1, d =>
      if w.ignoreDirs.contains d then some d
      else if recursive && !d.isEmpty then findIgnore w recursive fuel d.dropLast
      else none

/-- get_ignore: the file found from the path's directory, else the current directory's own -/
def getIgnore (w : World) (cwd dir : Path) (spd : Bool) : Option Path :=
  match findIgnore w spd dir.length dir with
  | some d => some d
  | none => findIgnore w false 0 cwd

inductive Answer | ignored | notIgnored | panic
  deriving DecidableEq, Repr

/-- `guard` = fix 8e8142f: a path outside the ignore file's directory is not matched against it -/
structure Variant where
  guard : Bool
  deriving DecidableEq, Repr

def pinned : Variant := { guard := false }
def repaired : Variant := { guard := true }

def pathIsIgnored (v : Variant) (w : World) (cwd : Path) (spd : Bool) (p : Path) : Answer :=
  match getIgnore w cwd p.dropLast spd with
  | none => .notIgnored
  | some d =>
      if d.isPrefixOf p then (if w.matched d p then .ignored else .notIgnored)
      else if v.guard then .notIgnored
      else .panic   -- Gitignore::matched_path_or_any_parents: "path is expected to be under the root"

end StyluaModel.Ignore
