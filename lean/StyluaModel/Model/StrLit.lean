/-
Model of StyLua's string / number literal rewriting.
Mirrors /repo/src/formatters/general.rs:
  get_quote_to_use        (lines 51-77)
  format_token, Number    (lines 107-118)
  format_token, StringLiteral brackets (124-137) and quoted (138-194)

The regex  \\?(["'])|\\([\S\s])  with `replace_all` is modelled as the left-to-right,
leftmost-first scanner it denotes.  Text is `List Char` (Unicode scalars), which is the
unit the `regex` crate matches `[\S\s]` on.
-/
namespace StyluaModel.StrLit

inductive Q | single | double
  deriving DecidableEq, Repr

inductive QuoteStyle | autoPreferDouble | autoPreferSingle | forceDouble | forceSingle
  deriving DecidableEq, Repr

def qchar : Q → Char
  | .single => '\''
  | .double => '"'

def isQuote (c : Char) : Bool := c == '\'' || c == '"'

/-- complement of UNNECESSARY_ESCAPES = ^[^\n\r"'0-9\\abfnrtuvxz]$ -/
def necessary (c : Char) : Bool :=
  c == '\n' || c == '\r' || c == '"' || c == '\'' || c.isDigit || c == '\\' ||
  c == 'a' || c == 'b' || c == 'f' || c == 'n' || c == 'r' || c == 't' || c == 'u' ||
  c == 'v' || c == 'x' || c == 'z'

/-- replacement closure, quote arm -/
def emitQuote (out : Q) (c : Char) : List Char :=
  if c == qchar out then ['\\', c] else [c]

/-- `RE.replace_all(literal, closure)` -/
def scan (out : Q) : List Char → List Char
  | [] => []
  | '\\' :: c :: rest =>
      if isQuote c then emitQuote out c ++ scan out rest
      else if necessary c then '\\' :: c :: scan out rest
      else c :: scan out rest
  | c :: rest =>
      if isQuote c then emitQuote out c ++ scan out rest
      else c :: scan out rest

def countC (ch : Char) : List Char → Nat
  | [] => 0
  | c :: cs => (if c == ch then 1 else 0) + countC ch cs

/-- get_quote_to_use -/
def quoteToUse (style : QuoteStyle) (lit : List Char) : Q :=
  match style with
  | .forceDouble => .double
  | .forceSingle => .single
  | .autoPreferDouble =>
      let s := countC '\'' lit
      let d := countC '"' lit
      if s == d then .double else if s > d then .double else .single
  | .autoPreferSingle =>
      let s := countC '\'' lit
      let d := countC '"' lit
      if s == d then .single else if s > d then .double else .single

/-- quoted string literal: (quote_type, literal) of the output token -/
def rewrite (style : QuoteStyle) (lit : List Char) : Q × List Char :=
  let q := quoteToUse style lit
  (q, scan q lit)

/-- `s.replace("\r\n", "\n")` -/
def crlfToLf : List Char → List Char
  | [] => []
  | '\r' :: '\n' :: rest => '\n' :: crlfToLf rest
  | c :: rest => c :: crlfToLf rest

/-- `s.replace('\n', eol)` -/
def lfToEol (eol : List Char) : List Char → List Char
  | [] => []
  | c :: rest => if c == '\n' then eol ++ lfToEol eol rest else c :: lfToEol eol rest

/-- long-bracket string / block comment body conversion -/
def rewriteLong (eol : List Char) (lit : List Char) : List Char :=
  lfToEol eol (crlfToLf lit)

/-- number token text -/
def rewriteNumber (t : List Char) : List Char :=
  match t with
  | '.' :: _ => '0' :: t
  | '-' :: '.' :: rest => '-' :: '0' :: '.' :: rest
  | _ => t

end StyluaModel.StrLit
