/-
Model of StyLua's rule for parentheses in Luau types, mirroring /repo/src/formatters/luau.rs:
  TypeInfoContext                         (180-262)
  keep_parentheses                        (264-293)
  format_type_info_internal               (309-760): the arms that pass a context on
  hang_type_info                          (805-900): same member contexts as the single-line arms
  format_type_info_generics (119-178), format_type_field_key (1044-1063), format_type_argument (949-973)
Layout enters in one place only: a parenthesised type that does not fit (or holds comments) is
laid out on several lines, keeps its parentheses, and formats its content in a fresh context.
That answer is taken from an oracle `o : List Nat → Bool` indexed by the path of the node; every
theorem quantifies over all oracles.
-/
namespace StyluaModel.TypeParen

inductive Ty
  | basic (n : Nat)                      -- name, singleton, typeof(…), module.Name: atomic
  | opt (t : Ty)                         -- `T?`
  | union (ts : List Ty)                 -- `A | B | …`
  | inter (ts : List Ty)                 -- `A & B & …`
  | fn (args : List Ty) (ret : Ty)       -- `(args) -> ret`
  | paren (t : Ty)                       -- `(T)`: a Tuple holding exactly one type
  | pack (ts : List Ty)                  -- `(A, B)` / `()`: a Tuple of another length
  | variadic (t : Ty)                    -- `...T`
  | generic (n : Nat) (ts : List Ty)     -- `Name<…>`
  | tbl (ts : List Ty)                   -- `{ f: T, … }` / `{ T }`: the field value types
  | indexer (k v : Ty)                   -- `[K]: V` inside a table type
  deriving Repr, BEq, Inhabited

structure Ctx where
  wo : Bool   -- within_optional
  wv : Bool   -- within_variadic
  wg : Bool   -- within_generic
  wi : Bool   -- within_table_indexer
  cu : Bool   -- contains_union
  ci : Bool   -- contains_intersect
  deriving Repr, DecidableEq

def Ctx.new : Ctx := ⟨false, false, false, false, false, false⟩

/-- keep_parentheses -/
def keep (t : Ty) (c : Ctx) : Bool :=
  match t with
  | .fn .. => (c.wo || c.wv || c.ci || c.cu) || c.wg
  | .union _ => (c.wo || c.wv || c.wi || c.ci) || c.wg
  | .opt _ => (c.wo || c.wv || c.wi || c.ci) || c.wg
  | .inter _ => (c.wo || c.wv || c.wi || c.cu) || c.wg
  | _ => c.wg

/-- which generation of the code: `ctxIntoParen` is what a seeded change (C02b) broke - the content of
a parenthesis that is dropped must be formatted in the context the parenthesis stood in -/
structure Variant where
  ctxIntoParen : Bool
  deriving DecidableEq, Repr

def current : Variant := { ctxIntoParen := true }

mutual
/-- format_type_info_internal (and hang_type_info): `p` is the path of the node, for the oracle only -/
def fmtT (v : Variant) (o : List Nat → Bool) (p : List Nat) (c : Ctx) : Ty → Ty
  | .basic n => .basic n
  | .opt t => .opt (fmtT v o (0 :: p) { c with wo := true, cu := true } t)
  | .union ts => .union (fmtL v o p 0 { c with cu := true } ts)
  | .inter ts => .inter (fmtL v o p 0 { c with ci := true } ts)
  | .fn args ret => .fn (fmtL v o (0 :: p) 0 Ctx.new args) (fmtT v o (1 :: p) Ctx.new ret)
  | .paren t =>
      if o p then .paren (fmtT v o (0 :: p) Ctx.new t)
      else if keep t c then .paren (fmtT v o (0 :: p) c t)
      else fmtT v o (0 :: p) (if v.ctxIntoParen then c else Ctx.new) t
  | .pack ts => .pack (if o p then fmtL v o p 0 Ctx.new ts else fmtL v o p 0 c ts)
  | .variadic t => .variadic (fmtT v o (0 :: p) { c with wv := true } t)
  | .generic n ts => .generic n (fmtL v o p 0 { Ctx.new with wg := true } ts)
  | .tbl ts => .tbl (fmtL v o p 0 Ctx.new ts)
  | .indexer k w => .indexer (fmtT v o (0 :: p) { Ctx.new with wi := true } k) (fmtT v o (1 :: p) Ctx.new w)
def fmtL (v : Variant) (o : List Nat → Bool) (p : List Nat) (i : Nat) (c : Ctx) : List Ty → List Ty
  | [] => []
  | t :: ts => fmtT v o (i :: p) c t :: fmtL v o p (i + 1) c ts
end

end StyluaModel.TypeParen
