import StyluaModel.Model.Trivia
/-
Model of `format_eof` (src/formatters/general.rs 715-758): what happens to the trivia in front of the
end-of-file token - the comments and blank lines after the last statement.
-/
namespace StyluaModel.Eof
open StyluaModel.Trivia

def isWsOut : Out → Bool
  | .newline => true
  | .indent => true
  | .space => true
  | .comment _ _ => false

/-- pop_until_no_whitespace -/
def popWs (l : List Out) : List Out := (l.reverse.dropWhile isWsOut).reverse

/-- `none`: the token is returned untouched (not to be formatted: outside the range / ignored) -/
def fmtEof (eol : List Char) (format : Bool) (lead : List Triv) : Option (List Out) :=
  if !format then none
  else
    let f := load eol .leading lead
    some (if f.all isWsOut then [] else popWs f ++ [.newline])

end StyluaModel.Eof
