import StyluaModel.Model.Expr
/-
Model of StyLua's parenthesis decisions, mirroring /repo/src/formatters/expression.rs:
  ExpressionContext                      (52-82)
  check_excess_parentheses               (127-182)
  format_expression_internal             (190-359)   = `fmtS`   (single-line path)
  hang_binop_expression                  (1121-1291) = `hangBin`
  format_hanging_expression_             (1294-1490) = `fmtH`
  remove_condition_parentheses           (stmt.rs 54-65) = `stripCond`
Layout questions ("is it over the column width?", "does it contain comments?") are answered
by an `Oracle`; every theorem quantifies over all oracles.
-/
namespace StyluaModel.ParenRule
open StyluaModel Expr

inductive Ctx | std | prefix | tassert | binLhs | binLhsExp | unOrBin
  deriving DecidableEq, Repr

/-- check_excess_parentheses -/
def checkExcess : Expr → Ctx → Bool
  | paren _, _ => true
  | un op e, ctx =>
      if ctx = .binLhsExp then false
      else if ctx = .binLhs ∧ op = .not then false
      else checkExcess e ctx
  | bin .., _ => false
  | assert _, ctx => !(ctx = .unOrBin ∨ ctx = .binLhs ∨ ctx = .binLhsExp)
  | call _, _ => false
  | varargs, _ => false
  | ifx _, _ => false
  | atom _, _ => true

def keepParens (ctx : Ctx) : Bool := ctx = .prefix ∨ ctx = .tassert

/-- the `- -x` test of format_expression_internal (300-312), on the *formatted* operand -/
def needsMinusGuard : Expr → Bool
  | un .minus _ => true
  | paren (un .minus _) => true
  | _ => false

def isUnMinus : Expr → Bool
  | un .minus _ => true
  | _ => false

def lhsCtx (op : BinOp) : Ctx := if op = .caret then .binLhsExp else .binLhs

/-- which of the two repairs of this round are in the tree (kept as a parameter so the
model follows the code; the check selects the variant that corresponds) -/
structure Variant where
  /-- a dropped parenthesis re-formats its content in the *same* context (fix of D22) -/
  ctxThroughDrop : Bool
  /-- the hanging unary arm has the `- -` guard (fix of D2) -/
  hangMinusGuard : Bool
  /-- the hanging binary arm and hang_binop_expression pass BinaryLHSExponent to the left
  operand of `^` (fixes of D1 and D28) -/
  hangLhsExp : Bool
  /-- the hanging binary arm formats its right operand as an operand (UnaryOrBinary), not in
  the Standard context (fix of D30) -/
  hangRhsOperand : Bool
  deriving DecidableEq, Repr

/-- format_expression_internal: the single-line path -/
def fmtS (v : Variant) : Ctx → Expr → Expr
  | _, atom n => atom n
  | _, call n => call n
  | _, varargs => varargs
  | ctx, paren e =>
      if checkExcess e ctx ∧ ¬ keepParens ctx then
        fmtS v (if v.ctxThroughDrop then ctx else .std) e
      else paren (fmtS v .std e)
  | _, un op e =>
      let e' := fmtS v .unOrBin e
      if op = .minus ∧ needsMinusGuard e' then un op (paren e') else un op e'
  | _, bin op l r => bin op (fmtS v (lhsCtx op) l) (fmtS v .unOrBin r)
  | _, assert e => assert (fmtS v .tassert e)
  | _, ifx n => ifx n

/-- layout oracle: one node per expression node visited on the hanging path -/
inductive Oracle
  | leaf
  | node (hang small commentsL commentsR : Bool) (l r : Oracle)
  deriving Repr

def Oracle.l : Oracle → Oracle
  | .leaf => .leaf
  | .node _ _ _ _ l _ => l
def Oracle.r : Oracle → Oracle
  | .leaf => .leaf
  | .node _ _ _ _ _ r => r
def Oracle.hang : Oracle → Bool
  | .leaf => false
  | .node h _ _ _ _ _ => h
def Oracle.small : Oracle → Bool
  | .leaf => false
  | .node _ s _ _ _ _ => s
def Oracle.cl : Oracle → Bool
  | .leaf => false
  | .node _ _ c _ _ _ => c
def Oracle.cr : Oracle → Bool
  | .leaf => false
  | .node _ _ _ c _ _ => c

mutual
/-- format_hanging_expression_ -/
def fmtH (v : Variant) (o : Oracle) (ctx : Ctx) : Expr → Expr
  | assert e => assert (fmtH v o.l .tassert e)
  | paren e =>
      if checkExcess e ctx ∧ ¬ keepParens ctx then fmtH v o.l ctx e
      else if o.small then paren (fmtS v .std e)
      else paren (fmtH v o.l .std e)
  | un op e =>
      let e' := fmtH v o.l .unOrBin e
      if v.hangMinusGuard ∧ op = .minus ∧ isUnMinus e'
      then un op (paren e') else un op e'
  | bin op l r =>
      bin op (hangBin v o.l (if v.hangLhsExp ∧ op = .caret then .binLhsExp else .unOrBin) l)
             (hangBin v o.r (if v.hangRhsOperand then .unOrBin else .std) r)
  | atom n => fmtS v ctx (atom n)
  | call n => fmtS v ctx (call n)
  | varargs => fmtS v ctx varargs
  | ifx n => fmtS v ctx (ifx n)
/-- hang_binop_expression (the `top_binop` argument only feeds layout, so it is absorbed
by the oracle) -/
def hangBin (v : Variant) (o : Oracle) (ctx : Ctx) : Expr → Expr
  | bin op l r =>
      let hl := hangBin v o.l (if v.hangLhsExp ∧ op = .caret then .binLhsExp else ctx) l
      let hr := hangBin v o.r ctx r
      let sl := fmtS v (lhsCtx op) l
      let sr := fmtS v .unOrBin r
      if o.hang then
        if op.rassoc then bin op (if o.cl then hl else sl) hr
        else bin op hl (if o.cr then hr else sr)
      else bin op (if o.cl then hl else sl) (if o.cr then hr else sr)
  | assert e => assert (fmtH v o.l .tassert e)
  | paren e =>
      if checkExcess e ctx ∧ ¬ keepParens ctx then fmtH v o.l ctx e
      else if o.small then paren (fmtS v .std e)
      else paren (fmtH v o.l .std e)
  | un op e =>
      let e' := fmtH v o.l .unOrBin e
      if v.hangMinusGuard ∧ op = .minus ∧ isUnMinus e'
      then un op (paren e') else un op e'
  | atom n => fmtS v ctx (atom n)
  | call n => fmtS v ctx (call n)
  | varargs => fmtS v ctx varargs
  | ifx n => fmtS v ctx (ifx n)
end

/-- remove_condition_parentheses -/
def stripCond : Expr → Expr
  | paren e => e
  | e => e

/-- the code at the pinned commit -/
def pinned : Variant := { ctxThroughDrop := false, hangMinusGuard := false, hangLhsExp := false, hangRhsOperand := false }
/-- the code after the `fix:` commits 52c63e2, bea172a, 093867a, 3a37827, aa62967 -/
def repaired : Variant := { ctxThroughDrop := true, hangMinusGuard := true, hangLhsExp := true, hangRhsOperand := true }

end StyluaModel.ParenRule
