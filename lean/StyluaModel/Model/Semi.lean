import StyluaModel.Model.Trivia
/-
Model of what format_block does with the trivia around a statement's semicolon
(/repo/src/formatters/block.rs 543-575 for statements, 596-627 for the last statement):

  * the semicolon is required (check_stmt_requires_semicolon): the statement's trailing trivia is taken off
    (`get_stmt_trailing_trivia`) and appended to the semicolon, which is the formatted original (`fmt_symbol!`:
    its own leading / trailing trivia go through load_token_trivia) or a fresh `;`;
  * it is not required but was written: the *comments* of its leading and trailing trivia are appended - as they
    are, each behind one space - to the statement's trailing trivia in front of its last element ("the newline");
  * neither: nothing happens.

`T` is the trailing trivia of the formatted statement (built by the statement formatters; a parameter here).
-/
namespace StyluaModel.Semi
open StyluaModel.Trivia

/-- raw comments of a trivia list, as output tokens (`x.to_owned()`: not passed through format_token) -/
def rawComments : List Triv → List Out
  | [] => []
  | .ws _ :: r => rawComments r
  | .comment k t :: r => .comment k t :: rawComments r

/-- `.rev().skip(1).rev()` -/
def dropLast (l : List Out) : List Out := l.take (l.length - 1)

/-- what is printed after the statement's last token: the trivia and, where there is one, the semicolon
(`none` marks the place of the `;` token) -/
def fmtSemi (eol : List Char) (required : Bool) (written : Bool) (T : List Out) (sl st : List Triv) :
    List (Option Out) :=
  if required then
    (if written then (load eol .leading sl).map some ++ [none] ++ (load eol .trailing st).map some
     else [none]) ++ T.map some
  else if written then
    (dropLast T ++ (rawComments (sl ++ st)).flatMap (fun c => [Out.space, c]) ++ [Out.newline]).map some
  else T.map some

def outs (l : List (Option Out)) : List Out := l.filterMap id

/-- every line comment is the last thing on its line: directly followed by a newline -/
def lineSafe : List Out → Bool
  | [] => true
  | [.comment .line _] => false
  | .comment .line _ :: .newline :: r => lineSafe (.newline :: r)
  | .comment .line _ :: _ :: _ => false
  | _ :: r => lineSafe r

end StyluaModel.Semi
