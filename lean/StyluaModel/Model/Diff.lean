/-
Model of `output_diff_json` (src/cli/output_diff.rs 122-206) over `similar`'s edit script, and
the specification of what "applying the JSON mismatches as line-range replacements" means.
Lines are opaque (`Nat` ids); a mismatch carries the removed and the inserted lines.
-/
namespace StyluaModel.Diff

/-- one operation of the edit script, in order, consuming the old and the new line list -/
inductive Op
  | equal (n : Nat)
  | delete (n : Nat)
  | insert (n : Nat)
  | replace (n m : Nat)
  deriving DecidableEq, Repr

structure Mismatch where
  originalStart : Nat
  originalEnd : Nat
  expectedStart : Nat
  expectedEnd : Nat
  original : List Nat
  expected : List Nat
  deriving DecidableEq, Repr

structure Variant where
  /-- Delete / Insert record every changed line (fix of D10), not only the first -/
  allLines : Bool
  deriving DecidableEq, Repr
def pinned : Variant := { allLines := false }
def repaired : Variant := { allLines := true }

def firstOr (v : Variant) (l : List Nat) : List Nat := if v.allLines then l else l.take 1

/-- output_diff_json: `oi` / `ni` are similar's old_index / new_index of the next operation -/
def mismatches (v : Variant) : (oi ni : Nat) → List Op → (old new : List Nat) → List Mismatch
  | _, _, [], _, _ => []
  | oi, ni, .equal n :: rest, old, new => mismatches v (oi + n) (ni + n) rest (old.drop n) (new.drop n)
  | oi, ni, .delete n :: rest, old, new =>
      { originalStart := oi, originalEnd := oi + n - 1, expectedStart := ni, expectedEnd := ni,
        original := firstOr v (old.take n), expected := [] }
        :: mismatches v (oi + n) ni rest (old.drop n) new
  | oi, ni, .insert n :: rest, old, new =>
      { originalStart := oi, originalEnd := oi, expectedStart := ni, expectedEnd := ni + n - 1,
        original := [], expected := firstOr v (new.take n) }
        :: mismatches v oi (ni + n) rest old (new.drop n)
  | oi, ni, .replace n m :: rest, old, new =>
      { originalStart := oi, originalEnd := oi + n - 1, expectedStart := ni, expectedEnd := ni + m - 1,
        original := old.take n, expected := new.take m }
        :: mismatches v (oi + n) (ni + m) rest (old.drop n) (new.drop m)

/-- an operation together with the `old_index` / `new_index` fields `similar` gives it. After its
compaction pass these auxiliary fields can be stale: an insertion that was shifted across a run of
identical lines keeps the position it had before (`Delete { new_index }` and `Insert { old_index }`
in particular). `output_diff_json` copies them as they are. -/
structure IOp where
  op : Op
  oi : Nat
  ni : Nat
  deriving DecidableEq, Repr

/-- output_diff_json reading the indices off the operations -/
def mismatchesI (v : Variant) : List IOp → (old new : List Nat) → List Mismatch
  | [], _, _ => []
  | ⟨.equal n, _, _⟩ :: rest, old, new => mismatchesI v rest (old.drop n) (new.drop n)
  | ⟨.delete n, oi, ni⟩ :: rest, old, new =>
      { originalStart := oi, originalEnd := oi + n - 1, expectedStart := ni, expectedEnd := ni,
        original := firstOr v (old.take n), expected := [] }
        :: mismatchesI v rest (old.drop n) new
  | ⟨.insert n, oi, ni⟩ :: rest, old, new =>
      { originalStart := oi, originalEnd := oi, expectedStart := ni, expectedEnd := ni + n - 1,
        original := [], expected := firstOr v (new.take n) }
        :: mismatchesI v rest old (new.drop n)
  | ⟨.replace n m, oi, ni⟩ :: rest, old, new =>
      { originalStart := oi, originalEnd := oi + n - 1, expectedStart := ni, expectedEnd := ni + m - 1,
        original := old.take n, expected := new.take m }
        :: mismatchesI v rest (old.drop n) (new.drop m)

/-- the indices are the running positions (no stale field) -/
def InOrder : (oi ni : Nat) → List IOp → Bool
  | _, _, [] => true
  | oi, ni, x :: rest =>
      decide (x.oi = oi) && decide (x.ni = ni) &&
        (match x.op with
         | .equal n => InOrder (oi + n) (ni + n) rest
         | .delete n => InOrder (oi + n) ni rest
         | .insert n => InOrder oi (ni + n) rest
         | .replace n m => InOrder (oi + n) (ni + m) rest)

/-- the script is a script from `old` to `new`: it tiles both lists, equal runs agree,
non-equal operations are non-empty -/
def Valid : List Op → List Nat → List Nat → Bool
  | [], old, new => old.isEmpty && new.isEmpty
  | .equal n :: rest, old, new =>
      decide (n ≤ old.length) && decide (n ≤ new.length) && decide (old.take n = new.take n) &&
        Valid rest (old.drop n) (new.drop n)
  | .delete n :: rest, old, new => decide (1 ≤ n) && decide (n ≤ old.length) && Valid rest (old.drop n) new
  | .insert n :: rest, old, new => decide (1 ≤ n) && decide (n ≤ new.length) && Valid rest old (new.drop n)
  | .replace n m :: rest, old, new =>
      decide (1 ≤ n) && decide (1 ≤ m) && decide (n ≤ old.length) && decide (m ≤ new.length) &&
        Valid rest (old.drop n) (new.drop m)

/-- applying mismatches as line-range replacements, front to back: `cursor` is the index (in
the original file) of the first line of `old` not yet copied. A mismatch with an empty
`original` is a pure insertion in front of line `originalStart`. -/
def apply : (cursor : Nat) → (old : List Nat) → List Mismatch → List Nat
  | _, old, [] => old
  | cursor, old, m :: ms =>
      let keep := m.originalStart - cursor
      let removed := if m.original.isEmpty then 0 else m.originalEnd - m.originalStart + 1
      old.take keep ++ m.expected ++ apply (m.originalStart + removed) ((old.drop keep).drop removed) ms

end StyluaModel.Diff
