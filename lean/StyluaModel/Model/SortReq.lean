import StyluaModel.Model.Block
/-
Model of the require-sorting pre-pass, mirroring /repo/src/sort_requires.rs:
  get_expression_kind            (36-66)   -> the item's `kind`
  partition_nodes_into_groups    (81-152)  -> `partition`
  sort_requires                  (154-222) -> `sortRequires`
A top-level statement is abstracted to: its id, whether it is a single-name local whose
value is `require(...)` / `game:GetService(...)` (possibly type-asserted) and then its
NAME (as bytes), the line of the name token and the line the statement ends on, the
directive lines of its leading comments, whether it lies inside the formatting range, and
the id of its leading-trivia block (comments travel with it).
-/
namespace StyluaModel.SortReq
open StyluaModel.Block (Line toggle)

inductive GKind | require | getService
  deriving DecidableEq, Repr

structure Item where
  id : Nat
  kind : Option GKind
  key : List Nat          -- NAME, UTF-8 bytes (Rust `String` ordering is byte-lexicographic)
  nameLine : Nat
  endLine : Nat
  lines : List Line
  inRange : Bool
  deriving DecidableEq, Repr

inductive Part
  | group (k : GKind) (items : List Item)
  | other (items : List Item)
  deriving Repr

def Part.items : Part → List Item
  | .group _ is => is
  | .other is => is

/-- append one statement to the partition built so far (kept in reverse: head = last part,
each part's items in reverse too) -/
def step (parts : List Part) (it : Item) : List Part :=
  match it.kind with
  | some k =>
      (match parts with
       | .group k' (prev :: more) :: rest =>
           if k' = k ∧ ¬ (it.nameLine - prev.endLine > 1) then .group k' (it :: prev :: more) :: rest
           else .group k [it] :: parts
       | _ => .group k [it] :: parts)
  | none =>
      (match parts with
       | .other is :: rest => .other (it :: is) :: rest
       | _ => .other [it] :: parts)

def unrev : Part → Part
  | .group k is => .group k is.reverse
  | .other is => .other is.reverse

/-- partition_nodes_into_groups -/
def partition (items : List Item) : List Part :=
  ((items.foldl step []).map unrev).reverse

def keyLe (a b : Item) : Bool := decide (a.key ≤ b.key)

structure Variant where
  /-- `ignore start` / `ignore end` regions are tracked across the top-level statements (fix of D18) -/
  trackRegions : Bool
  deriving DecidableEq, Repr

def pinned : Variant := { trackRegions := false }
def repaired : Variant := { trackRegions := true }

/-- should_format_node(stmt) = Normal, as the sorter evaluates it -/
def isNormal (disabled : Bool) (it : Item) : Bool :=
  !disabled && !it.lines.contains .ignore && it.inRange

/-- the region flag after each item of a list, starting from `d` -/
def flagsAfter (d : Bool) : List Item → List Bool
  | [] => []
  | it :: rest => toggle d it.lines :: flagsAfter (toggle d it.lines) rest

def lastFlag (d : Bool) (is : List Item) : Bool := (flagsAfter d is).getLast?.getD d

/-- "if any of the block is ignored, then ignore the whole thing" -/
def allNormal (v : Variant) (d : Bool) (is : List Item) : Bool :=
  let flags := if v.trackRegions then flagsAfter d is else is.map fun _ => false
  (List.zip is flags).all (fun p => isNormal p.2 p.1)

/-- one part of sort_requires -/
def sortPart (v : Variant) (d : Bool) : Part → List Item
  | .other is => is
  | .group _ is => if allNormal v d is then is.mergeSort keyLe else is

def sortParts (v : Variant) : Bool → List Part → List Item
  | _, [] => []
  | d, p :: ps => sortPart v d p ++ sortParts v (lastFlag d p.items) ps

/-- sort_requires (the early return for "one Other part / nothing" is the identity) -/
def sortRequires (v : Variant) (enabled : Bool) (items : List Item) : List Item :=
  if enabled then sortParts v false (partition items) else items

end StyluaModel.SortReq
