/-
Model of the unified diff StyLua prints under `--check --output-format unified`
(src/cli/output_diff.rs `output_diff_unified` = `TextDiff::from_lines(old, new).unified_diff().header("old", "new")`,
i.e. the code of the `similar` crate 2.4.0: `common.rs group_diff_ops`, `udiff.rs UnifiedHunkHeader /
UnifiedDiffHunkRange / UnifiedDiffHunk::fmt / UnifiedDiff::fmt`), and the specification of what
"applying a unified diff" means (`applyU`: strict `patch` - every context and deleted line must match,
all four header numbers must be right, no fuzz).
The edit script itself (Myers + compaction inside `similar`) is a parameter: a list of indexed operations.
Lines are opaque (`Nat` ids) in the structured part; `render` produces the bytes from the line texts.
-/
import StyluaModel.Model.Diff
namespace StyluaModel.Unified
open StyluaModel.Diff

def oldLen : Op → Nat
  | .equal n => n
  | .delete n => n
  | .insert _ => 0
  | .replace n _ => n

def newLen : Op → Nat
  | .equal n => n
  | .delete _ => 0
  | .insert n => n
  | .replace _ m => m

/-! ## `group_diff_ops(ops, n)` (similar/src/common.rs 103-161) -/

/-- lines 111-121: a leading Equal keeps only its last `n` lines -/
def trimHead (n : Nat) : List IOp → List IOp
  | ⟨.equal len, oi, ni⟩ :: rest => ⟨.equal (len - (len - n)), oi + (len - n), ni + (len - n)⟩ :: rest
  | l => l

/-- lines 123-125: a trailing Equal keeps only its first `n` lines -/
def trimLast (n : Nat) : List IOp → List IOp
  | [] => []
  | [⟨.equal len, oi, ni⟩] => [⟨.equal (len - (len - n)), oi, ni⟩]
  | x :: y :: rest => x :: trimLast n (y :: rest)
  | [x] => [x]

/-- lines 127-158: the loop over the operations with its `pending_group`, and the final push -/
def groupLoop (n : Nat) : (pending : List IOp) → List IOp → List (List IOp)
  | pending, [] =>
      match pending with
      | [] => []
      | [⟨.equal _, _, _⟩] => []
      | _ => [pending]
  | pending, ⟨.equal len, oi, ni⟩ :: rest =>
      if len > n * 2 then
        (pending ++ [⟨.equal n, oi, ni⟩]) ::
          groupLoop n [⟨.equal (len - (len - n)), oi + (len - n), ni + (len - n)⟩] rest
      else groupLoop n (pending ++ [⟨.equal len, oi, ni⟩]) rest
  | pending, x :: rest => groupLoop n (pending ++ [x]) rest

def groupOps (n : Nat) (ops : List IOp) : List (List IOp) :=
  if ops.isEmpty then [] else groupLoop n [] (trimLast n (trimHead n ops))

/-! ## hunks (similar/src/udiff.rs) -/

inductive Tag
  | eq
  | del
  | ins
  deriving DecidableEq, Repr

structure Hunk where
  /-- `UnifiedHunkHeader::new`: old_range = first.old_range().start .. last.old_range().end, same for new -/
  oldStart : Nat
  oldEnd : Nat
  newStart : Nat
  newEnd : Nat
  lines : List (Tag × Nat)
  deriving DecidableEq, Repr

/-- `DiffOp::iter_changes`: Equal yields the old lines, Delete the old lines, Insert the new lines,
Replace all its deletions and then all its insertions; positions are the operation's own fields -/
def changes (old new : List Nat) : IOp → List (Tag × Nat)
  | ⟨.equal n, oi, _⟩ => ((old.drop oi).take n).map (Tag.eq, ·)
  | ⟨.delete n, oi, _⟩ => ((old.drop oi).take n).map (Tag.del, ·)
  | ⟨.insert n, _, ni⟩ => ((new.drop ni).take n).map (Tag.ins, ·)
  | ⟨.replace n m, oi, ni⟩ => ((old.drop oi).take n).map (Tag.del, ·) ++ ((new.drop ni).take m).map (Tag.ins, ·)

def lastD (l : List IOp) (d : IOp) : IOp := l.getLast?.getD d

def mkHunk (old new : List Nat) (g : List IOp) : Hunk :=
  let first := g.head?.getD ⟨.equal 0, 0, 0⟩
  let last := lastD g first
  { oldStart := first.oi, oldEnd := last.oi + oldLen last.op,
    newStart := first.ni, newEnd := last.ni + newLen last.op,
    lines := g.flatMap (changes old new) }

/-- `UnifiedDiff::iter_hunks` with the default context radius: the code as pinned (`text_diff.unified_diff()`),
which trusts the index fields `similar` left on the operations -/
def hunks (n : Nat) (ops : List IOp) (old new : List Nat) : List Hunk :=
  ((groupOps n ops).filter (fun g => !g.isEmpty)).map (mkHunk old new)

/-- `renumber_ops` (output_diff.rs, fix a2545ec): every operation gets the position the operations before it
lead to -/
def renumber : (oi ni : Nat) → List IOp → List IOp
  | _, _, [] => []
  | oi, ni, x :: rest => ⟨x.op, oi, ni⟩ :: renumber (oi + oldLen x.op) (ni + newLen x.op) rest

/-- `output_diff_unified` after the fix: renumber, group with radius 3, one `UnifiedDiffHunk` per non-empty group -/
def hunksFixed (n : Nat) (ops : List IOp) (old new : List Nat) : List Hunk :=
  hunks n (renumber 0 0 ops) old new

/-! ## what applying a unified diff means (the specification) -/

/-- one hunk body against the old lines in front of the cursor: context and deleted lines must be
there; returns the emitted lines and the old lines left -/
def applyLines : (old : List Nat) → List (Tag × Nat) → Option (List Nat × List Nat)
  | old, [] => some ([], old)
  | o :: old, (.eq, l) :: rest =>
      if o = l then (applyLines old rest).map fun (out, left) => (l :: out, left) else none
  | o :: old, (.del, l) :: rest =>
      if o = l then applyLines old rest else none
  | old, (.ins, l) :: rest => (applyLines old rest).map fun (out, left) => (l :: out, left)
  | [], (.eq, _) :: _ => none
  | [], (.del, _) :: _ => none

def countOld (ls : List (Tag × Nat)) : Nat := (ls.filter fun x => x.1 != Tag.ins).length
def countNew (ls : List (Tag × Nat)) : Nat := (ls.filter fun x => x.1 != Tag.del).length

/-- strict `patch`: `cursor` = index in the original file of the first line of `old` not yet consumed,
`outPos` = number of lines written so far. A hunk whose header disagrees with its body, which
starts before the cursor, whose new-file position is not where the output stands, or whose
context does not match, is rejected. -/
def applyU : (cursor outPos : Nat) → (old : List Nat) → List Hunk → Option (List Nat)
  | _, _, old, [] => some old
  | cursor, outPos, old, h :: hs =>
      let keep := h.oldStart - cursor
      if cursor ≤ h.oldStart ∧ keep ≤ old.length ∧ h.newStart = outPos + keep ∧
          h.oldEnd - h.oldStart = countOld h.lines ∧ h.newEnd - h.newStart = countNew h.lines ∧
          h.oldStart ≤ h.oldEnd ∧ h.newStart ≤ h.newEnd then
        match applyLines (old.drop keep) h.lines with
        | none => none
        | some (out, left) =>
            (applyU h.oldEnd h.newEnd left hs).map fun tail => old.take keep ++ out ++ tail
      else none

/-- `text_diff.ratio() == 1.0` with exact arithmetic: 2 * (equal lines) = |old| + |new|
(similar computes this quotient in `f32`; the rounding is not modelled) -/
def equalLines : List Op → Nat
  | [] => 0
  | .equal n :: rest => n + equalLines rest
  | _ :: rest => equalLines rest

def ratioIsOne (ops : List Op) (oldN newN : Nat) : Bool := decide (2 * equalLines ops = oldN + newN)

/-! ## rendering (udiff.rs `Display` impls), on line texts -/

/-- `UnifiedDiffHunkRange::fmt` -/
def showRange (s e : Nat) : String :=
  let len := e - s
  if len = 1 then toString (s + 1)
  else if len = 0 then toString s ++ ",0"
  else toString (s + 1) ++ "," ++ toString len

/-- numeric content of a printed range and its reading by `patch`: (beginning, length) -/
def encodeRange (s e : Nat) : Nat × Option Nat :=
  let len := e - s
  if len = 1 then (s + 1, none) else if len = 0 then (s, some 0) else (s + 1, some len)

/-- how a patch tool reads it back: a missing length is 1; with length 0 the number is the line
*before* the range, otherwise the first line (1-based) -/
def decodeRange : Nat × Option Nat → Nat × Nat
  | (b, none) => (b - 1, 1)
  | (b, some 0) => (b, 0)
  | (b, some l) => (b - 1, l)

def tagChar : Tag → String
  | .eq => " "
  | .del => "-"
  | .ins => "+"

/-- one change line: tag, the line's text (which carries its own terminator), and the
"no newline" marker when the text has no terminator (`from_lines` is newline-terminated mode) -/
def renderLine (text : Nat → String) (x : Tag × Nat) : String :=
  let t := text x.2
  tagChar x.1 ++ t ++ (if t.endsWith "\n" then "" else "\n\\ No newline at end of file\n")

def renderHunk (text : Nat → String) (h : Hunk) : String :=
  if h.lines.isEmpty then "" else
  "@@ -" ++ showRange h.oldStart h.oldEnd ++ " +" ++ showRange h.newStart h.newEnd ++ " @@\n" ++
    String.join (h.lines.map (renderLine text))

/-- `UnifiedDiff::fmt` with `.header("old", "new")`: the header is written in front of the first hunk -/
def render (text : Nat → String) (hs : List Hunk) : String :=
  match hs with
  | [] => ""
  | _ => "--- old\n+++ new\n" ++ String.join (hs.map (renderHunk text))

end StyluaModel.Unified
