/-
Small-step interleaving model of the exit-status protocol of src/cli/main.rs:
`EXIT_CODE` is a SeqCst atomic; the output thread's diff handler, the logger (on any thread)
and the final read are sequences of atomic operations (regenerated from the source into
Generated/ExitOps.lean). A thread is a list of operations with one thread-local register
(the value its last `load` returned).
-/
namespace StyluaModel.Sched

inductive Cmp | ne | eq
  deriving DecidableEq, Repr

inductive Op
  | load
  | store (v : Int)
  | storeIfLoaded (c : Cmp) (k : Int) (v : Int)   -- `if loaded <c> k { store v }`: uses the register, not the cell
  | fetchMax (v : Int)
  | other (name : String)
  deriving DecidableEq, Repr

structure Thread where
  ops : List Op
  reg : Int := 0
  deriving DecidableEq, Repr

/-- one atomic step of a thread on the shared cell -/
def stepOp (cell reg : Int) : Op → Int × Int
  | .load => (cell, cell)
  | .store v => (v, reg)
  | .storeIfLoaded c k v =>
      let cond := match c with | .ne => decide (reg ≠ k) | .eq => decide (reg = k)
      (if cond then v else cell, reg)
  | .fetchMax v => (max cell v, reg)
  | .other _ => (cell, reg)

/-- run a schedule: a list of thread indices saying whose next operation runs -/
def exec : (cell : Int) → List Thread → List Nat → Int
  | cell, _, [] => cell
  | cell, ts, i :: rest =>
      match ts[i]? with
      | some t =>
          (match t.ops with
           | [] => exec cell ts rest
           | op :: more =>
               let (cell', reg') := stepOp cell t.reg op
               exec cell' (ts.set i { ops := more, reg := reg' }) rest)
      | none => exec cell ts rest

/-- what the property asks of the exit status: 2 if any error was reported, else 1 if any
diff was reported, else 0 -/
def spec (errors diffs : Nat) : Int := if errors > 0 then 2 else if diffs > 0 then 1 else 0

end StyluaModel.Sched
