/-
Model of the single-line / multi-line decision for table constructors, mirroring
/repo/src/formatters/table.rs format_table_constructor (454-534). The decision is taken from the
*input's* byte positions (the code says why: formatting first would be exponential in the nesting
depth), which is what makes it a question for C06.
-/
namespace StyluaModel.Table

/-- what the decision looks at -/
structure TableIn where
  hasFields : Bool
  nlAfterOpen : Bool     -- a newline in the trailing trivia of `{`
  span : Nat             -- bytes from the end of `{` to the start of `}` in the input
  wsAfterOpen : Bool     -- whitespace right after `{`
  wsBeforeClose : Bool   -- whitespace right before `}`
  expand : Bool          -- should_expand: comments, nested multi-line functions, …
  deriving DecidableEq, Repr

inductive TableType | empty | single | multi
  deriving DecidableEq, Repr

/-- the spaces that will be added inside the braces -/
def additional (t : TableIn) : Nat :=
  match t.wsAfterOpen, t.wsBeforeClose with
  | true, true => 0
  | true, false => 1
  | false, true => 1
  | false, false => 2

/-- `col` = what the current line already holds (indent + text before `{`), `width` = column_width -/
def decide (width col : Nat) (t : TableIn) : TableType :=
  if !t.hasFields then (if t.expand then .multi else .empty)
  else if t.nlAfterOpen then .multi
  else if col + t.span + additional t + 1 > width then .multi
  else if t.expand then .multi
  else .single

/-- the table as the formatter prints it on one line: `{ ` content ` }` -/
def singleLineOutput (content : Nat) : TableIn :=
  { hasFields := true, nlAfterOpen := false, span := content + 2, wsAfterOpen := true, wsBeforeClose := true, expand := false }

/-- the table as the formatter prints it on several lines (the fields' own layout is not modelled) -/
def multiLineOutput (span : Nat) (expand : Bool) : TableIn :=
  { hasFields := true, nlAfterOpen := true, span := span, wsAfterOpen := true, wsBeforeClose := true, expand := expand }

end StyluaModel.Table
