/-
Model of stdin mode, mirroring src/cli/main.rs: format_string (176-205) and the stdin branch of
the walker loop (408-448).
-/
namespace StyluaModel.Stdin

structure Opts where
  check : Bool
  respectIgnores : Bool
  /-- `--stdin-filepath` names a path that `.styluaignore` excludes -/
  stdinPathIgnored : Bool
  deriving DecidableEq, Repr

inductive Out
  | text (bytes : List Nat)     -- written to stdout
  | diff                        -- a diff of input vs formatted text (check mode)
  | nothing
  deriving DecidableEq, Repr

structure Result where
  stdout : Out
  exit : Nat
  writes : List Nat   -- files written (always empty)
  deriving DecidableEq, Repr

/-- `fmt input = none` when the input does not parse, else the library's formatted text -/
def run (fmt : List Nat → Option (List Nat)) (o : Opts) (input : List Nat) : Result :=
  let skip := o.respectIgnores && o.stdinPathIgnored
  match (if skip then some input else fmt input) with
  | none => { stdout := .nothing, exit := 2, writes := [] }
  | some formatted =>
      if o.check then
        if formatted = input then { stdout := .nothing, exit := 0, writes := [] }
        else { stdout := .diff, exit := 1, writes := [] }
      else { stdout := .text formatted, exit := 0, writes := [] }

end StyluaModel.Stdin
