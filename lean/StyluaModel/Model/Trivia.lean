import StyluaModel.Model.StrLit
/-
Model of comment / whitespace trivia handling, mirroring /repo/src/formatters/general.rs:
  format_single_line_comment_string (79-82), format_token for Shebang / SingleLineComment /
  MultiLineComment (195-239), load_token_trivia (258-342); and context.rs
  create_newline_trivia / create_indent_trivia (the only constructors of line-ending and
  indentation whitespace).  Also the parenthesis transplant of format_expression_internal
  (expression.rs 255-283).
-/
namespace StyluaModel.Trivia
open StyluaModel.StrLit (rewriteLong)

inductive CKind | line | block (level : Nat) | shebang
  deriving DecidableEq, Repr

/-- input trivia token -/
inductive Triv
  | ws (hasNewline : Bool)
  | comment (k : CKind) (text : List Char)
  deriving DecidableEq, Repr

/-- output trivia token: whitespace is only ever *created* (newline = the configured line
ending, indent = the configured indentation, space = one blank), never copied -/
inductive Out
  | newline | indent | space
  | comment (k : CKind) (text : List Char)
  deriving DecidableEq, Repr

def isWs (c : Char) : Bool := c == ' ' || c == '\t' || c == '\n' || c == '\r' || c == '\x0b' || c == '\x0c'

/-- `str::trim_end` (ASCII whitespace; comments cannot end in other Unicode whitespace in the
generated inputs) -/
def trimEnd (s : List Char) : List Char := (s.reverse.dropWhile isWs).reverse

/-- text of a formatted comment -/
def fmtText (eol : List Char) : CKind → List Char → List Char
  | .line, t => trimEnd t
  | .shebang, t => trimEnd t
  | .block _, t => rewriteLong eol t

inductive Pos | leading | trailing
  deriving DecidableEq, Repr

/-- format_token for a comment, with the trivia it asks to be put around it -/
def fmtComment (eol : List Char) (p : Pos) (k : CKind) (t : List Char) : List Out :=
  let c := Out.comment k (fmtText eol k t)
  match k, p with
  | .shebang, _ => [c, .newline]
  | .line, .leading => [.indent, c, .newline]
  | .line, .trailing => [.space, c]
  | .block _, .leading => [.indent, c, .newline]
  | .block _, .trailing => [c]

def nextIsBlock : List Triv → Bool
  | .comment (.block _) _ :: _ => true
  | _ => false

/-- load_token_trivia. `nl` = newline_count_in_succession; `skip` = the previous token was a
comment in leading position, whose terminating newline (if it is the very next token) is
consumed without being counted -/
def loadAux (eol : List Char) (p : Pos) : (nl : Nat) → (skip : Bool) → List Triv → List Out
  | _, _, [] => []
  | nl, skip, .ws hasNl :: rest =>
      (match p with
       | .leading =>
           if skip && hasNl then loadAux eol p 0 false rest
           else if hasNl then (if nl = 0 then [.newline] else []) ++ loadAux eol p (nl + 1) false rest
           else loadAux eol p nl false rest
       | .trailing => (if nextIsBlock rest && !hasNl then [.space] else []) ++ loadAux eol p nl false rest)
  | _, _, .comment k t :: rest =>
      fmtComment eol p k t ++ loadAux eol p 0 (decide (p = .leading)) rest

def load (eol : List Char) (p : Pos) (t : List Triv) : List Out := loadAux eol p 0 false t

def commentsIn : List Triv → List (CKind × List Char)
  | [] => []
  | .ws _ :: r => commentsIn r
  | .comment k t :: r => (k, t) :: commentsIn r

def commentsOut : List Out → List (CKind × List Char)
  | [] => []
  | .comment k t :: r => (k, t) :: commentsOut r
  | _ :: r => commentsOut r

/-! ### parenthesis removal: which comment slots are carried over -/

structure ParenSlots where
  openLead : List (CKind × List Char)
  openTrail : List (CKind × List Char)
  closeLead : List (CKind × List Char)
  closeTrail : List (CKind × List Char)
  inner : List (CKind × List Char)
  deriving Repr

/-- excess-parenthesis removal (expression.rs 255-283): comments in front of `(` and behind
`)` are re-attached to the inner expression; those directly after `(` and directly before
`)` are not looked at -/
def dropParens (s : ParenSlots) : List (CKind × List Char) := s.openLead ++ s.inner ++ s.closeTrail

def allComments (s : ParenSlots) : List (CKind × List Char) :=
  s.openLead ++ s.openTrail ++ s.inner ++ s.closeLead ++ s.closeTrail

end StyluaModel.Trivia
