/-
Specification of what a Lua string / number literal *denotes*, independent of StyLua.

* `decode51`: Lua 5.1 (llex.c read_string): `\a \b \f \n \r \t \v`, `\ddd` (≤ 3 decimal
  digits), `\<newline>`, any other `\c` = `c`.
* `decode52`: Lua 5.2+/Luau/LuaJIT: additionally `\xXX`, `\z`, `\u{XXX}`; an unknown escape
  or a raw newline is an error (`none`).
* `lexOK`: what full_moon's `read_string` (tokenizer/lexer.rs:1112-1200) accepts as the
  body of a quoted string delimited by `q` (mirrors its `(escape, z_escaped)` loop).
Values are byte lists (`List Nat`, each < 256 when the literal is valid).
-/
namespace StyluaModel.StrVal

def utf8 (c : Char) : List Nat := (String.utf8EncodeChar c).map (·.toNat)

def escVal (c : Char) : Nat :=
  if c == 'n' then 10 else if c == 't' then 9 else if c == 'a' then 7 else if c == 'b' then 8
  else if c == 'f' then 12 else if c == 'r' then 13 else if c == 'v' then 11 else 0

def isSimpleEsc (c : Char) : Bool :=
  c == 'n' || c == 't' || c == 'a' || c == 'b' || c == 'f' || c == 'r' || c == 'v'

def dval (c : Char) : Nat := c.toNat - 48

/-- value of `\c` in Lua 5.1 for a non-digit `c` -/
def esc51 (c : Char) : List Nat := if isSimpleEsc c then [escVal c] else utf8 c

inductive DS | norm | esc | dig (n acc : Nat)

/-- Lua 5.1 decoding as a state machine -/
def drun : DS → List Char → List Nat
  | .norm, [] => []
  | .esc, [] => []            -- dangling backslash: excluded by `lexOK`
  | .dig _ acc, [] => [acc]
  | .norm, c :: cs => if c == '\\' then drun .esc cs else utf8 c ++ drun .norm cs
  | .esc, c :: cs => if c.isDigit then drun (.dig 1 (dval c)) cs else esc51 c ++ drun .norm cs
  | .dig n acc, c :: cs =>
      if c.isDigit && n < 3 then drun (.dig (n+1) (acc * 10 + dval c)) cs
      else acc :: (if c == '\\' then drun .esc cs else utf8 c ++ drun .norm cs)

def decode51 (b : List Char) : List Nat := drun .norm b

/-! ### Lua 5.2+ -/

def hexVal (c : Char) : Option Nat :=
  if c.isDigit then some (c.toNat - 48)
  else if 'a'.toNat ≤ c.toNat ∧ c.toNat ≤ 'f'.toNat then some (c.toNat - 87)
  else if 'A'.toNat ≤ c.toNat ∧ c.toNat ≤ 'F'.toNat then some (c.toNat - 55)
  else none

def isSpace52 (c : Char) : Bool :=
  c == ' ' || c == '\n' || c == '\r' || c == '\t' || c == '\x0b' || c == '\x0c'

/-- UTF-8 encoding of a code point given as a number (Lua 5.3 `utf8esc`, up to 2^31) is
abstracted as one opaque unit tagged with the code point; only equality matters. -/
def uVal (n : Nat) : List Nat := [1000000 + n]

inductive D2
  | norm | esc | dig (n acc : Nat) | hex1 | hex2 (hi : Nat) | zskip | u0 | uhex (any : Bool) (acc : Nat)

def cons? (xs : List Nat) : Option (List Nat) → Option (List Nat)
  | some ys => some (xs ++ ys)
  | none => none

/-- Lua 5.2+ decoding; `none` = not a valid literal of real Lua 5.2+ -/
def drun2 : D2 → List Char → Option (List Nat)
  | .norm, [] => some []
  | .zskip, [] => some []
  | .dig _ acc, [] => some [acc]
  | _, [] => none
  | .norm, c :: cs =>
      if c == '\\' then drun2 .esc cs
      else if c == '\n' || c == '\r' then none
      else cons? (utf8 c) (drun2 .norm cs)
  | .zskip, c :: cs =>
      if isSpace52 c then drun2 .zskip cs
      else if c == '\\' then drun2 .esc cs
      else cons? (utf8 c) (drun2 .norm cs)
  | .esc, c :: cs =>
      if c.isDigit then drun2 (.dig 1 (dval c)) cs
      else if isSimpleEsc c then cons? [escVal c] (drun2 .norm cs)
      else if c == '\\' || c == '"' || c == '\'' then cons? (utf8 c) (drun2 .norm cs)
      else if c == '\n' || c == '\r' then cons? [10] (drun2 .norm cs)
      else if c == 'x' then drun2 .hex1 cs
      else if c == 'z' then drun2 .zskip cs
      else if c == 'u' then drun2 .u0 cs
      else none
  | .dig n acc, c :: cs =>
      if c.isDigit && n < 3 then drun2 (.dig (n+1) (acc * 10 + dval c)) cs
      else cons? [acc] (
        if c == '\\' then drun2 .esc cs
        else if c == '\n' || c == '\r' then none
        else cons? (utf8 c) (drun2 .norm cs))
  | .hex1, c :: cs => match hexVal c with
      | some h => drun2 (.hex2 h) cs
      | none => none
  | .hex2 hi, c :: cs => match hexVal c with
      | some l => cons? [hi * 16 + l] (drun2 .norm cs)
      | none => none
  | .u0, c :: cs => if c == '{' then drun2 (.uhex false 0) cs else none
  | .uhex any acc, c :: cs =>
      if c == '}' then (if any then cons? (uVal acc) (drun2 .norm cs) else none)
      else match hexVal c with
        | some h => drun2 (.uhex true (acc * 16 + h)) cs
        | none => none

def decode52 (b : List Char) : Option (List Nat) := drun2 .norm b

/-! ### full_moon's acceptance of a quoted string body -/

/-- mirrors the loop of `read_string`: `v52` = has_lua52 ∨ has_luau, `zf` = that or luajit.
Returns true iff the body is consumed completely without the token ending early, and
the closing quote that follows is then taken as the terminator. -/
def lexRun (v52 zf : Bool) (q : Char) : (esc z : Bool) → List Char → Bool
  | esc, _, [] => !esc
  | true, z, c :: cs =>
      if c == 'z' && zf then lexRun v52 zf q false true cs
      else lexRun v52 zf q false (if v52 then true else z) cs
  | false, z, c :: cs =>
      if c == '\\' then lexRun v52 zf q true z cs
      else if c == '\n' || c == '\r' then (if z then lexRun v52 zf q false false cs else false)
      else if c == q then false
      else lexRun v52 zf q false z cs

def lexOK (v52 zf : Bool) (q : Char) (b : List Char) : Bool := lexRun v52 zf q false false b

/-! ### long brackets -/

/-- value of a long-bracket body: a first newline sequence is skipped, every newline
sequence (`\n`, `\r`, `\r\n`, `\n\r`) denotes `\n`. -/
def normNl : List Char → List Nat
  | [] => []
  | '\r' :: '\n' :: rest => 10 :: normNl rest
  | '\n' :: '\r' :: rest => 10 :: normNl rest
  | c :: rest => (if c == '\r' || c == '\n' then [10] else utf8 c) ++ normNl rest

def dropFirstNl : List Nat → List Nat
  | 10 :: rest => rest
  | l => l

def decodeLong (b : List Char) : List Nat := dropFirstNl (normNl b)

end StyluaModel.StrVal
