import StyluaModel.Model.Expr
/-
Specification side of the parenthesis properties (C05, C02-expr, C01-expr), independent
of StyLua:

* `sem`      — what an expression tree *means*: parentheses are forgotten except where they
               truncate a multi-value expression (`(f())`, `(...)`).
* `Faithful` — the tree is exactly the tree the parser builds from its own printed form, i.e.
               every operand the precedence-climbing parser (full_moon `parsers.rs`
               parse_expression_with_precedence / parse_unary_expression / the `::` postfix
               of parse_primary_expression) would not produce bare is parenthesised, and a
               unary minus never directly contains a unary minus (`--` is a comment).
  `faithful` is validated against full_moon on every run (exhaustive small-scope round trip).
-/
namespace StyluaModel.Prec
open StyluaModel Expr

inductive Sem
  | atom (n : Nat) | call (n : Nat) | varargs | trunc (s : Sem)
  | un (op : UnOp) (s : Sem) | bin (op : BinOp) (l r : Sem) | assert (s : Sem) | ifx (n : Nat)
  deriving DecidableEq, Repr

def truncate : Sem → Sem
  | .call n => .trunc (.call n)
  | .varargs => .trunc .varargs
  | s => s

def sem : Expr → Sem
  | atom n => .atom n
  | call n => .call n
  | varargs => .varargs
  | paren e => truncate (sem e)
  | un op e => .un op (sem e)
  | bin op l r => .bin op (sem l) (sem r)
  | assert e => .assert (sem e)
  | ifx n => .ifx n

/-- the expression's last token sequence is open-ended: an `if … else e` swallows any
operator that follows it -/
def rightOpen : Expr → Bool
  | ifx _ => true
  | un _ e => rightOpen e
  | bin _ _ r => rightOpen r
  | _ => false

/-- the expression's last tokens are a Luau type (`… :: T`): a following `<` would be read
as the start of the type's generic arguments -/
def endsWithType : Expr → Bool
  | assert _ => true
  | un _ e => endsWithType e
  | bin _ _ r => endsWithType r
  | _ => false

/-- syntactic position of a sub-expression -/
inductive Pos
  | top                      -- delimited on both sides (statement level, inside parentheses, …)
  | unOperand (op : UnOp)
  | binL (op : BinOp)
  | binR (op : BinOp)
  | assertOperand
  deriving DecidableEq, Repr

/-- may `c` stand bare (without parentheses) at position `p` and be re-parsed as itself?
(the lexical `- -` clause is separate: `minusClash`) -/
def okAt : Pos → Expr → Bool
  | .top, _ => true
  | .unOperand _, bin op2 _ _ => decide (op2.prec > unPrec)
  | .unOperand _, _ => true
  | .binL op, c =>
      !rightOpen c && !(op == .lt && endsWithType c) &&
      (match c with
       | bin opl _ _ => if op.rassoc then decide (opl.prec > op.prec) else decide (opl.prec ≥ op.prec)
       | un _ _ => decide (op.prec ≤ unPrec)
       | _ => true)
  | .binR op, bin opr _ _ => if op.rassoc then decide (opr.prec ≥ op.prec) else decide (opr.prec > op.prec)
  | .binR _, _ => true
  | .assertOperand, atom _ => true
  | .assertOperand, call _ => true
  | .assertOperand, varargs => true
  | .assertOperand, paren _ => true
  | .assertOperand, _ => false

def isUnMinus : Expr → Bool
  | un .minus _ => true
  | _ => false

/-- `-` directly applied to a `-…` expression prints as `--`, a comment -/
def minusClash (op : UnOp) (c : Expr) : Bool := op == .minus && isUnMinus c

def faithful : Expr → Bool
  | atom _ => true
  | call _ => true
  | varargs => true
  | paren e => faithful e
  | un op e => okAt (.unOperand op) e && !minusClash op e && faithful e
  | bin op l r => okAt (.binL op) l && okAt (.binR op) r && faithful l && faithful r
  | assert e => okAt .assertOperand e && faithful e
  | ifx _ => true

end StyluaModel.Prec
