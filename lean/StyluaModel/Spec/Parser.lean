import StyluaModel.Model.Expr
/-
A token-level mirror of full_moon's expression parser (full_moon-1.2.0 src/ast/parsers.rs:
parse_primary_expression 1644-1798 incl. the `::` suffix, parse_unary_expression 1871-1928,
parse_expression_with_precedence 1801-1869), over the abstract expression alphabet of
`Model/Expr.lean`.  Atoms, calls, `...`, if-expressions and types are single opaque tokens.
The four mutually recursive routines are one fuel-indexed function over a `Task`.

This is what "the printed expression is read back as the same tree" means in the theorems of
C01 / C02 / C05: `Spec.Prec.faithful` is *proved* sufficient for the round trip through this
parser (Lemmas/Parser.lean), and the parser itself is compared with full_moon on every run
(protocol `parse`).
-/
namespace StyluaModel.Parser
open StyluaModel Expr

inductive Tok
  | a (n : Nat)          -- opaque atom
  | c (n : Nat)          -- opaque call
  | va                   -- `...`
  | ifx (n : Nat)        -- `if c then t else e` with opaque parts (open on the right)
  | lp | rp
  | u (op : UnOp)
  | b (op : BinOp)
  | as                   -- `:: T` with an opaque type
  deriving DecidableEq, Repr

/-- the printer: no parentheses are invented -/
def print : Expr → List Tok
  | atom n => [.a n]
  | call n => [.c n]
  | varargs => [.va]
  | ifx n => [.ifx n]
  | paren e => .lp :: (print e ++ [.rp])
  | un op e => .u op :: print e
  | bin op l r => print l ++ .b op :: print r
  | assert e => print e ++ [.as]

inductive Task
  | primary
  | exprAt (p : Nat)                 -- parse_primary_expression, then the precedence loop
  | climb (lhs : Expr) (p : Nat)     -- parse_expression_with_precedence(lhs, p)
  | rhs (r : Expr) (op : BinOp)      -- its inner `while` extending the right operand

/-- the `::` check at the end of parse_primary_expression; a `<` directly after the type is
read as the type's generic arguments, so the expression is not what was printed -/
def suffix (e : Expr) : List Tok → Option (Expr × List Tok)
  | .as :: .b .lt :: _ => none
  | .as :: ts => some (.assert e, ts)
  | ts => some (e, ts)

def run : Nat → Task → List Tok → Option (Expr × List Tok)
  | 0, _, _ => none
  | f+1, .primary, ts =>
      match ts with
      | .a n :: ts => suffix (.atom n) ts
      | .c n :: ts => suffix (.call n) ts
      | .va :: ts => suffix .varargs ts
      | .ifx n :: ts =>
          -- the else-branch is a full expression: whatever operator follows belongs to it
          match ts with
          | .b _ :: _ => none
          | .as :: _ => none
          | _ => some (.ifx n, ts)
      | .lp :: ts =>
          match run f (.exprAt 0) ts with
          | some (e, .rp :: ts') => suffix (.paren e) ts'
          | _ => none
      | .u op :: ts =>
          match run f (.exprAt unPrec) ts with
          | some (e, ts') => suffix (.un op e) ts'
          | none => none
      | _ => none
  | f+1, .exprAt p, ts =>
      match run f .primary ts with
      | some (h, ts') => run f (.climb h p) ts'
      | none => none
  | f+1, .climb l p, ts =>
      match ts with
      | .b op :: ts' =>
          if op.prec < p then some (l, ts) else
          match run f .primary ts' with
          | none => none
          | some (h, ts'') =>
            match run f (.rhs h op) ts'' with
            | none => none
            | some (r, ts3) => run f (.climb (.bin op l r) p) ts3
      | _ => some (l, ts)
  | f+1, .rhs r op, ts =>
      match ts with
      | .b o2 :: _ =>
          if o2.prec > op.prec then
            match run f (.climb r (op.prec + 1)) ts with
            | some (r', ts') => run f (.rhs r' op) ts'
            | none => none
          else if o2.rassoc && o2.prec == op.prec then
            match run f (.climb r op.prec) ts with
            | some (r', ts') => run f (.rhs r' op) ts'
            | none => none
          else some (r, ts)
      | _ => some (r, ts)

/-- parse a complete expression -/
def parse (fuel : Nat) (ts : List Tok) : Option Expr :=
  match run fuel (.exprAt 0) ts with
  | some (e, []) => some e
  | _ => none

end StyluaModel.Parser
