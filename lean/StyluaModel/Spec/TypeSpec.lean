import StyluaModel.Model.TypeParen
/-
What the type-parenthesis property means, independently of StyLua (C02 / C01 for Luau types):
* `sem`  - the type a tree denotes: parentheses forgotten (except directly as a generic argument,
           where `(T)` is a one-element type pack), unions of unions and intersections of
           intersections flattened (`|` and `&` are associative).
* `wf`   - the tree can be printed without inventing parentheses and be read back with the same
           meaning by full_moon's type parser (parsers.rs parse_type / parse_type_suffix 2296-2650):
           a type is `simple ('?')*` joined by `|` only or by `&` only; a function type extends as
           far to the right as it can.  The predicate is conservative (it may demand parentheses
           that the parser would not need) and is validated on every run against full_moon.
-/
namespace StyluaModel.TypeSpec
open StyluaModel.TypeParen

def flatU : List Ty → List Ty
  | [] => []
  | .union us :: ts => us ++ flatU ts
  | t :: ts => t :: flatU ts

def flatI : List Ty → List Ty
  | [] => []
  | .inter us :: ts => us ++ flatI ts
  | t :: ts => t :: flatI ts

/-- a generic argument written `(T)` is a one-element type pack: its own parenthesis is meaning -/
def reparen (t s : Ty) : Ty :=
  match t with
  | .paren _ => .paren s
  | _ => s

mutual
def sem : Ty → Ty
  | .basic n => .basic n
  | .opt t => .opt (sem t)
  | .union ts => .union (flatU (semL ts))
  | .inter ts => .inter (flatI (semL ts))
  | .fn args ret => .fn (semL args) (sem ret)
  | .paren t => sem t
  | .pack ts => .pack (semL ts)
  | .variadic t => .variadic (sem t)
  | .generic n ts => .generic n (semG ts)
  | .tbl ts => .tbl (semL ts)
  | .indexer k w => .indexer (sem k) (sem w)
def semL : List Ty → List Ty
  | [] => []
  | t :: ts => sem t :: semL ts
/-- generic arguments: an outer parenthesis is a type pack and stays -/
def semG : List Ty → List Ty
  | [] => []
  | t :: ts => reparen t (sem t) :: semG ts
end

/-- syntactic position of a type -/
inductive Pos
  | top          -- delimited: after `:` / `=` / `->`, inside parentheses, a field value, an indexer key, …
  | optBase      -- `_?`
  | uMember      -- member of `_ | _`
  | iMember      -- member of `_ & _`
  | varOperand   -- `..._`
  | genArg       -- `Name<_>`
  deriving DecidableEq, Repr

/-- may the tree stand bare at the position? (only the head constructor matters) -/
def okAt : Pos → Ty → Bool
  | .top, _ => true
  | .genArg, _ => true
  | _, .basic _ => true
  | _, .paren _ => true
  | _, .pack _ => true
  | _, .generic _ _ => true
  | _, .tbl _ => true
  | _, .variadic _ => true
  | _, .indexer _ _ => true
  | .optBase, .opt _ => true
  | .uMember, .opt _ => true
  | .uMember, .union _ => true
  | .iMember, .inter _ => true
  | _, _ => false

/-- what may stand directly inside a plain parenthesis -/
def parenable : Ty → Bool
  | .variadic _ => false
  | .indexer _ _ => false
  | _ => true

mutual
def wf : Pos → Ty → Bool
  | p, .basic n => okAt p (.basic n)
  | p, .opt t => okAt p (.opt t) && wf .optBase t
  | p, .union ts => okAt p (.union ts) && wfL .uMember ts
  | p, .inter ts => okAt p (.inter ts) && wfL .iMember ts
  | p, .fn args ret => okAt p (.fn args ret) && wfL .top args && wf .top ret
  | _, .paren t => parenable t && wf .top t
  | _, .pack ts => wfL .top ts
  | _, .variadic t => wf .varOperand t
  | _, .generic _ ts => wfL .genArg ts
  | _, .tbl ts => wfL .top ts
  | _, .indexer k w => wf .top k && wf .top w
def wfL : Pos → List Ty → Bool
  | _, [] => true
  | p, t :: ts => wf p t && wfL p ts
end

/-- the context's flags record at least what the position demands (flags accumulate downwards) -/
def covers (c : Ctx) : Pos → Bool
  | .top => true
  | .optBase => c.wo && c.cu
  | .uMember => c.cu
  | .iMember => c.ci
  | .varOperand => c.wv
  | .genArg => c.wg

end StyluaModel.TypeSpec
