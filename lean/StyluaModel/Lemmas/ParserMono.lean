/- More fuel never changes an answer of the parser mirror. -/
import StyluaModel.Lemmas.Parser
namespace StyluaModel.ParserLemmas
open StyluaModel StyluaModel.Parser Expr

theorem run_mono (f : Nat) : ∀ t ts r, run f t ts = some r → run (f + 1) t ts = some r := by
  induction f with
  | zero => intro t ts r h; simp [run] at h
  | succ f ih =>
    intro t ts r h
    cases t with
    | primary =>
      cases ts with
      | nil => simp [run] at h
      | cons tk ts =>
        cases tk
        case lp =>
          simp only [run] at h
          cases hsub : run f (.exprAt 0) ts with
          | none => simp [hsub] at h
          | some res =>
            have := ih _ _ _ hsub
            simp only [run] at this ⊢
            simp only [hsub] at h
            simp only [this]
            exact h
        case u op =>
          simp only [run] at h
          cases hsub : run f (.exprAt unPrec) ts with
          | none => simp [hsub] at h
          | some res =>
            have := ih _ _ _ hsub
            simp only [run] at this ⊢
            simp only [hsub] at h
            simp only [this]
            exact h
        all_goals (simp only [run] at h ⊢; exact h)
    | exprAt p =>
      simp only [run] at h
      cases hsub : run f .primary ts with
      | none => simp [hsub] at h
      | some res =>
        obtain ⟨hd, ts'⟩ := res
        simp only [hsub] at h
        have h1 := ih _ _ _ hsub
        have h2 := ih _ _ _ h
        rw [show run (f + 1 + 1) (.exprAt p) ts = (match run (f + 1) .primary ts with
              | some (h, ts') => run (f + 1) (.climb h p) ts' | none => none) from rfl]
        rw [h1]; exact h2
    | climb l p =>
      cases ts with
      | nil => simp only [run] at h ⊢; exact h
      | cons tk ts =>
        cases tk
        case b op =>
          rw [show run (f + 1) (.climb l p) (.b op :: ts) = (if op.prec < p then some (l, .b op :: ts) else
              match run f .primary ts with
              | none => none
              | some (h, ts'') =>
                match run f (.rhs h op) ts'' with
                | none => none
                | some (r, ts3) => run f (.climb (.bin op l r) p) ts3) from rfl] at h
          rw [show run (f + 1 + 1) (.climb l p) (.b op :: ts) = (if op.prec < p then some (l, .b op :: ts) else
              match run (f + 1) .primary ts with
              | none => none
              | some (h, ts'') =>
                match run (f + 1) (.rhs h op) ts'' with
                | none => none
                | some (r, ts3) => run (f + 1) (.climb (.bin op l r) p) ts3) from rfl]
          by_cases hp : op.prec < p
          · simp only [hp, if_true] at h ⊢; exact h
          · simp only [hp, if_false] at h ⊢
            cases h1 : run f .primary ts with
            | none => simp [h1] at h
            | some res1 =>
              obtain ⟨hd, ts2⟩ := res1
              simp only [h1] at h
              cases h2 : run f (.rhs hd op) ts2 with
              | none => simp [h2] at h
              | some res2 =>
                obtain ⟨r', ts3⟩ := res2
                simp only [h2] at h
                rw [ih _ _ _ h1]; simp only []
                rw [ih _ _ _ h2]; simp only []
                exact ih _ _ _ h
        all_goals (simp only [run] at h ⊢; exact h)
    | rhs r0 op =>
      cases ts with
      | nil => simp only [run] at h ⊢; exact h
      | cons tk ts =>
        cases tk
        case b o2 =>
          rw [show run (f + 1) (.rhs r0 op) (.b o2 :: ts) = (if o2.prec > op.prec then
              match run f (.climb r0 (op.prec + 1)) (.b o2 :: ts) with
              | some (r', ts') => run f (.rhs r' op) ts' | none => none
            else if (o2.rassoc && o2.prec == op.prec) = true then
              match run f (.climb r0 op.prec) (.b o2 :: ts) with
              | some (r', ts') => run f (.rhs r' op) ts' | none => none
            else some (r0, .b o2 :: ts)) from rfl] at h
          rw [show run (f + 1 + 1) (.rhs r0 op) (.b o2 :: ts) = (if o2.prec > op.prec then
              match run (f + 1) (.climb r0 (op.prec + 1)) (.b o2 :: ts) with
              | some (r', ts') => run (f + 1) (.rhs r' op) ts' | none => none
            else if (o2.rassoc && o2.prec == op.prec) = true then
              match run (f + 1) (.climb r0 op.prec) (.b o2 :: ts) with
              | some (r', ts') => run (f + 1) (.rhs r' op) ts' | none => none
            else some (r0, .b o2 :: ts)) from rfl]
          by_cases hp : o2.prec > op.prec
          · simp only [hp, if_true] at h ⊢
            cases h1 : run f (.climb r0 (op.prec + 1)) (.b o2 :: ts) with
            | none => simp [h1] at h
            | some res1 =>
              obtain ⟨r', ts'⟩ := res1
              simp only [h1] at h
              rw [ih _ _ _ h1]; simp only []
              exact ih _ _ _ h
          · simp only [hp, if_false] at h ⊢
            by_cases hq : (o2.rassoc && o2.prec == op.prec) = true
            · simp only [hq, if_true] at h ⊢
              cases h1 : run f (.climb r0 op.prec) (.b o2 :: ts) with
              | none => simp [h1] at h
              | some res1 =>
                obtain ⟨r', ts'⟩ := res1
                simp only [h1] at h
                rw [ih _ _ _ h1]; simp only []
                exact ih _ _ _ h
            · simp only [hq] at h ⊢; exact h
        all_goals (simp only [run] at h ⊢; exact h)

theorem run_mono_le {f g : Nat} (hfg : f ≤ g) {t : Task} {ts : List Tok} {r : Expr × List Tok}
    (h : run f t ts = some r) : run g t ts = some r := by
  induction hfg with
  | refl => exact h
  | step _ ih => exact run_mono _ _ _ _ ih

/-- whenever the executable parser answers on the printed form of a faithful tree - with any
fuel at all - the answer is that tree -/
theorem parse_print_any_fuel (e e' : Expr) (hf : Prec.faithful e = true) (f : Nat)
    (h : parse f (print e) = some e') : e' = e := by
  obtain ⟨n, hn⟩ := roundtrip e (rt_of_faithful e hf)
  have hbig := hn (max n f) (by omega)
  unfold parse at h
  split at h
  · rename_i e0 heq
    have := run_mono_le (Nat.le_max_right n f) heq
    rw [hbig] at this
    injection this with this
    injection this with h1 _
    injection h with h
    rw [← h, ← h1]
  · cases h

end StyluaModel.ParserLemmas
