/- The single-line parenthesis rule is idempotent on every tree without a `- -` pair
(helper lemmas for Props/C06.lean). -/
import StyluaModel.Lemmas.Paren
namespace StyluaModel.ParenIdem
open StyluaModel StyluaModel.ParenRule StyluaModel.ParenLemmas Expr

/-- no unary minus applied directly to a unary minus (the source spelling `- -x`) -/
def noMM : Expr → Bool
  | paren e => noMM e
  | un op e => !(op == .minus && ParenRule.isUnMinus e) && noMM e
  | bin _ l r => noMM l && noMM r
  | .assert e => noMM e
  | _ => true

abbrev F (ctx : Ctx) (e : Expr) : Expr := fmtS repaired ctx e

theorem F_bin (ctx : Ctx) (op : BinOp) (l r : Expr) :
    F ctx (bin op l r) = bin op (F (lhsCtx op) l) (F .unOrBin r) := by simp [F, fmtS]
theorem F_assert (ctx : Ctx) (e : Expr) : F ctx (.assert e) = .assert (F .tassert e) := by simp [F, fmtS]

/-- the shape of the formatted operand when the `- -` guard fires -/
theorem guard_shape (e : Expr) (h : needsMinusGuard e = true) :
    (∃ y, e = un .minus y) ∨ (∃ y, e = paren (un .minus y)) := by
  cases e with
  | un op y => cases op <;> simp_all [needsMinusGuard]
  | paren x =>
    cases x with
    | un op y => cases op <;> simp_all [needsMinusGuard]
    | _ => simp [needsMinusGuard] at h
  | _ => simp [needsMinusGuard] at h

/-- Lemma B: in operand context a droppable expression stays droppable after formatting -/
theorem excess_stays (x : Expr) (h : checkExcess x .unOrBin = true) :
    checkExcess (F .unOrBin x) .unOrBin = true := by
  induction x with
  | atom n => simp [F, fmtS, checkExcess]
  | call n => simp [checkExcess] at h
  | varargs => simp [checkExcess] at h
  | ifx n => simp [checkExcess] at h
  | assert e _ => simp [checkExcess] at h
  | bin op l r _ _ => simp [checkExcess] at h
  | paren z ih =>
    show checkExcess (fmtS repaired .unOrBin (paren z)) .unOrBin = true
    rw [fmtS_paren]
    split
    · rename_i hc; exact ih hc.1
    · simp [checkExcess]
  | un op z ih =>
    have hz : checkExcess z .unOrBin = true := by simpa [checkExcess] using h
    show checkExcess (fmtS repaired .unOrBin (un op z)) .unOrBin = true
    rw [fmtS_un_eq]
    split
    · simp [checkExcess]
    · simpa [checkExcess] using ih hz

/-- what formats to a bare `-y` in operand context, without a `- -` pair in the source, was
droppable to begin with -/
theorem un_minus_result (e y : Expr) (hop : ∀ z, e ≠ un .minus z)
    (h : F .unOrBin e = un .minus y) : checkExcess (un .minus y) .unOrBin = true := by
  induction e with
  | atom n => simp [F, fmtS] at h
  | call n => simp [F, fmtS] at h
  | varargs => simp [F, fmtS] at h
  | ifx n => simp [F, fmtS] at h
  | assert e _ => simp [F, fmtS] at h
  | bin op l r _ _ => simp [F, fmtS] at h
  | un op z _ =>
    have h' : fmtS repaired .unOrBin (un op z) = un .minus y := h
    rw [fmtS_un_eq] at h'
    injection h' with h1 _
    exact absurd (by rw [h1]) (hop z)
  | paren x ih =>
    have h' : fmtS repaired .unOrBin (paren x) = un .minus y := h
    rw [fmtS_paren] at h'
    split at h'
    · rename_i hc
      have := excess_stays x hc.1
      have hx : F .unOrBin x = un .minus y := h'
      rw [hx] at this
      exact this
    · cases h'

/-- Lemma A: an expression whose parentheses must stay still needs them after formatting,
whatever the context it was formatted in -/
theorem needed_stays (e : Expr) (hn : noMM e = true) (ctx ctx' : Ctx) (h : checkExcess e ctx = false) :
    checkExcess (F ctx' e) ctx = false := by
  induction e generalizing ctx' with
  | atom n => simp [checkExcess] at h
  | paren z _ => simp [checkExcess] at h
  | call n => simpa [F, fmtS] using h
  | varargs => simpa [F, fmtS] using h
  | ifx n => simpa [F, fmtS] using h
  | assert e _ => rw [F_assert]; simpa [checkExcess] using h
  | bin op l r _ _ => rw [F_bin]; simp [checkExcess]
  | un op x ih =>
    simp only [noMM, Bool.and_eq_true, Bool.not_eq_eq_eq_not, Bool.not_true] at hn
    show checkExcess (fmtS repaired ctx' (un op x)) ctx = false
    rw [fmtS_un_eq]
    by_cases h1 : ctx = .binLhsExp
    · subst h1; simp [checkExcess]
    · by_cases h2 : ctx = .binLhs ∧ op = .not
      · obtain ⟨rfl, rfl⟩ := h2; simp [checkExcess]
      · have hx : checkExcess x ctx = false := by simpa [checkExcess, h1, h2] using h
        have hfx := ih hn.2 .unOrBin hx
        split
        · -- the guard fired: impossible, the operand's parentheses were not droppable
          rename_i hg
          simp only [Bool.and_eq_true, decide_eq_true_eq] at hg
          obtain ⟨hop, hg⟩ := hg
          subst hop
          rcases guard_shape _ hg with ⟨y, hy⟩ | ⟨y, hy⟩
          · -- F unOrBin x = -y : x is not `-_` (noMM), so x was droppable in operand context …
            have hnot : ∀ z, x ≠ un .minus z := by
              intro z hz; subst hz; simp [ParenRule.isUnMinus] at hn
            -- … but x = paren _ is excluded by hx, and any other head does not format to `un`
            cases x with
            | paren w => simp [checkExcess] at hx
            | un op2 z =>
              have h' : fmtS repaired .unOrBin (un op2 z) = un .minus y := hy
              rw [fmtS_un_eq] at h'
              injection h' with h3 _
              exact absurd (by rw [h3]) (hnot z)
            | atom n => simp [fmtS] at hy
            | call n => simp [fmtS] at hy
            | varargs => simp [fmtS] at hy
            | ifx n => simp [fmtS] at hy
            | assert e => simp [fmtS] at hy
            | bin o l r => simp [fmtS] at hy
          · cases x with
            | paren w => simp [checkExcess] at hx
            | un op2 z =>
              have h' : fmtS repaired .unOrBin (un op2 z) = paren (un .minus y) := hy
              rw [fmtS_un_eq] at h'
              cases h'
            | atom n => simp [fmtS] at hy
            | call n => simp [fmtS] at hy
            | varargs => simp [fmtS] at hy
            | ifx n => simp [fmtS] at hy
            | assert e => simp [fmtS] at hy
            | bin o l r => simp [fmtS] at hy
        · simpa [checkExcess, h1, h2] using hfx

/-- **idempotence of the single-line parenthesis rule** in every context -/
theorem fmtS_idem (e : Expr) (hn : noMM e = true) : ∀ ctx, F ctx (F ctx e) = F ctx e := by
  induction e with
  | atom n => intro ctx; simp [F, fmtS]
  | call n => intro ctx; simp [F, fmtS]
  | varargs => intro ctx; simp [F, fmtS]
  | ifx n => intro ctx; simp [F, fmtS]
  | assert e ih =>
    intro ctx
    rw [F_assert, F_assert, ih (by simpa [noMM] using hn)]
  | bin op l r ihl ihr =>
    intro ctx
    simp only [noMM, Bool.and_eq_true] at hn
    rw [F_bin, F_bin, ihl hn.1, ihr hn.2]
  | paren e ih =>
    intro ctx
    have hn' : noMM e = true := by simpa [noMM] using hn
    show fmtS repaired ctx (fmtS repaired ctx (paren e)) = fmtS repaired ctx (paren e)
    rw [fmtS_paren]
    split
    · exact ih hn' ctx
    · rename_i hc
      rw [fmtS_paren]
      have hstd := ih hn' .std
      split
      · rename_i hc2
        exfalso
        apply hc
        refine ⟨?_, hc2.2⟩
        cases hce : checkExcess e ctx
        · have := needed_stays e hn' ctx .std hce
          have h2 := hc2.1
          simp only [F] at this
          rw [this] at h2
          cases h2
        · rfl
      · exact congrArg paren hstd
  | un op e ih =>
    intro ctx
    simp only [noMM, Bool.and_eq_true, Bool.not_eq_eq_eq_not, Bool.not_true] at hn
    have ihe := ih hn.2 .unOrBin
    show fmtS repaired ctx (fmtS repaired ctx (un op e)) = fmtS repaired ctx (un op e)
    rw [fmtS_un_eq]
    split
    · -- guard fired: the output is `-( e' )`
      rename_i hg
      simp only [Bool.and_eq_true, decide_eq_true_eq] at hg
      obtain ⟨hop, hg⟩ := hg
      subst hop
      rw [fmtS_un_eq, fmtS_paren]
      have hnk : ¬ keepParens .unOrBin = true := by simp [keepParens]
      by_cases hce : checkExcess (fmtS repaired .unOrBin e) .unOrBin = true
      · simp only [hce, hnk]
        have ihe' : fmtS repaired .unOrBin (fmtS repaired .unOrBin e) = fmtS repaired .unOrBin e := ihe
        rw [ihe']
        simp [hg]
      · exfalso
        rcases guard_shape _ hg with ⟨y, hy⟩ | ⟨y, hy⟩
        · have hnot : ∀ z, e ≠ un .minus z := by
            intro z hz; subst hz; simp [ParenRule.isUnMinus] at hn
          have := un_minus_result e y hnot hy
          rw [hy] at hce
          exact hce this
        · rw [hy] at hce
          simp [checkExcess] at hce
    · rename_i hg
      rw [fmtS_un_eq]
      have ihe' : fmtS repaired .unOrBin (fmtS repaired .unOrBin e) = fmtS repaired .unOrBin e := ihe
      rw [ihe']
      simp only [hg]
      rfl

theorem noMM_of_faithful (e : Expr) (h : Prec.faithful e = true) : noMM e = true := by
  induction e with
  | paren e ih => simpa [noMM, Prec.faithful] using ih (by simpa [Prec.faithful] using h)
  | un op e ih =>
    simp only [Prec.faithful, Bool.and_eq_true, Bool.not_eq_eq_eq_not, Bool.not_true] at h
    have hm := h.1.2
    simp only [noMM, Bool.and_eq_true, Bool.not_eq_eq_eq_not, Bool.not_true]
    refine ⟨?_, ih h.2⟩
    simpa [Prec.minusClash, isUnMinus_eq] using hm
  | bin op l r ihl ihr =>
    simp only [Prec.faithful, Bool.and_eq_true] at h
    simp [noMM, ihl h.1.2, ihr h.2]
  | assert e ih =>
    simp only [Prec.faithful, Bool.and_eq_true] at h
    simpa [noMM] using ih h.2
  | _ => rfl

end StyluaModel.ParenIdem
