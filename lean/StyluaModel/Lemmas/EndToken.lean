/- Helper lemmas for Props/C03.lean and Props/C10.lean: format_end_token (Model/EndToken.lean). -/
import StyluaModel.Model.EndToken
import StyluaModel.Lemmas.Trivia
import StyluaModel.Lemmas.Semi
namespace StyluaModel.EndTokenLemmas
open StyluaModel.Trivia StyluaModel.EndToken StyluaModel.TriviaLemmas

theorem commentsOut_reverse (l : List Out) : commentsOut l.reverse = (commentsOut l).reverse := by
  induction l with
  | nil => rfl
  | cons x r ih =>
    simp only [List.reverse_cons, commentsOut_append, ih]
    cases x <;> simp [commentsOut]

theorem scan_comments (l : List Out) : ∀ stop, commentsOut (scan stop l) = commentsOut l := by
  induction l with
  | nil => intro _; rfl
  | cons x r ih =>
    intro stop
    cases x with
    | newline =>
      simp only [scan]
      split <;> simp [commentsOut, ih]
    | indent => simp [scan, commentsOut, ih]
    | space => simp [scan, commentsOut, ih]
    | comment k t => simp [scan, commentsOut, ih]

theorem end_comments (eol : List Char) (lead : List Triv) :
    commentsOut (endLeading eol lead) = (commentsIn lead).map (fun c => (c.1, fmtText eol c.1 c.2)) := by
  have h : commentsOut (load eol .leading lead) = _ := load_comments eol .leading lead 0 false
  simp only [endLeading, commentsOut_reverse, scan_comments, List.reverse_reverse]
  exact h

/-- nothing but indentation follows the last comment, and without a comment nothing but indentation is left:
blank lines in front of the closing token are removed -/
def tailClean : List Out → Bool
  | [] => true
  | .newline :: rest => headIsComment rest
  | .indent :: rest => tailClean rest
  | .space :: rest => tailClean rest
  | .comment _ _ :: _ => true

theorem scan_clean (l : List Out) : tailClean (scan false l) = true := by
  induction l with
  | nil => rfl
  | cons x r ih =>
    cases x with
    | newline =>
      simp only [scan, Bool.not_false, Bool.true_and]
      cases hr : headIsComment r
      · simpa [hr] using ih
      · simp only [hr, Bool.not_true, Bool.false_eq_true, if_false, tailClean]
        cases r with
        | nil => simp [headIsComment] at hr
        | cons y r' => cases y <;> simp [headIsComment] at hr <;> simp [scan, headIsComment]
    | indent => simpa [scan, tailClean] using ih
    | space => simpa [scan, tailClean] using ih
    | comment k t => simp [scan, tailClean]
theorem scan_true (l : List Out) : scan true l = l := by
  induction l with
  | nil => rfl
  | cons x r ih => cases x <;> simp [scan, ih]

theorem head_scan (stop : Bool) (r : List Out) (h : headIsComment r = true) : headIsComment (scan stop r) = true := by
  cases r with
  | nil => simp [headIsComment] at h
  | cons y ys => cases y <;> simp [headIsComment] at h <;> simp [scan, headIsComment]

theorem scan_idem (l : List Out) : ∀ stop, scan stop (scan stop l) = scan stop l := by
  induction l with
  | nil => intro _; rfl
  | cons x r ih =>
    intro stop
    cases x with
    | newline =>
      by_cases hc : (!stop && !headIsComment r) = true
      · have : scan stop (Out.newline :: r) = scan stop r := by simp [scan, hc]
        rw [this, ih]
      · have hk : scan stop (Out.newline :: r) = Out.newline :: scan stop r := by simp [scan, hc]
        rw [hk]
        have hc2 : (!stop && !headIsComment (scan stop r)) = false := by
          cases stop with
          | true => simp
          | false =>
            have hh : headIsComment r = true := by
              cases h' : headIsComment r <;> simp_all
            simp [head_scan false r hh]
        simp only [scan, hc2, Bool.false_eq_true, if_false, ih]
    | indent => simp [scan, ih]
    | space => simp [scan, ih]
    | comment k t => simp [scan, scan_true]
end StyluaModel.EndTokenLemmas

namespace StyluaModel.LineSafe
open StyluaModel.Trivia StyluaModel.Semi StyluaModel.EndToken

/-- line safety read from the back: `nn` = the element that follows (in forward order) is a line ending -/
def srAux : (nn : Bool) → List Out → Bool
  | _, [] => true
  | nn, .comment .line _ :: r => nn && srAux false r
  | _, .newline :: r => srAux true r
  | _, _ :: r => srAux false r

/-- forward line safety of `l ++ tail`, in terms of the reversed prefix -/
theorem sr_spec (l : List Out) : ∀ (tail : List Out),
    lineSafe (l.reverse ++ tail) = (srAux (match tail with | .newline :: _ => true | _ => false) l && lineSafe tail) := by
  induction l with
  | nil => intro tail; simp [srAux]
  | cons x r ih =>
    intro tail
    simp only [List.reverse_cons, List.append_assoc, List.singleton_append]
    rw [ih (x :: tail)]
    cases x with
    | newline => simp [srAux, lineSafe_newline]
    | indent => simp [srAux, lineSafe_indent]
    | space => simp [srAux, lineSafe_space]
    | comment k t =>
      cases k with
      | line =>
        cases tail with
        | nil => simp [srAux, lineSafe]
        | cons y ys => cases y <;> simp [srAux, lineSafe, Bool.and_comm, Bool.and_assoc, Bool.and_left_comm]
      | block lvl => simp [srAux, lineSafe]
      | shebang => simp [srAux, lineSafe]

theorem sr_rev (l : List Out) : lineSafe l.reverse = srAux false l := by
  have := sr_spec l []
  simpa [lineSafe] using this

/-- dropping line endings that do not follow a comment keeps line safety -/
theorem scan_sr (l : List Out) : ∀ stop nn, srAux nn l = true → srAux nn (scan stop l) = true := by
  induction l with
  | nil => intro _ _ h; simpa [scan] using h
  | cons x r ih =>
    intro stop nn h
    cases x with
    | newline =>
      simp only [srAux] at h
      simp only [scan]
      split
      · -- dropped: the rest starts with no comment, so what followed does not matter
        rename_i hc
        have hnc : headIsComment r = false := by
          cases hh : headIsComment r <;> simp_all
        cases r with
        | nil => simp [scan, srAux]
        | cons y ys =>
          cases y with
          | comment k t => simp [headIsComment] at hnc
          | newline => exact ih stop nn (by simpa [srAux] using h)
          | indent => exact ih stop nn (by simpa [srAux] using h)
          | space => exact ih stop nn (by simpa [srAux] using h)
      · simp only [srAux]; exact ih stop true h
    | indent => simp only [srAux] at h; simp only [scan, srAux]; exact ih stop false h
    | space => simp only [srAux] at h; simp only [scan, srAux]; exact ih stop false h
    | comment k t =>
      cases k with
      | line =>
        simp only [srAux, Bool.and_eq_true] at h
        simp only [scan, srAux, Bool.and_eq_true]
        exact ⟨h.1, ih true false h.2⟩
      | block lvl => simp only [srAux] at h; simp only [scan, srAux]; exact ih true false h
      | shebang => simp only [srAux] at h; simp only [scan, srAux]; exact ih true false h

/-- the leading trivia of a formatted closing token is line-safe: `end` is never swallowed by a comment in front of it -/
theorem endLeading_safe (eol : List Char) (lead : List Triv) : lineSafe (endLeading eol lead) = true := by
  unfold endLeading
  rw [sr_rev]
  apply scan_sr
  rw [← sr_rev, List.reverse_reverse]
  exact load_leading_safe eol lead
end StyluaModel.LineSafe
