/- Helper lemmas for Props/C03.lean and Props/C10.lean: format_end_token (Model/EndToken.lean). -/
import StyluaModel.Model.EndToken
import StyluaModel.Lemmas.Trivia
namespace StyluaModel.EndTokenLemmas
open StyluaModel.Trivia StyluaModel.EndToken StyluaModel.TriviaLemmas

theorem commentsOut_reverse (l : List Out) : commentsOut l.reverse = (commentsOut l).reverse := by
  induction l with
  | nil => rfl
  | cons x r ih =>
    simp only [List.reverse_cons, commentsOut_append, ih]
    cases x <;> simp [commentsOut]

theorem scan_comments (l : List Out) : ∀ stop, commentsOut (scan stop l) = commentsOut l := by
  induction l with
  | nil => intro _; rfl
  | cons x r ih =>
    intro stop
    cases x with
    | newline =>
      simp only [scan]
      split <;> simp [commentsOut, ih]
    | indent => simp [scan, commentsOut, ih]
    | space => simp [scan, commentsOut, ih]
    | comment k t => simp [scan, commentsOut, ih]

theorem end_comments (eol : List Char) (lead : List Triv) :
    commentsOut (endLeading eol lead) = (commentsIn lead).map (fun c => (c.1, fmtText eol c.1 c.2)) := by
  have h : commentsOut (load eol .leading lead) = _ := load_comments eol .leading lead 0 false
  simp only [endLeading, commentsOut_reverse, scan_comments, List.reverse_reverse]
  exact h

/-- nothing but indentation follows the last comment, and without a comment nothing but indentation is left:
blank lines in front of the closing token are removed -/
def tailClean : List Out → Bool
  | [] => true
  | .newline :: rest => headIsComment rest
  | .indent :: rest => tailClean rest
  | .space :: rest => tailClean rest
  | .comment _ _ :: _ => true

theorem scan_clean (l : List Out) : tailClean (scan false l) = true := by
  induction l with
  | nil => rfl
  | cons x r ih =>
    cases x with
    | newline =>
      simp only [scan, Bool.not_false, Bool.true_and]
      cases hr : headIsComment r
      · simpa [hr] using ih
      · simp only [hr, Bool.not_true, Bool.false_eq_true, if_false, tailClean]
        cases r with
        | nil => simp [headIsComment] at hr
        | cons y r' => cases y <;> simp [headIsComment] at hr <;> simp [scan, headIsComment]
    | indent => simpa [scan, tailClean] using ih
    | space => simpa [scan, tailClean] using ih
    | comment k t => simp [scan, tailClean]
end StyluaModel.EndTokenLemmas
