/- Helper lemmas for Props/C03.lean: the trivia of a kept / added / removed semicolon (Model/Semi.lean). -/
import StyluaModel.Model.Semi
import StyluaModel.Lemmas.Trivia
namespace StyluaModel.SemiLemmas
open StyluaModel.Trivia StyluaModel.Semi StyluaModel.TriviaLemmas

theorem commentsOut_map_some (l : List Out) : commentsOut (outs (l.map some)) = commentsOut l := by
  simp [outs, List.filterMap_map]

theorem commentsOut_raw (l : List Triv) : commentsOut (rawComments l) = commentsIn l := by
  induction l with
  | nil => rfl
  | cons x r ih => cases x <;> simp [rawComments, commentsOut, commentsIn, ih]

theorem commentsOut_spaced (l : List Out) :
    commentsOut (l.flatMap (fun c => [Out.space, c])) = commentsOut l := by
  induction l with
  | nil => rfl
  | cons x r ih =>
    simp only [List.flatMap_cons, commentsOut_append, ih]
    cases x <;> simp [commentsOut]

theorem commentsIn_append (a b : List Triv) : commentsIn (a ++ b) = commentsIn a ++ commentsIn b := by
  induction a with
  | nil => rfl
  | cons x r ih => cases x <;> simp [commentsIn, ih]

theorem dropLast_snoc (l : List Out) (x : Out) : dropLast (l ++ [x]) = l := by
  simp [dropLast]


def norm (eol : List Char) (l : List (CKind × List Char)) : List (CKind × List Char) :=
  l.map fun c => (c.1, fmtText eol c.1 c.2)

/-- required semicolon: every comment of the semicolon's own trivia (text normalised by format_token) and of the
statement's trailing trivia is kept, once, in order -/
theorem semi_required (eol : List Char) (written : Bool) (T : List Out) (sl st : List Triv) :
    commentsOut (outs (fmtSemi eol true written T sl st)) =
      (if written then norm eol (commentsIn sl) ++ norm eol (commentsIn st) else []) ++ commentsOut T := by
  cases written
  · simp [fmtSemi, outs, List.filterMap_map]
  · have h1 : commentsOut (load eol .leading sl) = norm eol (commentsIn sl) := load_comments eol .leading sl 0 false
    have h2 : commentsOut (load eol .trailing st) = norm eol (commentsIn st) := load_comments eol .trailing st 0 false
    simp only [fmtSemi, if_true, outs, List.filterMap_append, List.filterMap_map, Function.comp_def]
    simp [commentsOut_append, h1, h2]

/-- removed semicolon: given that the statement's trailing trivia ends with its newline, every comment is kept,
once, in order, with its text untouched -/
theorem semi_removed (eol : List Char) (T' : List Out) (sl st : List Triv) :
    commentsOut (outs (fmtSemi eol false true (T' ++ [Out.newline]) sl st)) =
      commentsOut T' ++ commentsIn sl ++ commentsIn st := by
  simp only [fmtSemi, Bool.false_eq_true, if_false, if_true, dropLast_snoc, commentsOut_map_some, commentsOut_append,
    commentsOut_spaced, commentsOut_raw, commentsIn_append]
  simp [commentsOut, List.append_assoc]

theorem semi_absent (eol : List Char) (T : List Out) (sl st : List Triv) :
    outs (fmtSemi eol false false T sl st) = T := by
  simp [fmtSemi, outs, List.filterMap_map]

end StyluaModel.SemiLemmas

namespace StyluaModel.LineSafe
open StyluaModel.Trivia StyluaModel.Semi

theorem lineSafe_newline (r : List Out) : lineSafe (.newline :: r) = lineSafe r := by
  simp [lineSafe]
theorem lineSafe_indent (r : List Out) : lineSafe (.indent :: r) = lineSafe r := by
  simp [lineSafe]
theorem lineSafe_space (r : List Out) : lineSafe (.space :: r) = lineSafe r := by
  simp [lineSafe]

theorem lineSafe_leading_comment (eol : List Char) (k : CKind) (t : List Char) (r : List Out) :
    lineSafe (fmtComment eol .leading k t ++ r) = lineSafe r := by
  cases k <;> simp [fmtComment, lineSafe]

theorem loadAux_leading_safe (eol : List Char) (t : List Triv) : ∀ nl skip,
    lineSafe (loadAux eol .leading nl skip t) = true := by
  induction t with
  | nil => intro _ _; rfl
  | cons x r ih =>
    intro nl skip
    cases x with
    | ws hasNl =>
      simp only [loadAux]
      split
      · exact ih _ _
      · split
        · split
          · simp only [List.cons_append, List.nil_append, lineSafe_newline]; exact ih _ _
          · simp only [List.nil_append]; exact ih _ _
        · exact ih _ _
    | comment k txt =>
      simp only [loadAux, lineSafe_leading_comment]
      exact ih _ _

/-- the leading trivia of a formatted token never ends in an open line comment: every line comment in it is the
last thing on its line, so it cannot swallow the token -/
theorem load_leading_safe (eol : List Char) (t : List Triv) : lineSafe (load eol .leading t) = true :=
  loadAux_leading_safe eol t 0 false
end StyluaModel.LineSafe
