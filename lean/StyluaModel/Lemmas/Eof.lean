/- Helper lemmas for the end-of-file theorems (Props/C10.lean, C03.lean, C09.lean) -/
import StyluaModel.Model.Eof
namespace StyluaModel.EofLemmas
open StyluaModel.Trivia StyluaModel.Eof

theorem dropWhile_head_not {α : Type} (p : α → Bool) (l : List α) (x : α) (xs : List α)
    (h : l.dropWhile p = x :: xs) : p x = false := by
  induction l with
  | nil => simp at h
  | cons a as ih =>
    simp only [List.dropWhile] at h
    split at h
    · exact ih h
    · rename_i hp
      cases h
      simpa using hp

/-- what is left after popping trailing whitespace is empty or ends in a comment -/
theorem popWs_last (l : List Out) : popWs l = [] ∨ ∃ pre k t, popWs l = pre ++ [.comment k t] := by
  unfold popWs
  cases h : l.reverse.dropWhile isWsOut with
  | nil => left; rfl
  | cons x xs =>
    right
    have hx := dropWhile_head_not isWsOut _ x xs h
    cases x with
    | comment k t => exact ⟨xs.reverse, k, t, by simp⟩
    | newline => simp [isWsOut] at hx
    | indent => simp [isWsOut] at hx
    | space => simp [isWsOut] at hx

theorem commentsOut_append (a b : List Out) : commentsOut (a ++ b) = commentsOut a ++ commentsOut b := by
  induction a with
  | nil => rfl
  | cons x xs ih => cases x <;> simp [commentsOut, ih]

theorem commentsOut_reverse (l : List Out) : commentsOut l.reverse = (commentsOut l).reverse := by
  induction l with
  | nil => rfl
  | cons x xs ih =>
    simp only [List.reverse_cons, commentsOut_append, ih]
    cases x <;> simp [commentsOut]

theorem commentsOut_dropWhile (l : List Out) : commentsOut (l.dropWhile isWsOut) = commentsOut l := by
  induction l with
  | nil => rfl
  | cons x xs ih =>
    cases x <;> simp [List.dropWhile, isWsOut, commentsOut, ih]

/-- popping whitespace loses no comment -/
theorem commentsOut_popWs (l : List Out) : commentsOut (popWs l) = commentsOut l := by
  unfold popWs
  rw [commentsOut_reverse, commentsOut_dropWhile, commentsOut_reverse, List.reverse_reverse]

theorem commentsOut_of_allWs (l : List Out) (h : l.all isWsOut = true) : commentsOut l = [] := by
  induction l with
  | nil => rfl
  | cons x xs ih =>
    simp only [List.all_cons, Bool.and_eq_true] at h
    cases x <;> simp_all [commentsOut, isWsOut]

end StyluaModel.EofLemmas
