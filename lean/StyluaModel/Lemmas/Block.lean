/- Helper lemmas for Props/C08.lean, Props/C09.lean (block decisions). -/
import StyluaModel.Model.Block
namespace StyluaModel.BlockLemmas
open StyluaModel.Block

/-- declarative reading of the region rule: the last `ignore start` / `ignore end` line seen
so far in this block (none: formatting enabled) -/
def lastStart : Bool → List Line → Bool
  | d, [] => d
  | d, l :: ls => lastStart (match l with | .ignoreStart => true | .ignoreEnd => false | _ => d) ls

theorem toggle_eq_lastStart (d : Bool) (ls : List Line) : toggle d ls = lastStart d ls := by
  induction ls generalizing d with
  | nil => rfl
  | cons l ls ih => cases l <;> simp [toggle, lastStart, ih]

theorem lastStart_append (d : Bool) (a b : List Line) : lastStart d (a ++ b) = lastStart (lastStart d a) b := by
  induction a generalizing d with
  | nil => rfl
  | cons l ls ih => simp [lastStart, ih]

/-- spec: which statements are skipped -/
def specSkip : List Line → List Stmt → List Bool
  | _, [] => []
  | seen, s :: rest =>
      (lastStart false (seen ++ s.lines) || s.lines.contains .ignore) :: specSkip (seen ++ s.lines) rest

def isSkip : Decision → Bool
  | .skip => true
  | _ => false

theorem isSkip_decide1 (d : Bool) (r : Option Range) (s : Stmt) :
    isSkip (decide1 d r s) = (d || s.lines.contains .ignore) := by
  unfold decide1
  cases d
  · cases h : s.lines.contains .ignore
    · simp only [Bool.false_eq_true, if_false, Bool.or_self]
      split <;> rfl
    · simp [isSkip]
  · simp [isSkip]

theorem outOf_decision (v : Variant) (r : Option Range) (first : Bool) (d : Decision) (s : Stmt) (n : Option Stmt) :
    (outOf v r first d s n).decision = d := rfl
theorem outOf_id (v : Variant) (r : Option Range) (first : Bool) (d : Decision) (s : Stmt) (n : Option Stmt) :
    (outOf v r first d s n).id = s.id := rfl

theorem decisions_skip (v : Variant) (r : Option Range) (seen : List Line) (first : Bool) (b : List Stmt) :
    (fmtStmts v r (lastStart false seen) first b).map (fun o => isSkip o.decision) = specSkip seen b := by
  induction b generalizing seen first with
  | nil => rfl
  | cons s rest ih =>
    simp only [fmtStmts, List.map_cons, specSkip, outOf_decision]
    rw [toggle_eq_lastStart, ← lastStart_append, isSkip_decide1]
    congr 1
    exact ih (seen ++ s.lines) false

theorem ids_preserved (v : Variant) (r : Option Range) (d first : Bool) (b : List Stmt) :
    (fmtStmts v r d first b).map (·.id) = b.map (·.id) := by
  induction b generalizing d first with
  | nil => rfl
  | cons s rest ih => simp [fmtStmts, ih, outOf_id]

theorem length_eq (v : Variant) (r : Option Range) (d first : Bool) (b : List Stmt) :
    (fmtStmts v r d first b).length = b.length := by
  induction b generalizing d first with
  | nil => rfl
  | cons s rest ih => simp [fmtStmts, ih]

theorem outOf_unformatted (r : Option Range) (first : Bool) (d : Decision) (s : Stmt) (n : Option Stmt)
    (h : d ≠ .normal) : (outOf repaired r first d s n).semi = s.semi ∧ (outOf repaired r first d s n).stripped = false := by
  simp [outOf, repaired, h]

theorem outOf_formatted (v : Variant) (r : Option Range) (first : Bool) (s : Stmt) (n : Option Stmt) :
    (outOf v r first .normal s n).semi = requiresSemi s n := by
  simp [outOf]

/-- statements that are not formatted keep their semicolon and their leading blank lines -/
theorem unformatted_kept (r : Option Range) (d first : Bool) (b : List Stmt) :
    ∀ p ∈ List.zip b (fmtStmts repaired r d first b),
      p.2.decision ≠ .normal → p.2.semi = p.1.semi ∧ p.2.stripped = false := by
  induction b generalizing d first with
  | nil => intro p hp; simp at hp
  | cons s rest ih =>
    intro p hp
    simp only [fmtStmts, List.zip_cons_cons, List.mem_cons] at hp
    rcases hp with hp | hp
    · subst hp
      intro hn
      exact outOf_unformatted r first _ s _ hn
    · exact ih _ _ p hp

/-- the input never has an expression-ending statement directly followed, without `;`, by a
statement that starts with `(` (the parser would have read the two as one call) -/
def InputSafe : List Stmt → Bool
  | [] => true
  | s :: rest => (!requiresSemi s rest.head? || s.semi) && InputSafe rest

/-- the same for the output: statement `s` with the semicolon decision `o` -/
def OutputSafe : List Stmt → List Out → Bool
  | s :: rest, o :: os => (!requiresSemi s rest.head? || o.semi) && OutputSafe rest os
  | _, _ => true

theorem output_safe (r : Option Range) (d first : Bool) (b : List Stmt) (h : InputSafe b = true) :
    OutputSafe b (fmtStmts repaired r d first b) = true := by
  induction b generalizing d first with
  | nil => rfl
  | cons s rest ih =>
    simp only [InputSafe, Bool.and_eq_true] at h
    simp only [fmtStmts, OutputSafe, Bool.and_eq_true]
    refine ⟨?_, ih _ _ h.2⟩
    by_cases hn : decide1 (toggle d s.lines) r s = .normal
    · rw [hn, outOf_formatted]; simp
    · rw [(outOf_unformatted r first _ s _ hn).1]; exact h.1

theorem decide1_normal_none (dis : Bool) (r : Range) (s : Stmt) (h : decide1 dis (some r) s = .normal) :
    decide1 dis none s = .normal := by
  unfold decide1 at h ⊢
  cases dis
  · cases hc : s.lines.contains .ignore
    · simp [inRange]
    · rw [hc] at h; simp at h
  · simp at h

/-- a statement formatted under a range comes out as under whole-file formatting -/
theorem inside_same (r : Range) (d first : Bool) (b : List Stmt) :
    ∀ p ∈ List.zip (fmtStmts repaired (some r) d first b) (fmtStmts repaired none d first b),
      p.1.decision = .normal → p.1 = p.2 := by
  induction b generalizing d first with
  | nil => intro p hp; simp [fmtStmts] at hp
  | cons s rest ih =>
    intro p hp
    simp only [fmtStmts, List.zip_cons_cons, List.mem_cons] at hp
    rcases hp with hp | hp
    · subst hp
      intro hn
      have hn' : decide1 (toggle d s.lines) (some r) s = .normal := hn
      rw [hn', decide1_normal_none _ r s hn']
      simp [outOf, repaired]
    · exact ih _ _ p hp

/-- writing the decided semicolons back and formatting again decides the same -/
def applySemis : List Stmt → List Out → List Stmt
  | s :: rest, o :: os => { s with semi := o.semi } :: applySemis rest os
  | _, _ => []

theorem applySemis_head (b : List Stmt) (os : List Out) (h : os.length = b.length) :
    ((applySemis b os).head?).map (·.startsParen) = (b.head?).map (·.startsParen) := by
  cases b with
  | nil => cases os <;> rfl
  | cons s rest =>
    cases os with
    | nil => simp at h
    | cons o os => rfl

theorem requiresSemi_congr (s : Stmt) (n m : Option Stmt) (h : n.map (·.startsParen) = m.map (·.startsParen)) :
    requiresSemi s n = requiresSemi s m := by
  unfold requiresSemi
  cases n <;> cases m <;> simp_all

theorem semis_idempotent (r : Option Range) (d first : Bool) (b : List Stmt) :
    (fmtStmts repaired r d first (applySemis b (fmtStmts repaired r d first b))).map (·.semi)
      = (fmtStmts repaired r d first b).map (·.semi) := by
  induction b generalizing d first with
  | nil => rfl
  | cons s rest ih =>
    simp only [fmtStmts, applySemis, List.map_cons]
    congr 1
    · have hreq := requiresSemi_congr s ((applySemis rest (fmtStmts repaired r (toggle d s.lines) false rest)).head?) rest.head?
        (applySemis_head rest _ (length_eq _ _ _ _ _))
      have hdec : ∀ b', decide1 (toggle d s.lines) r { s with semi := b' } = decide1 (toggle d s.lines) r s := fun _ => rfl
      rw [hdec]
      by_cases hn : decide1 (toggle d s.lines) r s = .normal
      · rw [hn, outOf_formatted, outOf_formatted]; exact hreq
      · rw [(outOf_unformatted r first _ _ _ hn).1, (outOf_unformatted r first _ s _ hn).1]
    · exact ih _ _

end StyluaModel.BlockLemmas
