/- Helper lemmas for Props/C12.lean (require sorting). -/
import StyluaModel.Model.SortReq
namespace StyluaModel.SortLemmas
open StyluaModel.SortReq

/-- items of a reversed partition (as `step` builds it), in source order -/
def flatR : List Part → List Item
  | [] => []
  | p :: ps => flatR ps ++ p.items.reverse

theorem flatR_step (ps : List Part) (it : Item) : flatR (step ps it) = flatR ps ++ [it] := by
  unfold step
  cases hk : it.kind with
  | none =>
    cases ps with
    | nil => simp [flatR, Part.items]
    | cons p rest =>
      cases p with
      | other is => simp [flatR, Part.items]
      | group k is => simp [flatR, Part.items]
  | some k =>
    cases ps with
    | nil => simp [flatR, Part.items]
    | cons p rest =>
      cases p with
      | other is => simp [flatR, Part.items]
      | group k' is =>
        cases is with
        | nil => simp [flatR, Part.items]
        | cons prev more =>
          simp only
          split <;> simp [flatR, Part.items]

theorem flatR_foldl (ps : List Part) (items : List Item) :
    flatR (items.foldl step ps) = flatR ps ++ items := by
  induction items generalizing ps with
  | nil => simp
  | cons it rest ih => simp [List.foldl_cons, ih, flatR_step]

def flat (ps : List Part) : List Item := ps.flatMap Part.items

theorem flat_fix (ps : List Part) :
    flat ((ps.map unrev).reverse) = flatR ps := by
  induction ps with
  | nil => rfl
  | cons p ps ih =>
    simp only [List.map_cons, List.reverse_cons, flat, List.flatMap_append, List.flatMap_cons,
      List.flatMap_nil, List.append_nil, flatR]
    unfold flat at ih
    rw [ih]
    cases p <;> rfl

/-- the partition is a partition: concatenating the parts gives the statements back, in order -/
theorem partition_flat (items : List Item) : flat (partition items) = items := by
  unfold partition
  rw [flat_fix, flatR_foldl]
  simp [flatR]

theorem keyLe_trans (a b c : Item) (h1 : keyLe a b = true) (h2 : keyLe b c = true) : keyLe a c = true := by
  simp only [keyLe, decide_eq_true_eq] at *
  exact List.le_trans h1 h2

theorem keyLe_total (a b : Item) : (keyLe a b || keyLe b a) = true := by
  simp only [keyLe, Bool.or_eq_true, decide_eq_true_eq]
  exact List.le_total a.key b.key

theorem sortPart_perm (v : Variant) (d : Bool) (p : Part) : (sortPart v d p).Perm p.items := by
  cases p with
  | other is => exact List.Perm.refl _
  | group k is =>
    simp only [sortPart, Part.items]
    split
    · exact List.mergeSort_perm is keyLe
    · exact List.Perm.refl _

theorem sortParts_perm (v : Variant) (d : Bool) (ps : List Part) : (sortParts v d ps).Perm (flat ps) := by
  induction ps generalizing d with
  | nil => exact List.Perm.refl _
  | cons p ps ih =>
    simp only [sortParts, flat, List.flatMap_cons]
    exact List.Perm.append (sortPart_perm v d p) (ih _)


theorem sortPart_length (v : Variant) (d : Bool) (p : Part) : (sortPart v d p).length = p.items.length :=
  (sortPart_perm v d p).length_eq

/-- the parts stay in place: the output is the concatenation, part by part, of a
permutation of each part (so a statement never leaves its group, groups never merge, and
statements outside groups do not move) -/
inductive Blockwise : List (List Item) → List Part → Prop
  | nil : Blockwise [] []
  | cons {o : List Item} {p : Part} {os : List (List Item)} {ps : List Part} :
      o.Perm p.items → (∀ is, p = .other is → o = is) → Blockwise os ps → Blockwise (o :: os) (p :: ps)

theorem sortParts_blocks (v : Variant) (d : Bool) (ps : List Part) :
    ∃ outs : List (List Item), sortParts v d ps = outs.flatten ∧ Blockwise outs ps := by
  induction ps generalizing d with
  | nil => exact ⟨[], rfl, Blockwise.nil⟩
  | cons p ps ih =>
    obtain ⟨outs, h1, h2⟩ := ih (lastFlag d p.items)
    refine ⟨sortPart v d p :: outs, by simp [sortParts, h1], Blockwise.cons (sortPart_perm v d p) ?_ h2⟩
    intro is hp; subst hp; rfl

theorem sortPart_sorted (v : Variant) (d : Bool) (k : GKind) (is : List Item) (h : allNormal v d is = true) :
    List.Pairwise (fun a b => keyLe a b = true) (sortPart v d (.group k is)) := by
  simp only [sortPart, h, if_true]
  exact List.pairwise_mergeSort keyLe_trans keyLe_total is

theorem sortPart_stable (v : Variant) (d : Bool) (k : GKind) (is : List Item) (a b : Item)
    (hab : [a, b].Sublist is) (hle : keyLe a b = true) : [a, b].Sublist (sortPart v d (.group k is)) := by
  simp only [sortPart]
  split
  · exact List.sublist_mergeSort keyLe_trans keyLe_total (by simp [hle]) hab
  · exact hab

theorem sortPart_ignored (v : Variant) (d : Bool) (k : GKind) (is : List Item) (h : allNormal v d is = false) :
    sortPart v d (.group k is) = is := by
  simp [sortPart, h]

/-- a member that is ignored by a single directive, lies in an open region, or is outside the
range makes `allNormal` false -/
theorem allNormal_false_of_member (d : Bool) (is : List Item) (it : Item) (hm : it ∈ is)
    (h : it.lines.contains .ignore = true ∨ it.inRange = false) : allNormal repaired d is = false := by
  unfold allNormal
  simp only [repaired, if_true]
  induction is generalizing d with
  | nil => cases hm
  | cons x rest ih =>
    simp only [flagsAfter, List.zip_cons_cons, List.all_cons, Bool.and_eq_false_imp]
    intro _
    rcases List.mem_cons.mp hm with hx | hx
    · subst hx
      exfalso
      rename_i hn
      simp only [isNormal, Bool.and_eq_true, Bool.not_eq_eq_eq_not, Bool.not_true] at hn
      rcases h with h | h
      · rw [h] at hn; simp at hn
      · rw [h] at hn; simp at hn
    · exact ih _ hx

/-- every part produced by `step` is homogeneous: a group holds statements of its kind only,
an `other` part holds none of either kind -/
def PartOK : Part → Prop
  | .group k is => ∀ i ∈ is, i.kind = some k
  | .other is => ∀ i ∈ is, i.kind = none

theorem step_ok (ps : List Part) (it : Item) (h : ∀ p ∈ ps, PartOK p) : ∀ p ∈ step ps it, PartOK p := by
  unfold step
  cases hk : it.kind with
  | none =>
    cases ps with
    | nil => intro p hp; simp at hp; subst hp; intro i hi; simp at hi; subst hi; exact hk
    | cons q rest =>
      cases q with
      | other is =>
        intro p hp
        simp only [List.mem_cons] at hp
        rcases hp with hp | hp
        · subst hp
          intro i hi
          rcases List.mem_cons.mp hi with hi | hi
          · subst hi; exact hk
          · exact h (.other is) (by simp) i hi
        · exact h p (by simp [hp])
      | group k is =>
        intro p hp
        simp only [List.mem_cons] at hp
        rcases hp with hp | hp
        · subst hp; intro i hi; simp at hi; subst hi; exact hk
        · exact h p (by simpa using hp)
  | some k =>
    have single : PartOK (.group k [it]) := by intro i hi; simp at hi; subst hi; exact hk
    cases ps with
    | nil => intro p hp; simp at hp; subst hp; exact single
    | cons q rest =>
      cases q with
      | other is =>
        intro p hp
        simp only [List.mem_cons] at hp
        rcases hp with hp | hp
        · subst hp; exact single
        · exact h p (by simpa using hp)
      | group k' is =>
        cases is with
        | nil =>
          intro p hp
          simp only [List.mem_cons] at hp
          rcases hp with hp | hp
          · subst hp; exact single
          · exact h p (by simpa using hp)
        | cons prev more =>
          simp only
          split
          · rename_i hc
            intro p hp
            simp only [List.mem_cons] at hp
            rcases hp with hp | hp
            · subst hp
              intro i hi
              rcases List.mem_cons.mp hi with hi | hi
              · subst hi; rw [hk, hc.1]
              · exact h (.group k' (prev :: more)) (by simp) i hi
            · exact h p (by simp [hp])
          · intro p hp
            simp only [List.mem_cons] at hp
            rcases hp with hp | hp
            · subst hp; exact single
            · exact h p (by simpa using hp)

theorem foldl_ok (ps : List Part) (items : List Item) (h : ∀ p ∈ ps, PartOK p) :
    ∀ p ∈ items.foldl step ps, PartOK p := by
  induction items generalizing ps with
  | nil => exact h
  | cons it rest ih => exact ih _ (step_ok ps it h)

theorem partition_ok (items : List Item) : ∀ p ∈ partition items, PartOK p := by
  intro p hp
  unfold partition at hp
  simp only [List.mem_reverse, List.mem_map] at hp
  obtain ⟨q, hq, rfl⟩ := hp
  have := foldl_ok [] items (by intro p hp; cases hp) q hq
  cases q with
  | group k is => intro i hi; exact this i (by simpa [unrev] using hi)
  | other is => intro i hi; exact this i (by simpa [unrev] using hi)

end StyluaModel.SortLemmas
