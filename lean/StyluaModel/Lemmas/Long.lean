/- Helper lemmas for Props/C04.lean: long-bracket bodies (line-ending conversion vs the value a Lua reader gives them). -/
import StyluaModel.Lemmas.Trivia
import StyluaModel.Spec.StrVal
namespace StyluaModel.LongLemmas
open StyluaModel.StrLit StyluaModel.StrVal StyluaModel.TriviaLemmas

theorem normNl_cr_lf (r : List Char) : normNl ('\r' :: '\n' :: r) = 10 :: normNl r := by rw [normNl]
theorem normNl_lf_cr (r : List Char) : normNl ('\n' :: '\r' :: r) = 10 :: normNl r := by rw [normNl]
theorem normNl_lf_nil : normNl ['\n'] = [10] := by
  rw [normNl] <;> simp [normNl]
theorem normNl_lf_other (c : Char) (r : List Char) (h : c ≠ '\r') : normNl ('\n' :: c :: r) = 10 :: normNl (c :: r) := by
  rw [normNl]
  · simp
  · intro rest hh; cases hh
  · intro rest _ hh; cases hh; exact h rfl
theorem normNl_other (c : Char) (r : List Char) (h1 : c ≠ '\r') (h2 : c ≠ '\n') : normNl (c :: r) = utf8 c ++ normNl r := by
  rw [normNl]
  · simp [h1, h2]
  · intro rest hc _; exact h1 hc
  · intro rest hc _; exact h2 hc

theorem noLone_of_noCR (l : List Char) (h : noCR l = true) : noLoneCRAux false l = true := by
  induction l with
  | nil => rfl
  | cons c r ih =>
    rw [noCR_cons] at h
    simp only [Bool.and_eq_true, bne_iff_ne, ne_eq] at h
    simp only [noLoneCRAux, Bool.false_eq_true, if_false]
    have : (c == '\r') = false := by simpa using h.1
    rw [this]; exact ih h.2

/-- after a line feed, a text without lone carriage returns reads on as if the line feed stood alone
(the `\n\r` pair of the Lua reader only matters when the `\r` is not itself the start of `\r\n`) -/
theorem lemA : ∀ t : List Char, noLoneCRAux false t = true → normNl ('\n' :: t) = 10 :: normNl t
  | [], _ => normNl_lf_nil
  | c :: r, h => by
    by_cases hc : c = '\r'
    · subst hc
      simp only [noLoneCRAux, Bool.false_eq_true, if_false, beq_self_eq_true] at h
      cases r with
      | nil => simp [noLoneCRAux] at h
      | cons d r' =>
        simp only [noLoneCRAux, if_true, Bool.and_eq_true, beq_iff_eq] at h
        obtain ⟨hd, hr⟩ := h
        subst hd
        rw [normNl_lf_cr, normNl_cr_lf, lemA r' hr]
    · exact normNl_lf_other c r hc
termination_by t => t.length
decreasing_by all_goals (simp_all; try omega)

theorem norm_crlfToLf : ∀ b : List Char, noLoneCRAux false b = true → normNl (crlfToLf b) = normNl b
  | [], _ => rfl
  | c :: r, h => by
    by_cases hc : c = '\r'
    · subst hc
      simp only [noLoneCRAux, Bool.false_eq_true, if_false, beq_self_eq_true] at h
      cases r with
      | nil => simp [noLoneCRAux] at h
      | cons d r' =>
        simp only [noLoneCRAux, if_true, Bool.and_eq_true, beq_iff_eq] at h
        obtain ⟨hd, hr⟩ := h
        subst hd
        rw [crlfToLf_cr_lf, normNl_cr_lf,
          lemA (crlfToLf r') (noLone_of_noCR _ ((noCR_crlfToLf_aux r').1 hr)), norm_crlfToLf r' hr]
    · have hr : noLoneCRAux false r = true := by
        simp only [noLoneCRAux, Bool.false_eq_true, if_false] at h
        have : (c == '\r') = false := by simpa using hc
        rwa [this] at h
      rw [crlfToLf_cons_ne c r hc]
      by_cases hn : c = '\n'
      · subst hn
        rw [lemA (crlfToLf r) (noLone_of_noCR _ ((noCR_crlfToLf_aux r).1 hr)), lemA r hr, norm_crlfToLf r hr]
      · rw [normNl_other c _ hc hn, normNl_other c _ hc hn, norm_crlfToLf r hr]
termination_by b => b.length
decreasing_by all_goals (simp_all; try omega)

theorem norm_lfToCrlf (l : List Char) (h : noCR l = true) : normNl (lfToEol ['\r', '\n'] l) = normNl l := by
  induction l with
  | nil => rfl
  | cons c r ih =>
    rw [noCR_cons] at h
    simp only [Bool.and_eq_true, bne_iff_ne, ne_eq] at h
    simp only [lfToEol]
    by_cases hn : c = '\n'
    · subst hn
      simp only [beq_self_eq_true, if_true, List.cons_append, List.nil_append]
      rw [normNl_cr_lf, ih h.2, lemA r (noLone_of_noCR r h.2)]
    · have : (c == '\n') = false := by simpa using hn
      simp only [this, Bool.false_eq_true, if_false]
      rw [normNl_other c _ h.1 hn, normNl_other c _ h.1 hn, ih h.2]

/-- the value of a long-bracket string is unchanged by the formatter's line-ending conversion -/
theorem long_value (eol : List Char) (he : eol = ['\n'] ∨ eol = ['\r', '\n']) (b : List Char)
    (h : noLoneCR b = true) : decodeLong (rewriteLong eol b) = decodeLong b := by
  unfold decodeLong rewriteLong
  have h1 := norm_crlfToLf b h
  have h2 := (noCR_crlfToLf_aux b).1 h
  rcases he with he | he <;> subst he
  · rw [lfToEol_lf, h1]
  · rw [norm_lfToCrlf _ h2, h1]
end StyluaModel.LongLemmas
