/- Helper lemmas for the ignore-file theorems of Props/C17.lean -/
import StyluaModel.Model.Ignore
namespace StyluaModel.IgnoreLemmas
open StyluaModel.Ignore

theorem prefix_dropLast {a d : List Nat} (h : a <+: d) (hne : a ≠ d) : a <+: d.dropLast := by
  obtain ⟨t, rfl⟩ := h
  cases t with
  | nil => simp at hne
  | cons x xs =>
    have : (a ++ x :: xs).dropLast = a ++ (x :: xs).dropLast := by
      rw [List.dropLast_append_of_ne_nil]; simp
    rw [this]
    exact List.prefix_append _ _

theorem dropLast_prefix (d : List Nat) : d.dropLast <+: d := by
  induction d with
  | nil => exact List.prefix_refl _
  | cons x xs ih =>
    cases xs with
    | nil => simp
    | cons y ys => simpa [List.dropLast] using ih

/-- what `find_ignore_file_path` returns is a directory holding an ignore file, on the way up -/
theorem findIgnore_sound (w : World) (r : Bool) : ∀ (fuel : Nat) (d x : Path),
    findIgnore w r fuel d = some x → x ∈ w.ignoreDirs ∧ x <+: d := by
  intro fuel
  induction fuel with
  | zero =>
    intro d x h
    simp only [findIgnore] at h
    split at h
    · rename_i hc; cases h; exact ⟨by simpa using hc, List.prefix_refl _⟩
    · cases h
  | succ f ih =>
    intro d x h
    simp only [findIgnore] at h
    split at h
    · rename_i hc; cases h; exact ⟨by simpa using hc, List.prefix_refl _⟩
    · split at h
      · obtain ⟨h1, h2⟩ := ih _ _ h
        exact ⟨h1, List.IsPrefix.trans h2 (dropLast_prefix d)⟩
      · cases h

/-- … and with `--search-parent-directories` it is the nearest one -/
theorem findIgnore_nearest (w : World) : ∀ (fuel : Nat) (d x : Path), d.length ≤ fuel →
    findIgnore w true fuel d = some x → ∀ d' ∈ w.ignoreDirs, d' <+: d → d'.length ≤ x.length := by
  intro fuel
  induction fuel with
  | zero =>
    intro d x hl h d' hd' hp
    have : d = [] := by cases d <;> simp_all
    subst this
    have : d' = [] := by simpa using hp
    subst this
    simp
  | succ f ih =>
    intro d x hl h d' hd' hp
    simp only [findIgnore] at h
    split at h
    · cases h; exact hp.length_le
    · rename_i hc
      split at h
      · rename_i hr
        have hne : d' ≠ d := by
          intro he; subst he
          exact hc (by simpa using hd')
        have hl' : d.dropLast.length ≤ f := by simp; omega
        exact ih _ _ hl' h d' hd' (prefix_dropLast hp hne)
      · cases h

/-- without it only the directory's own file is looked at -/
theorem findIgnore_own (w : World) (fuel : Nat) (d x : Path) (h : findIgnore w false fuel d = some x) : x = d := by
  cases fuel <;> simp only [findIgnore] at h <;> split at h <;> simp_all

end StyluaModel.IgnoreLemmas
