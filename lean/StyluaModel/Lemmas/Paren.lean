/- Helper lemmas for Props/C05.lean (parenthesis decisions). -/
import StyluaModel.Model.ParenRule
import StyluaModel.Spec.Prec

namespace StyluaModel.ParenLemmas
open StyluaModel StyluaModel.ParenRule StyluaModel.Prec Expr

/-- every parenthesis drop that context `ctx` permits is harmless at position `p` -/
def dropOK (ctx : Ctx) (p : Pos) : Bool :=
  match p with
  | .top => true
  | .binL .caret => decide (ctx = .binLhsExp) || keepParens ctx
  | .assertOperand => keepParens ctx
  | _ => decide (ctx ≠ .std)   -- an operand is never formatted in the Standard context

theorem truncate_truncate (s : Sem) : truncate (truncate s) = truncate s := by
  cases s <;> rfl

/-- L3: an expression whose parentheses may be dropped is never open on the right -/
theorem checkExcess_not_rightOpen (e : Expr) (ctx : Ctx) (h : checkExcess e ctx = true) :
    rightOpen e = false := by
  induction e with
  | atom n => rfl
  | call n => simp [checkExcess] at h
  | varargs => simp [checkExcess] at h
  | paren e ih => rfl
  | un op e ih =>
    simp only [checkExcess] at h
    split at h
    · simp at h
    · split at h
      · simp at h
      · simpa [rightOpen] using ih h
  | bin op l r => simp [checkExcess] at h
  | assert e ih => rfl
  | ifx n => simp [checkExcess] at h

/-- L3': outside the Standard context it does not end in a type either -/
theorem checkExcess_not_endsWithType (e : Expr) (ctx : Ctx) (h : checkExcess e ctx = true)
    (hs : ctx ≠ .std) (hk : keepParens ctx = false) : endsWithType e = false := by
  induction e with
  | atom n => rfl
  | call n => simp [checkExcess] at h
  | varargs => simp [checkExcess] at h
  | paren e ih => rfl
  | un op e ih =>
    simp only [checkExcess] at h
    split at h
    · simp at h
    · split at h
      · simp at h
      · simpa [endsWithType] using ih h
  | bin op l r => simp [checkExcess] at h
  | assert e ih =>
    simp only [checkExcess] at h
    cases ctx <;> simp_all [keepParens]
  | ifx n => simp [checkExcess] at h

/-- L2: … and dropping them does not un-truncate anything -/
theorem checkExcess_sem (e : Expr) (ctx : Ctx) (h : checkExcess e ctx = true) :
    truncate (sem e) = sem e := by
  cases e with
  | atom n => rfl
  | call n => simp [checkExcess] at h
  | varargs => simp [checkExcess] at h
  | paren e => simp [sem, truncate_truncate]
  | un op e => rfl
  | bin op l r => simp [checkExcess] at h
  | assert e => rfl
  | ifx n => simp [checkExcess] at h

theorem prec_le_of_ne_caret (op : BinOp) (h : op ≠ .caret) : op.prec ≤ unPrec := by
  cases op <;> simp [BinOp.prec, unPrec] at *

theorem okAt_paren (p : Pos) (e : Expr) : okAt p (paren e) = true := by
  cases p <;> simp [okAt, rightOpen, endsWithType]

theorem okAt_atom (p : Pos) (n : Nat) : okAt p (atom n) = true := by
  cases p <;> simp [okAt, rightOpen, endsWithType]

theorem dropOK_binL_ne_std (ctx : Ctx) (o : BinOp) (hc : o ≠ .caret) (hd : dropOK ctx (.binL o) = true) :
    ctx ≠ .std := by
  cases o <;> simp_all [dropOK]

/-- L1: what a permitted drop exposes may stand bare at that position -/
theorem checkExcess_okAt (e : Expr) (ctx : Ctx) (p : Pos)
    (h : checkExcess e ctx = true) (hk : keepParens ctx = false) (hd : dropOK ctx p = true) :
    okAt p e = true := by
  cases e with
  | atom n => exact okAt_atom p n
  | call n => simp [checkExcess] at h
  | varargs => simp [checkExcess] at h
  | paren e => exact okAt_paren p e
  | bin op l r => simp [checkExcess] at h
  | ifx n => simp [checkExcess] at h
  | un op e =>
    have hro := checkExcess_not_rightOpen (un op e) ctx h
    cases p with
    | top => rfl
    | unOperand o => rfl
    | binR o => rfl
    | assertOperand => simp [dropOK, hk] at hd
    | binL o =>
      by_cases hc : o = .caret
      · subst hc
        simp [dropOK, hk] at hd
        simp [checkExcess, hd] at h
      · have het := checkExcess_not_endsWithType (un op e) ctx h (dropOK_binL_ne_std ctx o hc hd) hk
        simp [okAt, hro, het, prec_le_of_ne_caret o hc]
  | assert e =>
    cases p with
    | top => rfl
    | unOperand o => rfl
    | binR o => rfl
    | assertOperand => simp [dropOK, hk] at hd
    | binL o =>
      by_cases hc : o = .caret
      · subst hc
        simp [dropOK, hk] at hd
        simp [checkExcess, hd] at h
      · have hs := dropOK_binL_ne_std ctx o hc hd
        simp only [checkExcess] at h
        cases ctx <;> simp_all [keepParens]

/-- the `- -` guard of the unary arms -/
def guardS (op : UnOp) (e' : Expr) : Expr :=
  if op = .minus ∧ needsMinusGuard e' then paren e' else e'

theorem needsMinusGuard_of_isUnMinus (e : Expr) (h : Prec.isUnMinus e = true) : needsMinusGuard e = true := by
  cases e with
  | un op x => cases op <;> simp_all [Prec.isUnMinus, needsMinusGuard]
  | _ => simp [Prec.isUnMinus] at h

theorem sem_guardS (op : UnOp) (e' : Expr) : sem (guardS op e') = sem e' := by
  unfold guardS
  split
  · rename_i h
    obtain ⟨_, hg⟩ := h
    cases e' with
    | un o x => rfl
    | paren y =>
      cases y with
      | un o x => simp [sem, truncate]
      | _ => simp [needsMinusGuard] at hg
    | _ => simp [needsMinusGuard] at hg
  · rfl

/-- `r` is not more open at its right edge than `e` -/
def EdgeLe (r e : Expr) : Prop :=
  (rightOpen r = true → rightOpen e = true) ∧ (endsWithType r = true → endsWithType e = true)

theorem EdgeLe.refl (e : Expr) : EdgeLe e e := ⟨id, id⟩
theorem edgeLe_paren (r e : Expr) : EdgeLe (paren r) e := ⟨by simp [rightOpen], by simp [endsWithType]⟩
theorem edgeLe_un (op : UnOp) {r e : Expr} (h : EdgeLe r e) : EdgeLe (un op r) (un op e) :=
  ⟨by simpa [rightOpen] using h.1, by simpa [endsWithType] using h.2⟩
theorem edgeLe_bin (op : BinOp) (l l' : Expr) {r e : Expr} (h : EdgeLe r e) : EdgeLe (bin op l' r) (bin op l e) :=
  ⟨by simpa [rightOpen] using h.1, by simpa [endsWithType] using h.2⟩
theorem EdgeLe.trans {a b c : Expr} (h1 : EdgeLe a b) (h2 : EdgeLe b c) : EdgeLe a c :=
  ⟨fun h => h2.1 (h1.1 h), fun h => h2.2 (h1.2 h)⟩

theorem guardS_ok (op : UnOp) (e' : Expr) (hf : faithful e' = true) (hok : okAt (.unOperand op) e' = true) :
    okAt (.unOperand op) (guardS op e') = true ∧ minusClash op (guardS op e') = false ∧
    faithful (guardS op e') = true ∧ EdgeLe (guardS op e') e' := by
  unfold guardS
  split
  · refine ⟨okAt_paren _ _, ?_, by simpa [faithful] using hf, edgeLe_paren _ _⟩
    simp [minusClash, Prec.isUnMinus]
  · rename_i h
    refine ⟨hok, ?_, hf, EdgeLe.refl _⟩
    cases hc : minusClash op e'
    · rfl
    · simp [minusClash] at hc
      exact absurd ⟨hc.1, needsMinusGuard_of_isUnMinus e' hc.2⟩ h

/-- the invariant carried through both formatting paths. The edge clause is only claimed at
operand positions: at a delimited position nothing follows the expression. -/
def Good (p : Pos) (e r : Expr) : Prop :=
  faithful r = true ∧ okAt p r = true ∧ sem r = sem e ∧ (p ≠ .top → EdgeLe r e)

theorem dropOK_top (ctx : Ctx) : dropOK ctx .top = true := rfl
theorem dropOK_unOrBin_un (o : UnOp) : dropOK .unOrBin (.unOperand o) = true := by simp [dropOK]
theorem dropOK_unOrBin_binR (o : BinOp) : dropOK .unOrBin (.binR o) = true := by simp [dropOK]
theorem dropOK_lhsCtx (op : BinOp) : dropOK (lhsCtx op) (.binL op) = true := by
  cases op <;> simp [dropOK, lhsCtx]
theorem dropOK_tassert : dropOK .tassert .assertOperand = true := rfl

/-- okAt of a unary node depends only on the position and on the right edge -/
theorem okAt_un_mono (p : Pos) (op : UnOp) (e r : Expr)
    (h : okAt p (un op e) = true) (hro : EdgeLe r e) :
    okAt p (un op r) = true := by
  cases p with
  | top => rfl
  | unOperand o => rfl
  | binR o => rfl
  | assertOperand => simp [okAt] at h
  | binL o =>
    simp only [okAt, rightOpen, endsWithType, Bool.and_eq_true, Bool.not_eq_eq_eq_not, Bool.not_true,
      Bool.and_eq_false_imp] at h ⊢
    refine ⟨⟨?_, ?_⟩, h.2⟩
    · cases hr : rightOpen r
      · rfl
      · rw [hro.1 hr] at h; simp at h
    · intro ho
      cases hr : endsWithType r
      · rfl
      · have := h.1.2 ho; rw [hro.2 hr] at this; cases this

theorem okAt_bin_mono (p : Pos) (op : BinOp) (l r l' r' : Expr)
    (h : okAt p (bin op l r) = true) (hro : EdgeLe r' r) :
    okAt p (bin op l' r') = true := by
  cases p with
  | top => rfl
  | unOperand o => simpa [okAt] using h
  | binR o => simpa [okAt] using h
  | assertOperand => simp [okAt] at h
  | binL o =>
    simp only [okAt, rightOpen, endsWithType, Bool.and_eq_true, Bool.not_eq_eq_eq_not, Bool.not_true,
      Bool.and_eq_false_imp] at h ⊢
    refine ⟨⟨?_, ?_⟩, h.2⟩
    · cases hr : rightOpen r'
      · rfl
      · rw [hro.1 hr] at h; simp at h
    · intro ho
      cases hr : endsWithType r'
      · rfl
      · have := h.1.2 ho; rw [hro.2 hr] at this; cases this

theorem okAt_assert (p : Pos) (e r : Expr) (h : okAt p (assert e) = true) : okAt p (assert r) = true := by
  cases p <;> simp_all [okAt, rightOpen, endsWithType]

theorem fmtS_paren (ctx : Ctx) (e : Expr) :
    fmtS repaired ctx (paren e) =
      if checkExcess e ctx ∧ ¬ keepParens ctx then fmtS repaired ctx e else paren (fmtS repaired .std e) := by
  have h : repaired.ctxThroughDrop = true := rfl
  simp only [fmtS, h, if_true]

/-! ### constructor-level lemmas shared by the single-line and the hanging path -/

theorem good_atomlike (p : Pos) (e : Expr) (hf : faithful e = true) (hok : okAt p e = true) : Good p e e :=
  ⟨hf, hok, rfl, fun _ => EdgeLe.refl e⟩

theorem good_bin (p : Pos) (op : BinOp) (l r l' r' : Expr) (hok : okAt p (bin op l r) = true)
    (gl : Good (.binL op) l l') (gr : Good (.binR op) r r') : Good p (bin op l r) (bin op l' r') := by
  obtain ⟨l1, l2, l3, _⟩ := gl
  obtain ⟨r1, r2, r3, r4⟩ := gr
  have hr := r4 (by simp)
  exact ⟨by simp [faithful, l1, l2, r1, r2], okAt_bin_mono p op l r _ _ hok hr, by simp [sem, l3, r3],
    fun _ => edgeLe_bin op l l' hr⟩

theorem good_paren_keep (p : Pos) (e r : Expr) (g : Good .top e r) : Good p (paren e) (paren r) := by
  obtain ⟨g1, g2, g3, g4⟩ := g
  exact ⟨by simpa [faithful] using g1, okAt_paren _ _, by simp [sem, g3], fun _ => edgeLe_paren _ _⟩

theorem good_paren_drop (p : Pos) (ctx : Ctx) (e r : Expr) (hce : checkExcess e ctx = true)
    (hk : keepParens ctx = false) (hd : dropOK ctx p = true)
    (g : Good p e r) : Good p (paren e) r := by
  obtain ⟨g1, g2, g3, g4⟩ := g
  refine ⟨g1, g2, ?_, ?_⟩
  · rw [g3]; simp [sem, checkExcess_sem e ctx hce]
  · intro hp
    have h4 := g4 hp
    have hs : ctx ≠ .std := by
      cases p with
      | top => exact absurd rfl hp
      | binL o =>
        by_cases hc : o = .caret
        · subst hc; simp [dropOK, hk] at hd; simp [hd]
        · exact dropOK_binL_ne_std ctx o hc hd
      | assertOperand => simp [dropOK, hk] at hd
      | unOperand o => simpa [dropOK] using hd
      | binR o => simpa [dropOK] using hd
    constructor
    · intro hr; have := h4.1 hr; rw [checkExcess_not_rightOpen e ctx hce] at this; cases this
    · intro hr; have := h4.2 hr; rw [checkExcess_not_endsWithType e ctx hce hs hk] at this; cases this

theorem good_assert (p : Pos) (e r : Expr) (hok : okAt p (assert e) = true)
    (g : Good .assertOperand e r) : Good p (assert e) (assert r) := by
  obtain ⟨g1, g2, g3, g4⟩ := g
  exact ⟨by simp [faithful, g1, g2], okAt_assert p e _ hok, by simp [sem, g3],
    fun _ => ⟨by simp [rightOpen], by simp [endsWithType]⟩⟩

theorem isUnMinus_eq (e : Expr) : ParenRule.isUnMinus e = Prec.isUnMinus e := by
  cases e with
  | un op x => cases op <;> rfl
  | _ => rfl

/-- a unary node whose operand is wrapped whenever it would clash (`w` may wrap more often) -/
theorem good_un (p : Pos) (op : UnOp) (e r : Expr) (w : Bool) (hok : okAt p (un op e) = true)
    (hw : minusClash op r = true → w = true) (hws : w = true → truncate (sem r) = sem r)
    (g : Good (.unOperand op) e r) : Good p (un op e) (un op (if w then paren r else r)) := by
  obtain ⟨g1, g2, g3, g4⟩ := g
  have hedge := g4 (by simp)
  cases w with
  | true =>
    simp only [if_true]
    have he : EdgeLe (paren r) e := edgeLe_paren _ _
    refine ⟨by simp [faithful, okAt_paren, minusClash, Prec.isUnMinus, g1], ?_, ?_, fun _ => edgeLe_un op he⟩
    · exact okAt_un_mono p op e _ hok he
    · have := hws rfl
      rw [g3] at this
      simp [sem, this, g3]
  | false =>
    have hc : minusClash op r = false := by
      cases h : minusClash op r
      · rfl
      · exact absurd (hw h) (by simp)
    refine ⟨by simp [faithful, g1, g2, hc], okAt_un_mono p op e _ hok hedge, by simp [sem, g3],
      fun _ => edgeLe_un op hedge⟩

theorem truncate_sem_of_needsGuard (r : Expr) (h : needsMinusGuard r = true) : truncate (sem r) = sem r := by
  cases r with
  | un op x => rfl
  | paren y =>
    cases y with
    | un o x => simp [sem, truncate]
    | _ => simp [needsMinusGuard] at h
  | _ => simp [needsMinusGuard] at h

theorem fmtS_un_eq (ctx : Ctx) (op : UnOp) (e : Expr) :
    fmtS repaired ctx (un op e) =
      un op (if (decide (op = .minus) && needsMinusGuard (fmtS repaired .unOrBin e))
             then paren (fmtS repaired .unOrBin e) else fmtS repaired .unOrBin e) := by
  simp only [fmtS]
  by_cases h1 : op = .minus <;> cases h2 : needsMinusGuard (fmtS repaired .unOrBin e) <;> simp [h1]

theorem fmtS_good (e : Expr) : ∀ (ctx : Ctx) (p : Pos), dropOK ctx p = true → faithful e = true →
    okAt p e = true → Good p e (fmtS repaired ctx e) := by
  induction e with
  | atom n => intro ctx p _ hf hok; exact good_atomlike p _ hf hok
  | call n => intro ctx p _ hf hok; exact good_atomlike p _ hf hok
  | varargs => intro ctx p _ hf hok; exact good_atomlike p _ hf hok
  | ifx n => intro ctx p _ hf hok; exact good_atomlike p _ hf hok
  | paren e ih =>
    intro ctx p hd hf hok
    have hfe : faithful e = true := by simpa [faithful] using hf
    rw [fmtS_paren]
    split
    · rename_i hdrop
      obtain ⟨hce, hk⟩ := hdrop
      have hk' : keepParens ctx = false := by simpa using hk
      exact good_paren_drop p ctx e _ hce hk' hd (ih ctx p hd hfe (checkExcess_okAt e ctx p hce hk' hd))
    · exact good_paren_keep p e _ (ih .std .top rfl hfe rfl)
  | un op e ih =>
    intro ctx p hd hf hok
    have hf' := hf
    simp only [faithful, Bool.and_eq_true, Bool.not_eq_eq_eq_not, Bool.not_true] at hf'
    obtain ⟨⟨ho, _⟩, hfe⟩ := hf'
    rw [fmtS_un_eq]
    refine good_un p op e _ _ hok ?_ ?_ (ih .unOrBin (.unOperand op) (dropOK_unOrBin_un op) hfe ho)
    · intro hc
      simp only [minusClash, Bool.and_eq_true, beq_iff_eq] at hc
      simp [hc.1, needsMinusGuard_of_isUnMinus _ hc.2]
    · intro hw
      simp only [Bool.and_eq_true] at hw
      exact truncate_sem_of_needsGuard _ hw.2
  | bin op l r ihl ihr =>
    intro ctx p hd hf hok
    have hf' := hf
    simp only [faithful, Bool.and_eq_true] at hf'
    obtain ⟨⟨⟨hol, hor⟩, hfl⟩, hfr⟩ := hf'
    simp only [fmtS]
    exact good_bin p op l r _ _ hok (ihl (lhsCtx op) (.binL op) (dropOK_lhsCtx op) hfl hol)
      (ihr .unOrBin (.binR op) (dropOK_unOrBin_binR op) hfr hor)
  | assert e ih =>
    intro ctx p hd hf hok
    have hf' := hf
    simp only [faithful, Bool.and_eq_true] at hf'
    simp only [fmtS]
    exact good_assert p e _ hok (ih .tassert .assertOperand rfl hf'.2 hf'.1)

theorem truncate_sem_of_isUnMinus (r : Expr) (h : ParenRule.isUnMinus r = true) : truncate (sem r) = sem r := by
  cases r with
  | un op x => rfl
  | _ => simp [ParenRule.isUnMinus] at h

theorem fmtH_un_eq (o : Oracle) (ctx : Ctx) (op : UnOp) (e : Expr) :
    fmtH repaired o ctx (un op e) =
      un op (if (decide (op = .minus) && ParenRule.isUnMinus (fmtH repaired o.l .unOrBin e))
             then paren (fmtH repaired o.l .unOrBin e) else fmtH repaired o.l .unOrBin e) := by
  have h : repaired.hangMinusGuard = true := rfl
  simp only [fmtH, h, true_and]
  by_cases h1 : op = .minus <;> cases h2 : ParenRule.isUnMinus (fmtH repaired o.l .unOrBin e) <;> simp [h1]

theorem hangBin_un_eq (o : Oracle) (ctx : Ctx) (op : UnOp) (e : Expr) :
    hangBin repaired o ctx (un op e) = fmtH repaired o ctx (un op e) := by
  simp only [fmtH, hangBin]
theorem hangBin_paren_eq (o : Oracle) (ctx : Ctx) (e : Expr) :
    hangBin repaired o ctx (paren e) = fmtH repaired o ctx (paren e) := by
  simp only [fmtH, hangBin]
theorem hangBin_assert_eq (o : Oracle) (ctx : Ctx) (e : Expr) :
    hangBin repaired o ctx (assert e) = fmtH repaired o ctx (assert e) := by
  simp only [fmtH, hangBin]

def hctx (op : BinOp) (ctx : Ctx) : Ctx := if op = .caret then .binLhsExp else ctx

theorem dropOK_hctx (op : BinOp) (ctx : Ctx) (hs : ctx ≠ .std) : dropOK (hctx op ctx) (.binL op) = true := by
  cases op <;> simp [dropOK, hctx, hs]

theorem hctx_ne_std (op : BinOp) (ctx : Ctx) (hs : ctx ≠ .std) : hctx op ctx ≠ .std := by
  unfold hctx; split <;> simp [hs]

theorem fmtH_bin_eq (o : Oracle) (ctx : Ctx) (op : BinOp) (l r : Expr) :
    fmtH repaired o ctx (bin op l r) =
      bin op (hangBin repaired o.l (hctx op .unOrBin) l) (hangBin repaired o.r .unOrBin r) := by
  have h : repaired.hangLhsExp = true := rfl
  have h2 : repaired.hangRhsOperand = true := rfl
  simp only [fmtH, h, h2, true_and, hctx, if_true]

/-- both hanging functions, by one structural induction. `hangBin` descends into operands
with the context it was given, so that context must not be Standard. -/
theorem hang_good (e : Expr) :
    (∀ (o : Oracle) (ctx : Ctx) (p : Pos), dropOK ctx p = true → faithful e = true → okAt p e = true →
      Good p e (fmtH repaired o ctx e)) ∧
    (∀ (o : Oracle) (ctx : Ctx) (p : Pos), ctx ≠ .std → dropOK ctx p = true → faithful e = true → okAt p e = true →
      Good p e (hangBin repaired o ctx e)) := by
  induction e with
  | atom n => exact ⟨fun o ctx p _ hf hok => good_atomlike p _ hf hok, fun o ctx p _ _ hf hok => good_atomlike p _ hf hok⟩
  | call n => exact ⟨fun o ctx p _ hf hok => good_atomlike p _ hf hok, fun o ctx p _ _ hf hok => good_atomlike p _ hf hok⟩
  | varargs => exact ⟨fun o ctx p _ hf hok => good_atomlike p _ hf hok, fun o ctx p _ _ hf hok => good_atomlike p _ hf hok⟩
  | ifx n => exact ⟨fun o ctx p _ hf hok => good_atomlike p _ hf hok, fun o ctx p _ _ hf hok => good_atomlike p _ hf hok⟩
  | paren e ih =>
    have main : ∀ (o : Oracle) (ctx : Ctx) (p : Pos), dropOK ctx p = true → faithful (paren e) = true →
        okAt p (paren e) = true → Good p (paren e) (fmtH repaired o ctx (paren e)) := by
      intro o ctx p hd hf hok
      have hfe : faithful e = true := by simpa [faithful] using hf
      simp only [fmtH]
      split
      · rename_i hdrop
        obtain ⟨hce, hk⟩ := hdrop
        have hk' : keepParens ctx = false := by simpa using hk
        exact good_paren_drop p ctx e _ hce hk' hd (ih.1 o.l ctx p hd hfe (checkExcess_okAt e ctx p hce hk' hd))
      · split
        · exact good_paren_keep p e _ (fmtS_good e .std .top rfl hfe rfl)
        · exact good_paren_keep p e _ (ih.1 o.l .std .top rfl hfe rfl)
    exact ⟨main, fun o ctx p _ hd hf hok => by rw [hangBin_paren_eq]; exact main o ctx p hd hf hok⟩
  | un op e ih =>
    have main : ∀ (o : Oracle) (ctx : Ctx) (p : Pos), dropOK ctx p = true → faithful (un op e) = true →
        okAt p (un op e) = true → Good p (un op e) (fmtH repaired o ctx (un op e)) := by
      intro o ctx p hd hf hok
      have hf' := hf
      simp only [faithful, Bool.and_eq_true, Bool.not_eq_eq_eq_not, Bool.not_true] at hf'
      obtain ⟨⟨ho, _⟩, hfe⟩ := hf'
      rw [fmtH_un_eq]
      refine good_un p op e _ _ hok ?_ ?_ (ih.1 o.l .unOrBin (.unOperand op) (dropOK_unOrBin_un op) hfe ho)
      · intro hc
        simp only [minusClash, Bool.and_eq_true, beq_iff_eq] at hc
        simp [hc.1, isUnMinus_eq, hc.2]
      · intro hw
        simp only [Bool.and_eq_true] at hw
        exact truncate_sem_of_isUnMinus _ hw.2
    exact ⟨main, fun o ctx p _ hd hf hok => by rw [hangBin_un_eq]; exact main o ctx p hd hf hok⟩
  | assert e ih =>
    have main : ∀ (o : Oracle) (ctx : Ctx) (p : Pos), dropOK ctx p = true → faithful (assert e) = true →
        okAt p (assert e) = true → Good p (assert e) (fmtH repaired o ctx (assert e)) := by
      intro o ctx p hd hf hok
      have hf' := hf
      simp only [faithful, Bool.and_eq_true] at hf'
      simp only [fmtH]
      exact good_assert p e _ hok (ih.1 o.l .tassert .assertOperand rfl hf'.2 hf'.1)
    exact ⟨main, fun o ctx p _ hd hf hok => by rw [hangBin_assert_eq]; exact main o ctx p hd hf hok⟩
  | bin op l r ihl ihr =>
    constructor
    · intro o ctx p hd hf hok
      have hf' := hf
      simp only [faithful, Bool.and_eq_true] at hf'
      obtain ⟨⟨⟨hol, hor⟩, hfl⟩, hfr⟩ := hf'
      rw [fmtH_bin_eq]
      exact good_bin p op l r _ _ hok
        (ihl.2 o.l _ (.binL op) (hctx_ne_std op _ (by decide)) (dropOK_hctx op _ (by decide)) hfl hol)
        (ihr.2 o.r .unOrBin (.binR op) (by decide) (dropOK_unOrBin_binR op) hfr hor)
    · intro o ctx p hs hd hf hok
      have hf' := hf
      simp only [faithful, Bool.and_eq_true] at hf'
      obtain ⟨⟨⟨hol, hor⟩, hfl⟩, hfr⟩ := hf'
      have h : repaired.hangLhsExp = true := rfl
      have ghl := ihl.2 o.l (hctx op ctx) (.binL op) (hctx_ne_std op ctx hs) (dropOK_hctx op _ hs) hfl hol
      have ghr := ihr.2 o.r ctx (.binR op) hs (by simp [dropOK, hs]) hfr hor
      have gsl := fmtS_good l (lhsCtx op) (.binL op) (dropOK_lhsCtx op) hfl hol
      have gsr := fmtS_good r .unOrBin (.binR op) (dropOK_unOrBin_binR op) hfr hor
      simp only [hangBin, h, true_and]
      change Good p (bin op l r) (if o.hang = true then
          if op.rassoc = true then bin op (if o.cl = true then hangBin repaired o.l (hctx op ctx) l else fmtS repaired (lhsCtx op) l) (hangBin repaired o.r ctx r)
          else bin op (hangBin repaired o.l (hctx op ctx) l) (if o.cr = true then hangBin repaired o.r ctx r else fmtS repaired .unOrBin r)
        else bin op (if o.cl = true then hangBin repaired o.l (hctx op ctx) l else fmtS repaired (lhsCtx op) l)
                    (if o.cr = true then hangBin repaired o.r ctx r else fmtS repaired .unOrBin r))
      split
      · split
        · split <;> exact good_bin p op l r _ _ hok (by assumption) ghr
        · split <;> exact good_bin p op l r _ _ hok ghl (by assumption)
      · split <;> split <;> exact good_bin p op l r _ _ hok (by assumption) (by assumption)

end StyluaModel.ParenLemmas
