/- Helper lemmas for Props/C05.lean (parenthesis decisions). -/
import StyluaModel.Model.ParenRule
import StyluaModel.Spec.Prec

namespace StyluaModel.ParenLemmas
open StyluaModel StyluaModel.ParenRule StyluaModel.Prec Expr

/-- every parenthesis drop that context `ctx` permits is harmless at position `p` -/
def dropOK (ctx : Ctx) (p : Pos) : Bool :=
  match p with
  | .binL .caret => decide (ctx = .binLhsExp) || keepParens ctx
  | .assertOperand => keepParens ctx
  | _ => true

theorem truncate_truncate (s : Sem) : truncate (truncate s) = truncate s := by
  cases s <;> rfl

/-- L3: an expression whose parentheses may be dropped is never open on the right -/
theorem checkExcess_not_rightOpen (e : Expr) (ctx : Ctx) (h : checkExcess e ctx = true) :
    rightOpen e = false := by
  induction e with
  | atom n => rfl
  | call n => simp [checkExcess] at h
  | varargs => simp [checkExcess] at h
  | paren e ih => rfl
  | un op e ih =>
    simp only [checkExcess] at h
    split at h
    · simp at h
    · split at h
      · simp at h
      · simpa [rightOpen] using ih h
  | bin op l r => simp [checkExcess] at h
  | assert e ih => rfl
  | ifx n => simp [checkExcess] at h

/-- L2: … and dropping them does not un-truncate anything -/
theorem checkExcess_sem (e : Expr) (ctx : Ctx) (h : checkExcess e ctx = true) :
    truncate (sem e) = sem e := by
  cases e with
  | atom n => rfl
  | call n => simp [checkExcess] at h
  | varargs => simp [checkExcess] at h
  | paren e => simp [sem, truncate_truncate]
  | un op e => rfl
  | bin op l r => simp [checkExcess] at h
  | assert e => rfl
  | ifx n => simp [checkExcess] at h

theorem prec_le_of_ne_caret (op : BinOp) (h : op ≠ .caret) : op.prec ≤ unPrec := by
  cases op <;> simp [BinOp.prec, unPrec] at * 

theorem okAt_paren (p : Pos) (e : Expr) : okAt p (paren e) = true := by
  cases p <;> simp [okAt, rightOpen]

theorem okAt_atom (p : Pos) (n : Nat) : okAt p (atom n) = true := by
  cases p <;> simp [okAt, rightOpen]

/-- L1: what a permitted drop exposes may stand bare at that position -/
theorem checkExcess_okAt (e : Expr) (ctx : Ctx) (p : Pos)
    (h : checkExcess e ctx = true) (hk : keepParens ctx = false) (hd : dropOK ctx p = true) :
    okAt p e = true := by
  cases e with
  | atom n => exact okAt_atom p n
  | call n => simp [checkExcess] at h
  | varargs => simp [checkExcess] at h
  | paren e => exact okAt_paren p e
  | bin op l r => simp [checkExcess] at h
  | ifx n => simp [checkExcess] at h
  | un op e =>
    have hro := checkExcess_not_rightOpen (un op e) ctx h
    simp only [checkExcess] at h
    cases p with
    | top => rfl
    | unOperand o => rfl
    | binR o => rfl
    | assertOperand => simp [dropOK, hk] at hd
    | binL o =>
      by_cases hc : o = .caret
      · subst hc
        simp [dropOK, hk] at hd
        simp [hd] at h
      · simp [okAt, hro, prec_le_of_ne_caret o hc]
  | assert e =>
    simp only [checkExcess] at h
    cases p with
    | top => rfl
    | unOperand o => rfl
    | binR o => rfl
    | assertOperand => simp [dropOK, hk] at hd
    | binL o =>
      by_cases hc : o = .caret
      · subst hc
        simp [dropOK, hk] at hd
        simp [hd] at h
      · simp [okAt, rightOpen]

/-- the `- -` guard of the unary arms -/
def guardS (op : UnOp) (e' : Expr) : Expr :=
  if op = .minus ∧ needsMinusGuard e' then paren e' else e'

theorem needsMinusGuard_of_isUnMinus (e : Expr) (h : Prec.isUnMinus e = true) : needsMinusGuard e = true := by
  cases e with
  | un op x => cases op <;> simp_all [Prec.isUnMinus, needsMinusGuard]
  | _ => simp [Prec.isUnMinus] at h

theorem sem_guardS (op : UnOp) (e' : Expr) : sem (guardS op e') = sem e' := by
  unfold guardS
  split
  · rename_i h
    obtain ⟨_, hg⟩ := h
    cases e' with
    | un o x => rfl
    | paren y =>
      cases y with
      | un o x => simp [sem, truncate]
      | _ => simp [needsMinusGuard] at hg
    | _ => simp [needsMinusGuard] at hg
  · rfl

theorem guardS_ok (op : UnOp) (e' : Expr) (hf : faithful e' = true) (hok : okAt (.unOperand op) e' = true) :
    okAt (.unOperand op) (guardS op e') = true ∧ minusClash op (guardS op e') = false ∧
    faithful (guardS op e') = true ∧ (rightOpen (guardS op e') = true → rightOpen e' = true) := by
  unfold guardS
  split
  · refine ⟨okAt_paren _ _, ?_, by simpa [faithful] using hf, by simp [rightOpen]⟩
    simp [minusClash, Prec.isUnMinus]
  · rename_i h
    refine ⟨hok, ?_, hf, id⟩
    cases hc : minusClash op e'
    · rfl
    · simp [minusClash] at hc
      exact absurd ⟨hc.1, needsMinusGuard_of_isUnMinus e' hc.2⟩ h


def Good (p : Pos) (e r : Expr) : Prop :=
  faithful r = true ∧ okAt p r = true ∧ sem r = sem e ∧ (rightOpen r = true → rightOpen e = true)

theorem dropOK_top (ctx : Ctx) : dropOK ctx .top = true := rfl
theorem dropOK_unOperand (ctx : Ctx) (o : UnOp) : dropOK ctx (.unOperand o) = true := rfl
theorem dropOK_binR (ctx : Ctx) (o : BinOp) : dropOK ctx (.binR o) = true := rfl
theorem dropOK_lhsCtx (op : BinOp) : dropOK (lhsCtx op) (.binL op) = true := by
  cases op <;> simp [dropOK, lhsCtx]
theorem dropOK_tassert : dropOK .tassert .assertOperand = true := rfl

/-- okAt of a unary node depends only on the position and on right-openness -/
theorem okAt_un_mono (p : Pos) (op : UnOp) (e r : Expr)
    (h : okAt p (un op e) = true) (hro : rightOpen r = true → rightOpen e = true) :
    okAt p (un op r) = true := by
  cases p with
  | top => rfl
  | unOperand o => rfl
  | binR o => rfl
  | assertOperand => simp [okAt] at h
  | binL o =>
    simp [okAt, rightOpen] at h ⊢
    refine ⟨?_, h.2⟩
    cases hr : rightOpen r
    · rfl
    · rw [hro hr] at h; simp at h

theorem okAt_bin_mono (p : Pos) (op : BinOp) (l r l' r' : Expr)
    (h : okAt p (bin op l r) = true) (hro : rightOpen r' = true → rightOpen r = true) :
    okAt p (bin op l' r') = true := by
  cases p with
  | top => rfl
  | unOperand o => simpa [okAt] using h
  | binR o => simpa [okAt] using h
  | assertOperand => simp [okAt] at h
  | binL o =>
    simp only [okAt, rightOpen, Bool.and_eq_true, Bool.not_eq_eq_eq_not, Bool.not_true] at h ⊢
    refine ⟨?_, h.2⟩
    cases hr : rightOpen r'
    · rfl
    · rw [hro hr] at h; simp at h

theorem okAt_assert (p : Pos) (e r : Expr) (h : okAt p (assert e) = true) : okAt p (assert r) = true := by
  cases p <;> simp_all [okAt, rightOpen]

theorem fmtS_paren (ctx : Ctx) (e : Expr) :
    fmtS repaired ctx (paren e) =
      if checkExcess e ctx ∧ ¬ keepParens ctx then fmtS repaired ctx e else paren (fmtS repaired .std e) := by
  have h : repaired.ctxThroughDrop = true := rfl
  simp only [fmtS, h, if_true]

theorem fmtS_good (e : Expr) : ∀ (ctx : Ctx) (p : Pos), dropOK ctx p = true → faithful e = true →
    okAt p e = true → Good p e (fmtS repaired ctx e) := by
  induction e with
  | atom n => intro ctx p _ hf hok; exact ⟨hf, hok, rfl, id⟩
  | call n => intro ctx p _ hf hok; exact ⟨hf, hok, rfl, id⟩
  | varargs => intro ctx p _ hf hok; exact ⟨hf, hok, rfl, id⟩
  | ifx n => intro ctx p _ hf hok; exact ⟨hf, hok, rfl, id⟩
  | paren e ih =>
    intro ctx p hd hf hok
    have hfe : faithful e = true := by simpa [faithful] using hf
    rw [fmtS_paren]
    split
    · rename_i hdrop
      obtain ⟨hce, hk⟩ := hdrop
      have hk' : keepParens ctx = false := by simpa using hk
      have hoke := checkExcess_okAt e ctx p hce hk' hd
      obtain ⟨g1, g2, g3, g4⟩ := ih ctx p hd hfe hoke
      refine ⟨g1, g2, ?_, ?_⟩
      · rw [g3]; simp [sem, checkExcess_sem e ctx hce]
      · intro hr; have := g4 hr; rw [checkExcess_not_rightOpen e ctx hce] at this; cases this
    · obtain ⟨g1, g2, g3, g4⟩ := ih .std .top rfl hfe rfl
      refine ⟨by simpa [faithful] using g1, okAt_paren _ _, by simp [sem, g3], by simp [rightOpen]⟩
  | un op e ih =>
    intro ctx p hd hf hok
    simp only [faithful, Bool.and_eq_true, Bool.not_eq_eq_eq_not, Bool.not_true] at hf
    obtain ⟨⟨ho, _⟩, hfe⟩ := hf
    obtain ⟨g1, g2, g3, g4⟩ := ih .unOrBin (.unOperand op) rfl hfe ho
    have hg := guardS_ok op (fmtS repaired .unOrBin e) g1 g2
    have : fmtS repaired ctx (un op e) = un op (guardS op (fmtS repaired .unOrBin e)) := by
      simp only [fmtS, guardS]; split <;> rfl
    rw [this]
    obtain ⟨k1, k2, k3, k4⟩ := hg
    refine ⟨by simp [faithful, k1, k2, k3], ?_, by simp [sem, sem_guardS, g3], ?_⟩
    · exact okAt_un_mono p op e _ hok (fun h => g4 (k4 h))
    · simp only [rightOpen]; exact fun h => g4 (k4 h)
  | bin op l r ihl ihr =>
    intro ctx p hd hf hok
    simp only [faithful, Bool.and_eq_true] at hf
    obtain ⟨⟨⟨hol, hor⟩, hfl⟩, hfr⟩ := hf
    obtain ⟨l1, l2, l3, l4⟩ := ihl (lhsCtx op) (.binL op) (dropOK_lhsCtx op) hfl hol
    obtain ⟨r1, r2, r3, r4⟩ := ihr .unOrBin (.binR op) rfl hfr hor
    simp only [fmtS]
    refine ⟨by simp [faithful, l1, l2, r1, r2], ?_, by simp [sem, l3, r3], by simpa [rightOpen] using r4⟩
    exact okAt_bin_mono p op l r _ _ hok r4
  | assert e ih =>
    intro ctx p hd hf hok
    simp only [faithful, Bool.and_eq_true] at hf
    obtain ⟨ho, hfe⟩ := hf
    obtain ⟨g1, g2, g3, g4⟩ := ih .tassert .assertOperand rfl hfe ho
    simp only [fmtS]
    exact ⟨by simp [faithful, g1, g2], okAt_assert p e _ hok, by simp [sem, g3], by simp [rightOpen]⟩

/-! ### constructor-level lemmas shared by the single-line and the hanging path -/

theorem good_atomlike (p : Pos) (e : Expr) (hf : faithful e = true) (hok : okAt p e = true) : Good p e e :=
  ⟨hf, hok, rfl, id⟩

theorem good_bin (p : Pos) (op : BinOp) (l r l' r' : Expr) (hok : okAt p (bin op l r) = true)
    (gl : Good (.binL op) l l') (gr : Good (.binR op) r r') : Good p (bin op l r) (bin op l' r') := by
  obtain ⟨l1, l2, l3, l4⟩ := gl
  obtain ⟨r1, r2, r3, r4⟩ := gr
  exact ⟨by simp [faithful, l1, l2, r1, r2], okAt_bin_mono p op l r _ _ hok r4, by simp [sem, l3, r3],
    by simpa [rightOpen] using r4⟩

theorem good_paren_keep (p : Pos) (e r : Expr) (g : Good .top e r) : Good p (paren e) (paren r) := by
  obtain ⟨g1, g2, g3, g4⟩ := g
  exact ⟨by simpa [faithful] using g1, okAt_paren _ _, by simp [sem, g3], by simp [rightOpen]⟩

theorem good_paren_drop (p : Pos) (ctx : Ctx) (e r : Expr) (hce : checkExcess e ctx = true)
    (g : Good p e r) : Good p (paren e) r := by
  obtain ⟨g1, g2, g3, g4⟩ := g
  refine ⟨g1, g2, ?_, ?_⟩
  · rw [g3]; simp [sem, checkExcess_sem e ctx hce]
  · intro hr; have := g4 hr; rw [checkExcess_not_rightOpen e ctx hce] at this; cases this

theorem good_assert (p : Pos) (e r : Expr) (hok : okAt p (assert e) = true)
    (g : Good .assertOperand e r) : Good p (assert e) (assert r) := by
  obtain ⟨g1, g2, g3, g4⟩ := g
  exact ⟨by simp [faithful, g1, g2], okAt_assert p e _ hok, by simp [sem, g3], by simp [rightOpen]⟩

theorem isUnMinus_eq (e : Expr) : ParenRule.isUnMinus e = Prec.isUnMinus e := by
  cases e with
  | un op x => cases op <;> rfl
  | _ => rfl

/-- a unary node whose operand is wrapped whenever it would clash (`w` may wrap more often) -/
theorem good_un (p : Pos) (op : UnOp) (e r : Expr) (w : Bool) (hok : okAt p (un op e) = true)
    (hw : minusClash op r = true → w = true) (hws : w = true → truncate (sem r) = sem r)
    (g : Good (.unOperand op) e r) : Good p (un op e) (un op (if w then paren r else r)) := by
  obtain ⟨g1, g2, g3, g4⟩ := g
  cases w with
  | true =>
    simp only [if_true]
    refine ⟨by simp [faithful, okAt_paren, minusClash, Prec.isUnMinus, g1], ?_, ?_, by simp [rightOpen]⟩
    · exact okAt_un_mono p op e _ hok (by simp [rightOpen])
    · have := hws rfl
      rw [g3] at this
      simp [sem, this, g3]
  | false =>
    have hc : minusClash op r = false := by
      cases h : minusClash op r
      · rfl
      · exact absurd (hw h) (by simp)
    refine ⟨by simp [faithful, g1, g2, hc], okAt_un_mono p op e _ hok g4, by simp [sem, g3],
      by simpa [rightOpen] using g4⟩

theorem truncate_sem_of_isUnMinus (r : Expr) (h : ParenRule.isUnMinus r = true) : truncate (sem r) = sem r := by
  cases r with
  | un op x => rfl
  | _ => simp [ParenRule.isUnMinus] at h

theorem fmtH_un_eq (o : Oracle) (ctx : Ctx) (op : UnOp) (e : Expr) :
    fmtH repaired o ctx (un op e) =
      un op (if (decide (op = .minus) && ParenRule.isUnMinus (fmtH repaired o.l .unOrBin e))
             then paren (fmtH repaired o.l .unOrBin e) else fmtH repaired o.l .unOrBin e) := by
  have h : repaired.hangMinusGuard = true := rfl
  simp only [fmtH, h, true_and]
  by_cases h1 : op = .minus <;> cases h2 : ParenRule.isUnMinus (fmtH repaired o.l .unOrBin e) <;> simp [h1]

theorem hangBin_un_eq (o : Oracle) (ctx : Ctx) (op : UnOp) (e : Expr) :
    hangBin repaired o ctx (un op e) = fmtH repaired o ctx (un op e) := by
  simp only [fmtH, hangBin]
theorem hangBin_paren_eq (o : Oracle) (ctx : Ctx) (e : Expr) :
    hangBin repaired o ctx (paren e) = fmtH repaired o ctx (paren e) := by
  simp only [fmtH, hangBin]
theorem hangBin_assert_eq (o : Oracle) (ctx : Ctx) (e : Expr) :
    hangBin repaired o ctx (assert e) = fmtH repaired o ctx (assert e) := by
  simp only [fmtH, hangBin]

def hctx (op : BinOp) (ctx : Ctx) : Ctx := if op = .caret then .binLhsExp else ctx

theorem dropOK_hctx (op : BinOp) (ctx : Ctx) : dropOK (hctx op ctx) (.binL op) = true := by
  cases op <;> simp [dropOK, hctx]

theorem fmtH_bin_eq (o : Oracle) (ctx : Ctx) (op : BinOp) (l r : Expr) :
    fmtH repaired o ctx (bin op l r) =
      bin op (hangBin repaired o.l (hctx op .unOrBin) l) (hangBin repaired o.r .std r) := by
  have h : repaired.hangLhsExp = true := rfl
  simp only [fmtH, h, true_and, hctx]

theorem hang_good (e : Expr) :
    (∀ (o : Oracle) (ctx : Ctx) (p : Pos), dropOK ctx p = true → faithful e = true → okAt p e = true →
      Good p e (fmtH repaired o ctx e)) ∧
    (∀ (o : Oracle) (ctx : Ctx) (p : Pos), dropOK ctx p = true → faithful e = true → okAt p e = true →
      Good p e (hangBin repaired o ctx e)) := by
  induction e with
  | atom n => exact ⟨fun o ctx p _ hf hok => good_atomlike p _ hf hok, fun o ctx p _ hf hok => good_atomlike p _ hf hok⟩
  | call n => exact ⟨fun o ctx p _ hf hok => good_atomlike p _ hf hok, fun o ctx p _ hf hok => good_atomlike p _ hf hok⟩
  | varargs => exact ⟨fun o ctx p _ hf hok => good_atomlike p _ hf hok, fun o ctx p _ hf hok => good_atomlike p _ hf hok⟩
  | ifx n => exact ⟨fun o ctx p _ hf hok => good_atomlike p _ hf hok, fun o ctx p _ hf hok => good_atomlike p _ hf hok⟩
  | paren e ih =>
    have main : ∀ (o : Oracle) (ctx : Ctx) (p : Pos), dropOK ctx p = true → faithful (paren e) = true →
        okAt p (paren e) = true → Good p (paren e) (fmtH repaired o ctx (paren e)) := by
      intro o ctx p hd hf hok
      have hfe : faithful e = true := by simpa [faithful] using hf
      simp only [fmtH]
      split
      · rename_i hdrop
        obtain ⟨hce, hk⟩ := hdrop
        have hk' : keepParens ctx = false := by simpa using hk
        exact good_paren_drop p ctx e _ hce (ih.1 o.l ctx p hd hfe (checkExcess_okAt e ctx p hce hk' hd))
      · split
        · exact good_paren_keep p e _ (fmtS_good e .std .top rfl hfe rfl)
        · exact good_paren_keep p e _ (ih.1 o.l .std .top rfl hfe rfl)
    exact ⟨main, fun o ctx p hd hf hok => by rw [hangBin_paren_eq]; exact main o ctx p hd hf hok⟩
  | un op e ih =>
    have main : ∀ (o : Oracle) (ctx : Ctx) (p : Pos), dropOK ctx p = true → faithful (un op e) = true →
        okAt p (un op e) = true → Good p (un op e) (fmtH repaired o ctx (un op e)) := by
      intro o ctx p hd hf hok
      have hf' := hf
      simp only [faithful, Bool.and_eq_true, Bool.not_eq_eq_eq_not, Bool.not_true] at hf'
      obtain ⟨⟨ho, _⟩, hfe⟩ := hf'
      rw [fmtH_un_eq]
      refine good_un p op e _ _ hok ?_ ?_ (ih.1 o.l .unOrBin (.unOperand op) rfl hfe ho)
      · intro hc
        simp only [minusClash, Bool.and_eq_true, beq_iff_eq] at hc
        simp [hc.1, isUnMinus_eq, hc.2]
      · intro hw
        simp only [Bool.and_eq_true] at hw
        exact truncate_sem_of_isUnMinus _ hw.2
    exact ⟨main, fun o ctx p hd hf hok => by rw [hangBin_un_eq]; exact main o ctx p hd hf hok⟩
  | assert e ih =>
    have main : ∀ (o : Oracle) (ctx : Ctx) (p : Pos), dropOK ctx p = true → faithful (assert e) = true →
        okAt p (assert e) = true → Good p (assert e) (fmtH repaired o ctx (assert e)) := by
      intro o ctx p hd hf hok
      have hf' := hf
      simp only [faithful, Bool.and_eq_true] at hf'
      simp only [fmtH]
      exact good_assert p e _ hok (ih.1 o.l .tassert .assertOperand rfl hf'.2 hf'.1)
    exact ⟨main, fun o ctx p hd hf hok => by rw [hangBin_assert_eq]; exact main o ctx p hd hf hok⟩
  | bin op l r ihl ihr =>
    constructor
    · intro o ctx p hd hf hok
      have hf' := hf
      simp only [faithful, Bool.and_eq_true] at hf'
      obtain ⟨⟨⟨hol, hor⟩, hfl⟩, hfr⟩ := hf'
      rw [fmtH_bin_eq]
      exact good_bin p op l r _ _ hok (ihl.2 o.l _ (.binL op) (dropOK_hctx op _) hfl hol)
        (ihr.2 o.r .std (.binR op) rfl hfr hor)
    · intro o ctx p hd hf hok
      have hf' := hf
      simp only [faithful, Bool.and_eq_true] at hf'
      obtain ⟨⟨⟨hol, hor⟩, hfl⟩, hfr⟩ := hf'
      have h : repaired.hangLhsExp = true := rfl
      have ghl := ihl.2 o.l (hctx op ctx) (.binL op) (dropOK_hctx op _) hfl hol
      have ghr := ihr.2 o.r ctx (.binR op) rfl hfr hor
      have gsl := fmtS_good l (lhsCtx op) (.binL op) (dropOK_lhsCtx op) hfl hol
      have gsr := fmtS_good r .unOrBin (.binR op) rfl hfr hor
      simp only [hangBin, h, true_and]
      change Good p (bin op l r) (if o.hang = true then
          if op.rassoc = true then bin op (if o.cl = true then hangBin repaired o.l (hctx op ctx) l else fmtS repaired (lhsCtx op) l) (hangBin repaired o.r ctx r)
          else bin op (hangBin repaired o.l (hctx op ctx) l) (if o.cr = true then hangBin repaired o.r ctx r else fmtS repaired .unOrBin r)
        else bin op (if o.cl = true then hangBin repaired o.l (hctx op ctx) l else fmtS repaired (lhsCtx op) l)
                    (if o.cr = true then hangBin repaired o.r ctx r else fmtS repaired .unOrBin r))
      split
      · split
        · split <;> exact good_bin p op l r _ _ hok (by assumption) ghr
        · split <;> exact good_bin p op l r _ _ hok ghl (by assumption)
      · split <;> split <;> exact good_bin p op l r _ _ hok (by assumption) (by assumption)

end StyluaModel.ParenLemmas
