/- Helper lemmas for Props/C06.lean: load_token_trivia applied to its own (re-tokenised) output. -/
import StyluaModel.Lemmas.Trivia
namespace StyluaModel.TriviaIdem
open StyluaModel.Trivia StyluaModel.TriviaLemmas

/-- the printed trivia read again by the tokenizer: a line ending is whitespace with a newline, indentation
and the single blank are whitespace without one, comments are themselves -/
def relex : List Out → List Triv
  | [] => []
  | .newline :: r => .ws true :: relex r
  | .indent :: r => .ws false :: relex r
  | .space :: r => .ws false :: relex r
  | .comment k t :: r => .comment k t :: relex r

theorem relex_append (a b : List Out) : relex (a ++ b) = relex a ++ relex b := by
  induction a with
  | nil => rfl
  | cons x a ih => cases x <;> simp [relex, ih]

/-- every comment text is already in the form format_token gives it -/
def FixTexts (eol : List Char) : List Triv → Prop
  | [] => True
  | .ws _ :: r => FixTexts eol r
  | .comment k t :: r => fmtText eol k (fmtText eol k t) = fmtText eol k t ∧ FixTexts eol r

theorem idem_aux (eol : List Char) (t : List Triv) : ∀ nl skip nl2,
    (nl2 = 0 ↔ nl = 0) → (skip = true → nl = 0) → FixTexts eol t →
    loadAux eol .leading nl2 false (relex (loadAux eol .leading nl skip t)) = loadAux eol .leading nl skip t := by
  induction t with
  | nil => intro _ _ _ _ _ _; rfl
  | cons x r ih =>
    intro nl skip nl2 h1 h2 hf
    cases x with
    | ws hasNl =>
      simp only [FixTexts] at hf
      cases hasNl with
      | false =>
        simp only [loadAux, Bool.and_false, Bool.false_eq_true, if_false]
        exact ih nl false nl2 h1 (by simp) hf
      | true =>
        cases skip with
        | true =>
          have hn : nl = 0 := h2 rfl
          simp only [loadAux, Bool.and_true, if_true]
          exact ih 0 false nl2 (by omega) (by simp) hf
        | false =>
          simp only [loadAux, Bool.and_true, Bool.false_eq_true, if_false, if_true]
          by_cases hz : nl = 0
          · have hz2 : nl2 = 0 := h1.mpr hz
            subst hz; subst hz2
            simp only [if_true, List.cons_append, List.nil_append, relex, loadAux, Bool.and_true,
              Bool.false_eq_true, if_false]
            rw [ih 1 false 1 (by omega) (by simp) hf]
          · simp only [hz, if_false, List.nil_append]
            exact ih (nl + 1) false nl2 (by omega) (by simp) hf
    | comment k txt =>
      simp only [FixTexts] at hf
      obtain ⟨hfix, hf⟩ := hf
      have hrec := ih 0 true 0 (by omega) (by simp) hf
      simp only [loadAux, decide_true]
      cases k with
      | shebang =>
        simp only [fmtComment, List.cons_append, List.nil_append, relex, loadAux, decide_true, hfix,
          Bool.and_true, if_true]
        rw [hrec]
      | line =>
        simp only [fmtComment, List.cons_append, List.nil_append, relex, loadAux, decide_true, hfix,
          Bool.and_true, if_true, Bool.and_false, Bool.false_eq_true, if_false]
        rw [hrec]
      | block lvl =>
        simp only [fmtComment, List.cons_append, List.nil_append, relex, loadAux, decide_true, hfix,
          Bool.and_true, if_true, Bool.and_false, Bool.false_eq_true, if_false]
        rw [hrec]

/-- **formatting the leading trivia of a token twice is formatting it once**: blank-line runs collapse to one
line ending and stay one, a comment keeps its own line, nothing accumulates -/
theorem load_idem (eol : List Char) (t : List Triv) (h : FixTexts eol t) :
    load eol .leading (relex (load eol .leading t)) = load eol .leading t :=
  idem_aux eol t 0 false 0 (by omega) (by simp) h

end StyluaModel.TriviaIdem
