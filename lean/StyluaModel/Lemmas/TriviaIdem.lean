/- Helper lemmas for Props/C06.lean: load_token_trivia applied to its own (re-tokenised) output. -/
import StyluaModel.Lemmas.Trivia
namespace StyluaModel.TriviaIdem
open StyluaModel.Trivia StyluaModel.TriviaLemmas

/-- the printed trivia read again by the tokenizer: a line ending is whitespace with a newline, indentation
and the single blank are whitespace without one, comments are themselves -/
def relex : List Out → List Triv
  | [] => []
  | .newline :: r => .ws true :: relex r
  | .indent :: r => .ws false :: relex r
  | .space :: r => .ws false :: relex r
  | .comment k t :: r => .comment k t :: relex r

theorem relex_append (a b : List Out) : relex (a ++ b) = relex a ++ relex b := by
  induction a with
  | nil => rfl
  | cons x a ih => cases x <;> simp [relex, ih]

/-- every comment text is already in the form format_token gives it -/
def FixTexts (eol : List Char) : List Triv → Prop
  | [] => True
  | .ws _ :: r => FixTexts eol r
  | .comment k t :: r => fmtText eol k (fmtText eol k t) = fmtText eol k t ∧ FixTexts eol r

theorem idem_aux (eol : List Char) (t : List Triv) : ∀ nl skip nl2,
    (nl2 = 0 ↔ nl = 0) → (skip = true → nl = 0) → FixTexts eol t →
    loadAux eol .leading nl2 false (relex (loadAux eol .leading nl skip t)) = loadAux eol .leading nl skip t := by
  induction t with
  | nil => intro _ _ _ _ _ _; rfl
  | cons x r ih =>
    intro nl skip nl2 h1 h2 hf
    cases x with
    | ws hasNl =>
      simp only [FixTexts] at hf
      cases hasNl with
      | false =>
        simp only [loadAux, Bool.and_false, Bool.false_eq_true, if_false]
        exact ih nl false nl2 h1 (by simp) hf
      | true =>
        cases skip with
        | true =>
          have hn : nl = 0 := h2 rfl
          simp only [loadAux, Bool.and_true, if_true]
          exact ih 0 false nl2 (by omega) (by simp) hf
        | false =>
          simp only [loadAux, Bool.and_true, Bool.false_eq_true, if_false, if_true]
          by_cases hz : nl = 0
          · have hz2 : nl2 = 0 := h1.mpr hz
            subst hz; subst hz2
            simp only [if_true, List.cons_append, List.nil_append, relex, loadAux, Bool.and_true,
              Bool.false_eq_true, if_false]
            rw [ih 1 false 1 (by omega) (by simp) hf]
          · simp only [hz, if_false, List.nil_append]
            exact ih (nl + 1) false nl2 (by omega) (by simp) hf
    | comment k txt =>
      simp only [FixTexts] at hf
      obtain ⟨hfix, hf⟩ := hf
      have hrec := ih 0 true 0 (by omega) (by simp) hf
      simp only [loadAux, decide_true]
      cases k with
      | shebang =>
        simp only [fmtComment, List.cons_append, List.nil_append, relex, loadAux, decide_true, hfix,
          Bool.and_true, if_true]
        rw [hrec]
      | line =>
        simp only [fmtComment, List.cons_append, List.nil_append, relex, loadAux, decide_true, hfix,
          Bool.and_true, if_true, Bool.and_false, Bool.false_eq_true, if_false]
        rw [hrec]
      | block lvl =>
        simp only [fmtComment, List.cons_append, List.nil_append, relex, loadAux, decide_true, hfix,
          Bool.and_true, if_true, Bool.and_false, Bool.false_eq_true, if_false]
        rw [hrec]

/-- **formatting the leading trivia of a token twice is formatting it once**: blank-line runs collapse to one
line ending and stay one, a comment keeps its own line, nothing accumulates -/
theorem load_idem (eol : List Char) (t : List Triv) (h : FixTexts eol t) :
    load eol .leading (relex (load eol .leading t)) = load eol .leading t :=
  idem_aux eol t 0 false 0 (by omega) (by simp) h

theorem nextIsBlock_relex_cons (o : Out) (r : List Out) :
    nextIsBlock (relex (o :: r)) = match o with | .comment (.block _) _ => true | _ => false := by
  cases o with
  | newline => rfl
  | indent => rfl
  | space => rfl
  | comment k t => cases k <;> rfl

theorem trailing_idem_aux (eol : List Char) (t : List Triv) : ∀ nl skip nl2 skip2, FixTexts eol t →
    loadAux eol .trailing nl2 skip2 (relex (loadAux eol .trailing nl skip t)) = loadAux eol .trailing nl skip t := by
  induction t with
  | nil => intro _ _ _ _ _; rfl
  | cons x r ih =>
    intro nl skip nl2 skip2 hf
    cases x with
    | ws hasNl =>
      simp only [FixTexts] at hf
      simp only [loadAux]
      by_cases hb : (nextIsBlock r && !hasNl) = true
      · simp only [hb, if_true, List.cons_append, List.nil_append, relex, loadAux]
        -- the space is followed by the block comment again
        have hr : ∃ lvl txt r', r = .comment (.block lvl) txt :: r' := by
          cases r with
          | nil => simp [nextIsBlock] at hb
          | cons y r' =>
            cases y with
            | ws b => simp [nextIsBlock] at hb
            | comment k txt => cases k <;> simp [nextIsBlock] at hb <;> exact ⟨_, _, _, rfl⟩
        obtain ⟨lvl, txt, r', hr⟩ := hr
        subst hr
        simp only [loadAux, fmtComment, List.cons_append, List.nil_append, relex, nextIsBlock, Bool.not_false,
          Bool.and_true, if_true]
        have := ih nl false nl false hf
        simp only [loadAux, fmtComment, List.cons_append, List.nil_append, relex] at this
        rw [this]
      · have hb' : (nextIsBlock r && !hasNl) = false := by simpa using hb
        simp only [hb', Bool.false_eq_true, if_false, List.nil_append]
        exact ih nl false nl2 skip2 hf
    | comment k txt =>
      simp only [FixTexts] at hf
      obtain ⟨hfix, hf⟩ := hf
      have hrec := fun a b => ih 0 false a b hf
      simp only [loadAux]
      have hd : decide (Pos.trailing = Pos.leading) = false := by decide
      simp only [hd]
      cases k with
      | shebang =>
        simp only [fmtComment, List.cons_append, List.nil_append, relex, loadAux, hfix, hd, Bool.not_true,
          Bool.and_false, Bool.false_eq_true, if_false]
        rw [hrec]
      | line =>
        simp only [fmtComment, List.cons_append, List.nil_append, relex, loadAux, hfix, hd, nextIsBlock,
          Bool.false_and, Bool.false_eq_true, if_false]
        rw [hrec]
      | block lvl =>
        simp only [fmtComment, List.cons_append, List.nil_append, relex, loadAux, hfix, hd]
        rw [hrec]

theorem load_trailing_idem (eol : List Char) (t : List Triv) (h : FixTexts eol t) :
    load eol .trailing (relex (load eol .trailing t)) = load eol .trailing t :=
  trailing_idem_aux eol t 0 false 0 false h

end StyluaModel.TriviaIdem
