/- Round trip through the parser mirror: `faithful e → parse (print e) = e` (for enough fuel). -/
import StyluaModel.Spec.Parser
import StyluaModel.Spec.Prec
namespace StyluaModel.ParserLemmas
open StyluaModel StyluaModel.Parser StyluaModel.Prec Expr

/-- the task yields `r` for every sufficiently large fuel -/
def Ev (t : Task) (ts : List Tok) (r : Expr × List Tok) : Prop :=
  ∃ n, ∀ f, n ≤ f → run f t ts = some r

/-! ### facts about the operator table -/
theorem prec_le_12 (o : BinOp) : o.prec ≤ 12 := by cases o <;> decide
theorem prec_ne_11 (o : BinOp) : o.prec ≠ 11 := by cases o <;> decide
theorem prec_pos (o : BinOp) : 1 ≤ o.prec := by cases o <;> decide
theorem rassoc_of_prec_eq (o1 o2 : BinOp) (h : o1.prec = o2.prec) : o1.rassoc = o2.rassoc := by
  cases o1 <;> cases o2 <;> first | rfl | (exact absurd h (by decide))
theorem caret_of_prec_12 (o : BinOp) (h : 12 ≤ o.prec) : o.rassoc = true := by
  cases o <;> first | rfl | (exact absurd h (by decide))

/-! ### composition rules for `Ev` (one unfolding of `run` each) -/

theorem ev_exprAt {p : Nat} {ts ts' : List Tok} {h : Expr} {res : Expr × List Tok}
    (h1 : Ev .primary ts (h, ts')) (h2 : Ev (.climb h p) ts' res) : Ev (.exprAt p) ts res := by
  obtain ⟨n1, h1⟩ := h1; obtain ⟨n2, h2⟩ := h2
  refine ⟨max n1 n2 + 1, fun f hf => ?_⟩
  obtain ⟨g, rfl⟩ : ∃ g, f = g + 1 := ⟨f - 1, by omega⟩
  simp only [run, h1 g (by omega), h2 g (by omega)]

theorem ev_climb_stop_nil (l : Expr) (p : Nat) : Ev (.climb l p) [] (l, []) :=
  ⟨1, fun f hf => by obtain ⟨g, rfl⟩ : ∃ g, f = g + 1 := ⟨f - 1, by omega⟩; simp [run]⟩

/-- the head of the remaining input does not continue the loop at level `p` -/
def stopsAt (p : Nat) : List Tok → Bool
  | .b o :: _ => decide (o.prec < p)
  | _ => true

theorem ev_climb_stop (l : Expr) (p : Nat) (ts : List Tok) (h : stopsAt p ts = true) :
    Ev (.climb l p) ts (l, ts) := by
  refine ⟨1, fun f hf => ?_⟩
  obtain ⟨g, rfl⟩ : ∃ g, f = g + 1 := ⟨f - 1, by omega⟩
  cases ts with
  | nil => simp [run]
  | cons t ts =>
    cases t
    case b o =>
      have : o.prec < p := by simpa [stopsAt] using h
      simp [run, this]
    all_goals simp [run]

theorem ev_climb_step {l : Expr} {p : Nat} {op : BinOp} {ts ts2 ts3 : List Tok} {h r : Expr}
    {res : Expr × List Tok} (hp : p ≤ op.prec)
    (h1 : Ev .primary ts (h, ts2)) (h2 : Ev (.rhs h op) ts2 (r, ts3))
    (h3 : Ev (.climb (.bin op l r) p) ts3 res) : Ev (.climb l p) (.b op :: ts) res := by
  obtain ⟨n1, h1⟩ := h1; obtain ⟨n2, h2⟩ := h2; obtain ⟨n3, h3⟩ := h3
  refine ⟨max n1 (max n2 n3) + 1, fun f hf => ?_⟩
  obtain ⟨g, rfl⟩ : ∃ g, f = g + 1 := ⟨f - 1, by omega⟩
  have : ¬ op.prec < p := by omega
  simp only [run, this, if_false, h1 g (by omega), h2 g (by omega), h3 g (by omega)]

/-- one-step inversion of the loop: either nothing was consumed, or the input starts with an
operator of precedence at least `p` -/
theorem ev_climb_inv {h : Expr} {p : Nat} {ts : List Tok} {res : Expr × List Tok}
    (hev : Ev (.climb h p) ts res) :
    res = (h, ts) ∨ ∃ o ts', ts = .b o :: ts' ∧ p ≤ o.prec := by
  obtain ⟨n, hn⟩ := hev
  have h1 := hn (n + 1) (by omega)
  cases ts with
  | nil => left; simpa [run] using h1.symm
  | cons t ts =>
    cases t
    case b o =>
      by_cases hlt : o.prec < p
      · left; simp only [run, hlt, if_true] at h1; simpa using h1.symm
      · right; exact ⟨o, ts, rfl, by omega⟩
    all_goals (left; simpa [run] using h1.symm)

/-- the inner loop stops: the next token does not extend the right operand of `op` -/
def rhsStops (op : BinOp) : List Tok → Bool
  | .b o :: _ => !(decide (o.prec > op.prec) || (o.rassoc && o.prec == op.prec))
  | _ => true

theorem ev_rhs_stop (r : Expr) (op : BinOp) (ts : List Tok) (h : rhsStops op ts = true) :
    Ev (.rhs r op) ts (r, ts) := by
  refine ⟨1, fun f hf => ?_⟩
  obtain ⟨g, rfl⟩ : ∃ g, f = g + 1 := ⟨f - 1, by omega⟩
  cases ts with
  | nil => simp [run]
  | cons t ts =>
    cases t <;> simp [run]
    rename_i o
    simp only [rhsStops, Bool.not_eq_true', Bool.or_eq_false_iff, decide_eq_false_iff_not,
      Bool.and_eq_false_iff] at h
    obtain ⟨h1, h2⟩ := h
    simp only [gt_iff_lt] at h1
    simp [h1]
    intro hr hp
    rcases h2 with h2 | h2
    · simp [hr] at h2
    · simp [hp] at h2

theorem ev_rhs_higher {r r' : Expr} {op o : BinOp} {ts ts' : List Tok} {res : Expr × List Tok}
    (ho : op.prec < o.prec)
    (h1 : Ev (.climb r (op.prec + 1)) (.b o :: ts) (r', ts')) (h2 : Ev (.rhs r' op) ts' res) :
    Ev (.rhs r op) (.b o :: ts) res := by
  obtain ⟨n1, h1⟩ := h1; obtain ⟨n2, h2⟩ := h2
  refine ⟨max n1 n2 + 1, fun f hf => ?_⟩
  obtain ⟨g, rfl⟩ : ∃ g, f = g + 1 := ⟨f - 1, by omega⟩
  simp only [run, gt_iff_lt, ho, if_true, h1 g (by omega), h2 g (by omega)]

theorem ev_rhs_equal {r r' : Expr} {op o : BinOp} {ts ts' : List Tok} {res : Expr × List Tok}
    (ho : o.prec = op.prec) (hr : o.rassoc = true)
    (h1 : Ev (.climb r op.prec) (.b o :: ts) (r', ts')) (h2 : Ev (.rhs r' op) ts' res) :
    Ev (.rhs r op) (.b o :: ts) res := by
  obtain ⟨n1, h1⟩ := h1; obtain ⟨n2, h2⟩ := h2
  refine ⟨max n1 n2 + 1, fun f hf => ?_⟩
  obtain ⟨g, rfl⟩ : ∃ g, f = g + 1 := ⟨f - 1, by omega⟩
  have hn : ¬ o.prec > op.prec := by omega
  have hb : (o.rassoc && o.prec == op.prec) = true := by simp [hr, ho]
  simp only [run]
  rw [if_neg hn, if_pos hb, h1 g (by omega)]
  exact h2 g (by omega)


/-! ### primary expressions -/

theorem suffix_plain (e : Expr) (ts : List Tok) (h : ∀ ts', ts ≠ .as :: ts') : suffix e ts = some (e, ts) := by
  cases ts with
  | nil => rfl
  | cons t ts =>
    cases t
    case as => exact absurd rfl (h ts)
    all_goals rfl

theorem suffix_as (e : Expr) (ts : List Tok) (h : ∀ ts', ts ≠ .b .lt :: ts') :
    suffix e (.as :: ts) = some (.assert e, ts) := by
  cases ts with
  | nil => rfl
  | cons t ts =>
    cases t
    case b o =>
      cases o
      case lt => exact absurd rfl (h ts)
      all_goals rfl
    all_goals rfl

theorem ev_primary_paren {ts0 ts' : List Tok} {e : Expr} {r : Expr × List Tok}
    (h1 : Ev (.exprAt 0) ts0 (e, .rp :: ts')) (h2 : suffix (.paren e) ts' = some r) :
    Ev .primary (.lp :: ts0) r := by
  obtain ⟨n1, h1⟩ := h1
  refine ⟨n1 + 1, fun f hf => ?_⟩
  obtain ⟨g, rfl⟩ : ∃ g, f = g + 1 := ⟨f - 1, by omega⟩
  simp only [run, h1 g (by omega), h2]

theorem ev_primary_un {ts0 ts' : List Tok} {op : UnOp} {e : Expr} {r : Expr × List Tok}
    (h1 : Ev (.exprAt unPrec) ts0 (e, ts')) (h2 : suffix (.un op e) ts' = some r) :
    Ev .primary (.u op :: ts0) r := by
  obtain ⟨n1, h1⟩ := h1
  refine ⟨n1 + 1, fun f hf => ?_⟩
  obtain ⟨g, rfl⟩ : ∃ g, f = g + 1 := ⟨f - 1, by omega⟩
  simp only [run, h1 g (by omega), h2]

theorem ev_of_one {t : Task} {ts : List Tok} {r : Expr × List Tok}
    (h : ∀ g, run (g + 1) t ts = some r) : Ev t ts r :=
  ⟨1, fun f hf => by obtain ⟨g, rfl⟩ : ∃ g, f = g + 1 := ⟨f - 1, by omega⟩; exact h g⟩

/-! ### the conditions under which a printed expression is read back as itself -/

/-- `faithful` without its lexical clause (`- -` is a comment: invisible at token level) -/
def rt : Expr → Bool
  | paren e => rt e
  | un op e => okAt (.unOperand op) e && rt e
  | bin op l r => okAt (.binL op) l && okAt (.binR op) r && rt l && rt r
  | .assert e => okAt .assertOperand e && rt e
  | _ => true

theorem rt_of_faithful (e : Expr) (h : faithful e = true) : rt e = true := by
  induction e with
  | paren e ih => simpa [rt, faithful] using ih (by simpa [faithful] using h)
  | un op e ih =>
    simp only [faithful, Bool.and_eq_true] at h
    simp [rt, h.1.1, ih h.2]
  | bin op l r ihl ihr =>
    simp only [faithful, Bool.and_eq_true] at h
    simp [rt, h.1.1.1, h.1.1.2, ihl h.1.2, ihr h.2]
  | assert e ih =>
    simp only [faithful, Bool.and_eq_true] at h
    simp [rt, h.1, ih h.2]
  | _ => rfl

/-- the loop at level `p` builds the whole of `e` -/
def topOK : Expr → Nat → Bool
  | bin op _ _, p => decide (p ≤ op.prec)
  | _, _ => true

/-- operator `o`, following `e`, is not swallowed by anything on `e`'s right edge -/
def noAbsorb (o : BinOp) : Expr → Bool
  | bin op _ r => !(decide (o.prec > op.prec) || (o.rassoc && o.prec == op.prec)) && noAbsorb o r
  | un _ e => decide (o.prec < unPrec) && noAbsorb o e
  | ifx _ => false
  | .assert _ => !(o == .lt)
  | _ => true

def followOK (e : Expr) : List Tok → Bool
  | .b o :: _ => noAbsorb o e
  | .as :: _ => false
  | _ => true

theorem followOK_not_as {e : Expr} {ts : List Tok} (h : followOK e ts = true) : ∀ ts', ts ≠ .as :: ts' := by
  intro ts' hc; subst hc; simp [followOK] at h

theorem noAbsorb_of_okAt (o : BinOp) (l : Expr) (hrt : rt l = true) (hok : okAt (.binL o) l = true) :
    noAbsorb o l = true := by
  induction l with
  | atom n => rfl
  | call n => rfl
  | varargs => rfl
  | paren e _ => rfl
  | ifx n => simp [okAt, rightOpen] at hok
  | assert e _ =>
    simp only [okAt, rightOpen, endsWithType, Bool.and_true, Bool.not_false, Bool.true_and] at hok
    simpa [noAbsorb] using hok
  | un u x ih =>
    simp only [rt, Bool.and_eq_true] at hrt
    simp only [okAt, rightOpen, endsWithType, Bool.and_eq_true, decide_eq_true_eq] at hok
    obtain ⟨⟨hro, het⟩, hp⟩ := hok
    have hne := prec_ne_11 o
    have hlt : o.prec < 11 := by simp only [unPrec] at hp; omega
    simp only [noAbsorb, unPrec, Bool.and_eq_true]
    refine ⟨decide_eq_true hlt, ih hrt.2 ?_⟩
    cases x with
    | bin op2 a b =>
      have h2 : 11 < op2.prec := by simpa [okAt, unPrec] using hrt.1
      simp only [okAt, Bool.and_eq_true]
      refine ⟨⟨hro, het⟩, ?_⟩
      split <;> simp <;> omega
    | un u2 y =>
      simp only [okAt, Bool.and_eq_true, decide_eq_true_eq]
      exact ⟨⟨hro, het⟩, by simp only [unPrec]; omega⟩
    | _ => simp only [okAt, Bool.and_eq_true]; exact ⟨⟨hro, het⟩, trivial⟩
  | bin opl a r _ ihr =>
    simp only [rt, Bool.and_eq_true] at hrt
    obtain ⟨⟨⟨_, hokr⟩, _⟩, hrtr⟩ := hrt
    simp only [okAt, rightOpen, endsWithType, Bool.and_eq_true] at hok
    obtain ⟨⟨hro, het⟩, hp⟩ := hok
    have hle := prec_le_12 opl
    have h12 := caret_of_prec_12 o
    simp only [noAbsorb, Bool.and_eq_true]
    constructor
    · cases hr : o.rassoc <;> simp [hr] at hp ⊢ <;> omega
    · apply ihr hrtr
      cases r with
      | bin opr c d =>
        have h2 : opl.prec ≤ opr.prec := by
          simp only [okAt] at hokr
          split at hokr <;> simp at hokr <;> omega
        simp only [okAt, Bool.and_eq_true]
        refine ⟨⟨hro, het⟩, ?_⟩
        cases hr : o.rassoc <;> simp [hr] at hp ⊢ <;> omega
      | un u2 y =>
        simp only [okAt, Bool.and_eq_true, decide_eq_true_eq]
        refine ⟨⟨hro, het⟩, ?_⟩
        simp only [unPrec]
        cases hr : o.rassoc
        · simp [hr] at hp
          by_cases h : 12 ≤ o.prec
          · simp [h12 h] at hr
          · omega
        · simp [hr] at hp; omega
      | _ => simp only [okAt, Bool.and_eq_true]; exact ⟨⟨hro, het⟩, trivial⟩


/-! ### the induction -/

/-- the primary expression at the front of `print e` is some `h`, and looping on from `h`
at any level that builds `e` is the same as looping on from `e` -/
def Star (e : Expr) : Prop :=
  ∀ ts, followOK e ts = true → ∃ h ts2, Ev .primary (print e ++ ts) (h, ts2) ∧
    ∀ p res, topOK e p = true → Ev (.climb e p) ts res → Ev (.climb h p) ts2 res

def StarAs (e : Expr) : Prop :=
  okAt .assertOperand e = true → ∀ ts, (∀ ts', ts ≠ .b .lt :: ts') →
    Ev .primary (print e ++ .as :: ts) (.assert e, ts)

def RhsOK (e : Expr) : Prop :=
  ∀ op ts, okAt (.binR op) e = true → followOK e ts = true → rhsStops op ts = true →
    ∃ h ts2, Ev .primary (print e ++ ts) (h, ts2) ∧ Ev (.rhs h op) ts2 (e, ts)

theorem star_self {e : Expr} {ts : List Tok} (h : Ev .primary (print e ++ ts) (e, ts)) :
    ∃ h ts2, Ev .primary (print e ++ ts) (h, ts2) ∧
      ∀ p res, topOK e p = true → Ev (.climb e p) ts res → Ev (.climb h p) ts2 res :=
  ⟨e, ts, h, fun _ _ _ hc => hc⟩

theorem exprAt_of_star {e : Expr} (hs : Star e) {ts : List Tok} {p : Nat}
    (hf : followOK e ts = true) (ht : topOK e p = true) (hstop : stopsAt p ts = true) :
    Ev (.exprAt p) (print e ++ ts) (e, ts) := by
  obtain ⟨h, ts2, hp, himp⟩ := hs ts hf
  exact ev_exprAt hp (himp p _ ht (ev_climb_stop e p ts hstop))

theorem stopsAt_succ_of_rhsStops {op : BinOp} {ts : List Tok} (h : rhsStops op ts = true) :
    stopsAt (op.prec + 1) ts = true := by
  cases ts with
  | nil => rfl
  | cons t ts =>
    cases t
    case b o =>
      simp only [rhsStops, Bool.not_eq_true', Bool.or_eq_false_iff, decide_eq_false_iff_not] at h
      simp only [stopsAt, decide_eq_true_eq]
      have := h.1
      omega
    all_goals rfl

theorem rhs_of_star {e : Expr} (hs : Star e) (op : BinOp) (ts : List Tok)
    (ht : topOK e (op.prec + 1) = true) (hf : followOK e ts = true) (hstop : rhsStops op ts = true) :
    ∃ h ts2, Ev .primary (print e ++ ts) (h, ts2) ∧ Ev (.rhs h op) ts2 (e, ts) := by
  obtain ⟨h, ts2, hp, himp⟩ := hs ts hf
  have hc := himp (op.prec + 1) _ ht (ev_climb_stop e _ ts (stopsAt_succ_of_rhsStops hstop))
  refine ⟨h, ts2, hp, ?_⟩
  rcases ev_climb_inv hc with heq | ⟨o, ts', rfl, ho⟩
  · injection heq with h1 h2
    subst h1; subst h2
    exact ev_rhs_stop e op ts hstop
  · exact ev_rhs_higher (by omega) hc (ev_rhs_stop e op ts hstop)

theorem rhsStops_congr {op op0 : BinOp} (h : op.prec = op0.prec) (ts : List Tok) :
    rhsStops op ts = rhsStops op0 ts := by
  cases ts with
  | nil => rfl
  | cons t ts => cases t <;> simp [rhsStops, h]

theorem stopsAt_of_rhsStops_rassoc {op : BinOp} {ts : List Tok} (hr : op.rassoc = true)
    (h : rhsStops op ts = true) : stopsAt op.prec ts = true := by
  cases ts with
  | nil => rfl
  | cons t ts =>
    cases t
    case b o =>
      simp only [rhsStops, Bool.not_eq_true', Bool.or_eq_false_iff, decide_eq_false_iff_not,
        Bool.and_eq_false_iff] at h
      simp only [stopsAt, decide_eq_true_eq]
      obtain ⟨h1, h2⟩ := h
      by_cases heq : o.prec = op.prec
      · have := rassoc_of_prec_eq o op heq
        rw [hr] at this
        rcases h2 with h2 | h2
        · rw [this] at h2; exact absurd h2 (by decide)
        · simp [heq] at h2
      · omega
    all_goals rfl

theorem topOK_of_okAt_un {u : UnOp} {e : Expr} (h : okAt (.unOperand u) e = true) :
    topOK e unPrec = true := by
  cases e with
  | bin op2 a b =>
    have : unPrec < op2.prec := by simpa [okAt] using h
    simp only [topOK, decide_eq_true_eq]; omega
  | _ => rfl

theorem roundtrip_aux (e : Expr) : rt e = true → Star e ∧ StarAs e ∧ RhsOK e := by
  induction e with
  | atom n =>
    intro _
    have hs : Star (atom n) := fun ts hf => star_self (ev_of_one fun g => by
      simp [print, run, suffix_plain _ _ (followOK_not_as hf)])
    refine ⟨hs, fun _ ts hlt => ev_of_one fun g => by simp [print, run, suffix_as _ _ hlt],
      fun op ts _ hf hstop => rhs_of_star hs op ts rfl hf hstop⟩
  | call n =>
    intro _
    have hs : Star (call n) := fun ts hf => star_self (ev_of_one fun g => by
      simp [print, run, suffix_plain _ _ (followOK_not_as hf)])
    refine ⟨hs, fun _ ts hlt => ev_of_one fun g => by simp [print, run, suffix_as _ _ hlt],
      fun op ts _ hf hstop => rhs_of_star hs op ts rfl hf hstop⟩
  | varargs =>
    intro _
    have hs : Star varargs := fun ts hf => star_self (ev_of_one fun g => by
      simp [print, run, suffix_plain _ _ (followOK_not_as hf)])
    refine ⟨hs, fun _ ts hlt => ev_of_one fun g => by simp [print, run, suffix_as _ _ hlt],
      fun op ts _ hf hstop => rhs_of_star hs op ts rfl hf hstop⟩
  | ifx n =>
    intro _
    have hs : Star (ifx n) := fun ts hf => star_self (ev_of_one fun g => by
      cases ts with
      | nil => simp [print, run]
      | cons t ts =>
        cases t
        case b o => simp [followOK, noAbsorb] at hf
        case as => simp [followOK] at hf
        all_goals simp [print, run])
    refine ⟨hs, fun h => by simp [okAt] at h, fun op ts _ hf hstop => rhs_of_star hs op ts rfl hf hstop⟩
  | paren e ih =>
    intro hrt
    have ihs := (ih (by simpa [rt] using hrt)).1
    have hex : ∀ ts, Ev (.exprAt 0) (print e ++ .rp :: ts) (e, .rp :: ts) := fun ts =>
      exprAt_of_star ihs rfl (by cases e <;> simp [topOK]) rfl
    have hs : Star (paren e) := fun ts hf => star_self (by
      have := ev_primary_paren (hex ts) (suffix_plain (.paren e) ts (followOK_not_as hf))
      simpa [print] using this)
    refine ⟨hs, fun _ ts hlt => ?_, fun op ts _ hf hstop => rhs_of_star hs op ts rfl hf hstop⟩
    have := ev_primary_paren (hex (.as :: ts)) (suffix_as (.paren e) ts hlt)
    simpa [print] using this
  | un u e ih =>
    intro hrt
    simp only [rt, Bool.and_eq_true] at hrt
    have ihs := (ih hrt.2).1
    have hs : Star (un u e) := fun ts hf => star_self (by
      have hfe : followOK e ts = true ∧ stopsAt unPrec ts = true := by
        cases ts with
        | nil => exact ⟨rfl, rfl⟩
        | cons t ts =>
          cases t
          case b o =>
            simp only [followOK, noAbsorb, Bool.and_eq_true] at hf
            exact ⟨hf.2, hf.1⟩
          case as => simp [followOK] at hf
          all_goals exact ⟨rfl, rfl⟩
      have hex := exprAt_of_star ihs hfe.1 (topOK_of_okAt_un hrt.1) hfe.2
      have := ev_primary_un (op := u) hex (suffix_plain (.un u e) ts (followOK_not_as hf))
      simpa [print] using this)
    refine ⟨hs, fun h => by simp [okAt] at h, fun op ts _ hf hstop => rhs_of_star hs op ts rfl hf hstop⟩
  | assert e ih =>
    intro hrt
    simp only [rt, Bool.and_eq_true] at hrt
    have ihas := (ih hrt.2).2.1
    have hs : Star (.assert e) := fun ts hf => star_self (by
      have hlt : ∀ ts', ts ≠ .b .lt :: ts' := by
        intro ts' hc; subst hc; simp [followOK, noAbsorb] at hf
      have := ihas hrt.1 ts hlt
      simpa [print] using this)
    refine ⟨hs, fun h => by simp [okAt] at h, fun op ts _ hf hstop => rhs_of_star hs op ts rfl hf hstop⟩
  | bin op l r ihl ihr =>
    intro hrt
    simp only [rt, Bool.and_eq_true] at hrt
    obtain ⟨⟨⟨hokl, hokr⟩, hrtl⟩, hrtr⟩ := hrt
    have hsl := (ihl hrtl).1
    have hrr := (ihr hrtr).2.2
    have hfl : ∀ ts, followOK l (.b op :: ts) = true := fun ts => noAbsorb_of_okAt op l hrtl hokl
    have hsplit : ∀ ts, followOK (bin op l r) ts = true → followOK r ts = true ∧ rhsStops op ts = true := by
      intro ts hf
      cases ts with
      | nil => exact ⟨rfl, rfl⟩
      | cons t ts =>
        cases t
        case b o =>
          simp only [followOK, noAbsorb, Bool.and_eq_true] at hf
          exact ⟨hf.2, hf.1⟩
        case as => simp [followOK] at hf
        all_goals exact ⟨rfl, rfl⟩
    -- the left operand's top operator binds at least as tightly as `op`
    have htopl : ∀ p, p ≤ op.prec → topOK l p = true := by
      intro p hp
      cases l with
      | bin opl a b =>
        simp only [okAt, Bool.and_eq_true] at hokl
        have h2 := hokl.2
        simp only [topOK, decide_eq_true_eq]
        split at h2 <;> simp at h2 <;> omega
      | _ => rfl
    have hs : Star (bin op l r) := by
      intro ts hf
      obtain ⟨hfr, hst⟩ := hsplit ts hf
      obtain ⟨h', ts3, hP', hR'⟩ := hrr op ts hokr hfr hst
      obtain ⟨h, ts2, hP, himp⟩ := hsl (.b op :: (print r ++ ts)) (hfl _)
      refine ⟨h, ts2, by simpa [print, List.append_assoc] using hP, fun p res htop hclimb => ?_⟩
      have hp : p ≤ op.prec := by simpa [topOK] using htop
      exact himp p res (htopl p hp) (ev_climb_step hp hP' hR' hclimb)
    refine ⟨hs, fun h => by simp [okAt] at h, ?_⟩
    intro op0 ts hok0 hf hstop
    have hge : op0.prec ≤ op.prec := by
      simp only [okAt] at hok0
      split at hok0 <;> simp at hok0 <;> omega
    by_cases hgt : op0.prec < op.prec
    · exact rhs_of_star hs op0 ts (by simp only [topOK, decide_eq_true_eq]; omega) hf hstop
    · have heq : op.prec = op0.prec := by omega
      have hr0 : op0.rassoc = true := by
        simp only [okAt] at hok0
        split at hok0
        · assumption
        · simp at hok0; omega
      have hr : op.rassoc = true := by rw [rassoc_of_prec_eq op op0 heq]; exact hr0
      obtain ⟨hfr, _⟩ := hsplit ts hf
      have hst : rhsStops op ts = true := by rw [rhsStops_congr heq]; exact hstop
      obtain ⟨h', ts3, hP', hR'⟩ := hrr op ts hokr hfr hst
      obtain ⟨h, ts2, hP, himp⟩ := hsl (.b op :: (print r ++ ts)) (hfl _)
      have htl : topOK l (op0.prec + 1) = true := by
        cases l with
        | bin opl a b =>
          simp only [okAt, Bool.and_eq_true] at hokl
          have h2 := hokl.2
          simp only [hr, if_true, decide_eq_true_eq] at h2
          simp only [topOK, decide_eq_true_eq]
          omega
        | _ => rfl
      have hstop1 : stopsAt (op0.prec + 1) (.b op :: (print r ++ ts)) = true := by
        simp only [stopsAt, decide_eq_true_eq]; omega
      have hc := himp (op0.prec + 1) _ htl (ev_climb_stop l _ _ hstop1)
      have hstop0 : stopsAt op0.prec ts = true := stopsAt_of_rhsStops_rassoc hr0 hstop
      have hX : Ev (.rhs l op0) (.b op :: (print r ++ ts)) (bin op l r, ts) :=
        ev_rhs_equal heq hr
          (ev_climb_step (by omega) hP' hR' (ev_climb_stop (bin op l r) op0.prec ts hstop0))
          (ev_rhs_stop (bin op l r) op0 ts hstop)
      refine ⟨h, ts2, by simpa [print, List.append_assoc] using hP, ?_⟩
      rcases ev_climb_inv hc with heq2 | ⟨o, ts', rfl, ho⟩
      · injection heq2 with h1 h2
        subst h1; subst h2
        exact hX
      · exact ev_rhs_higher (by omega) hc hX

/-- **round trip**: a faithful tree is exactly what the parser builds from its printed form -/
theorem roundtrip (e : Expr) (h : rt e = true) : Ev (.exprAt 0) (print e) (e, []) := by
  have hs := (roundtrip_aux e h).1
  have := exprAt_of_star hs (ts := []) (p := 0) rfl (by cases e <;> simp [topOK]) rfl
  simpa using this

theorem parse_print (e : Expr) (h : faithful e = true) : ∃ n, ∀ f, n ≤ f → parse f (print e) = some e := by
  obtain ⟨n, hn⟩ := roundtrip e (rt_of_faithful e h)
  exact ⟨n, fun f hf => by simp [parse, hn f hf]⟩

end StyluaModel.ParserLemmas
