/- Helper lemmas for Props/C18.lean (JSON mismatches). -/
import StyluaModel.Model.Diff
namespace StyluaModel.DiffLemmas
open StyluaModel.Diff

theorem firstOr_repaired (l : List Nat) : firstOr repaired l = l := rfl

/-- inserts the variant can report in full: all of them, or (pinned code: first line only) those of one line -/
def insertsOK (v : Variant) : List Op → Bool
  | [] => true
  | .insert n :: rest => (v.allLines || decide (n = 1)) && insertsOK v rest
  | _ :: rest => insertsOK v rest

theorem firstOr_isEmpty (v : Variant) (l : List Nat) : (firstOr v l).isEmpty = l.isEmpty := by
  unfold firstOr
  split
  · rfl
  · cases l <;> rfl

theorem firstOr_insert (v : Variant) (n : Nat) (l : List Nat) (h : (v.allLines || decide (n = 1)) = true) :
    firstOr v (l.take n) = l.take n := by
  unfold firstOr
  split
  · rfl
  · rename_i hv
    simp only [hv, Bool.false_or, decide_eq_true_eq] at h
    subst h
    simp [List.take_take]

/-- the first mismatch produced from old-index `oi` does not start before `oi` -/
theorem head_start_ge (v : Variant) (ops : List Op) : ∀ oi ni old new,
    ∀ m ∈ (mismatches v oi ni ops old new).head?, oi ≤ m.originalStart := by
  induction ops with
  | nil => intro oi ni old new m hm; simp [mismatches] at hm
  | cons op rest ih =>
    intro oi ni old new m hm
    cases op with
    | equal n =>
      simp only [mismatches] at hm
      have := ih (oi + n) (ni + n) _ _ m hm
      omega
    | delete n => simp [mismatches] at hm; subst hm; simp
    | insert n => simp [mismatches] at hm; subst hm; simp
    | replace n k => simp [mismatches] at hm; subst hm; simp

/-- copying an unchanged run: if nothing starts before `c + n`, the applier copies `n` lines -/
theorem apply_skip (n c : Nat) (old : List Nat) (ms : List Mismatch)
    (h : ∀ m ∈ ms.head?, c + n ≤ m.originalStart) (_hn : n ≤ old.length) :
    apply c old ms = old.take n ++ apply (c + n) (old.drop n) ms := by
  cases ms with
  | nil => simp [apply]
  | cons m rest =>
    have hm := h m (by simp)
    simp only [apply]
    have e1 : m.originalStart - c = n + (m.originalStart - (c + n)) := by omega
    rw [e1, List.take_add]
    have e2 : List.drop (n + (m.originalStart - (c + n))) old = List.drop (m.originalStart - (c + n)) (List.drop n old) := by
      rw [List.drop_drop]
    rw [e2]
    simp [List.append_assoc]

theorem main (v : Variant) (ops : List Op) : ∀ oi ni old new, Valid ops old new = true → insertsOK v ops = true →
    apply oi old (mismatches v oi ni ops old new) = new := by
  induction ops with
  | nil =>
    intro oi ni old new h _
    simp only [Valid, Bool.and_eq_true, List.isEmpty_iff] at h
    simp [mismatches, apply, h.1, h.2]
  | cons op rest ih =>
    intro oi ni old new h hi
    cases op with
    | equal n =>
      simp only [Valid, Bool.and_eq_true, decide_eq_true_eq] at h
      obtain ⟨⟨⟨h1, h2⟩, h3⟩, h4⟩ := h
      simp only [mismatches]
      rw [apply_skip n oi old _ (head_start_ge v rest (oi + n) (ni + n) _ _) h1, ih _ _ _ _ h4 (by simpa [insertsOK] using hi), h3]
      exact List.take_append_drop n new
    | delete n =>
      simp only [Valid, Bool.and_eq_true, decide_eq_true_eq] at h
      obtain ⟨⟨h1, h2⟩, h3⟩ := h
      simp only [mismatches, apply]
      have hne : (firstOr v (old.take n)).isEmpty = false := by
        rw [firstOr_isEmpty]
        cases old with
        | nil => simp at h2; omega
        | cons x xs => cases n with
          | zero => omega
          | succ k => simp
      simp only [hne, Bool.false_eq_true, if_false, Nat.sub_self, List.take_zero, List.drop_zero,
        List.nil_append, List.append_nil]
      have : oi + n - 1 - oi + 1 = n := by omega
      rw [this]
      exact ih _ _ _ _ h3 (by simpa [insertsOK] using hi)
    | insert n =>
      simp only [Valid, Bool.and_eq_true, decide_eq_true_eq] at h
      obtain ⟨⟨h1, h2⟩, h3⟩ := h
      simp only [insertsOK, Bool.and_eq_true] at hi
      simp only [mismatches, apply, firstOr_insert v n new hi.1, List.isEmpty_nil, if_true, Nat.sub_self,
        List.take_zero, List.drop_zero, List.nil_append, Nat.add_zero]
      rw [ih _ _ _ _ h3 hi.2]
      exact List.take_append_drop n new
    | replace n k =>
      simp only [Valid, Bool.and_eq_true, decide_eq_true_eq] at h
      obtain ⟨⟨⟨⟨h1, h2⟩, h3⟩, h4⟩, h5⟩ := h
      simp only [mismatches, apply]
      have hne : (old.take n).isEmpty = false := by
        cases old with
        | nil => simp at h3; omega
        | cons x xs => cases n with
          | zero => omega
          | succ j => simp
      simp only [hne, Bool.false_eq_true, if_false, Nat.sub_self, List.take_zero, List.drop_zero,
        List.nil_append]
      have : oi + n - 1 - oi + 1 = n := by omega
      rw [this, ih _ _ _ _ h5 (by simpa [insertsOK] using hi)]
      exact List.take_append_drop k new

def isEqualOp : Op → Bool
  | .equal _ => true
  | _ => false

theorem none_iff (v : Variant) (ops : List Op) : ∀ oi ni old new,
    (mismatches v oi ni ops old new = [] ↔ ops.all isEqualOp = true) := by
  induction ops with
  | nil => intro oi ni old new; simp [mismatches]
  | cons op rest ih =>
    intro oi ni old new
    cases op <;> simp [mismatches, isEqualOp, ih]

theorem equal_script_same (ops : List Op) : ∀ old new, Valid ops old new = true → ops.all isEqualOp = true → old = new := by
  induction ops with
  | nil => intro old new h _; simp only [Valid, Bool.and_eq_true, List.isEmpty_iff] at h; rw [h.1, h.2]
  | cons op rest ih =>
    intro old new h ha
    cases op with
    | equal n =>
      simp only [Valid, Bool.and_eq_true, decide_eq_true_eq] at h
      obtain ⟨⟨⟨h1, h2⟩, h3⟩, h4⟩ := h
      have := ih _ _ h4 (by simpa [isEqualOp] using ha)
      rw [← List.take_append_drop n old, ← List.take_append_drop n new, h3, this]
    | delete n => simp [isEqualOp] at ha
    | insert n => simp [isEqualOp] at ha
    | replace n m => simp [isEqualOp] at ha

/-- when `similar`'s index fields are the running positions, reading them off the operations is the
same as counting -/
theorem mismatchesI_seq (v : Variant) : ∀ (xs : List IOp) (oi ni : Nat) (old new : List Nat),
    InOrder oi ni xs = true → mismatchesI v xs old new = mismatches v oi ni (xs.map (·.op)) old new := by
  intro xs
  induction xs with
  | nil => intro oi ni old new _; simp [mismatchesI, mismatches]
  | cons x rest ih =>
    intro oi ni old new h
    obtain ⟨op, xoi, xni⟩ := x
    cases op with
    | equal n =>
      simp only [InOrder, Bool.and_eq_true, decide_eq_true_eq] at h
      obtain ⟨⟨h1, h2⟩, h3⟩ := h
      subst h1; subst h2
      simp only [mismatchesI, List.map_cons, mismatches]; exact ih _ _ _ _ h3
    | delete n =>
      simp only [InOrder, Bool.and_eq_true, decide_eq_true_eq] at h
      obtain ⟨⟨h1, h2⟩, h3⟩ := h
      subst h1; subst h2
      simp only [mismatchesI, List.map_cons, mismatches]; rw [ih _ _ _ _ h3]
    | insert n =>
      simp only [InOrder, Bool.and_eq_true, decide_eq_true_eq] at h
      obtain ⟨⟨h1, h2⟩, h3⟩ := h
      subst h1; subst h2
      simp only [mismatchesI, List.map_cons, mismatches]; rw [ih _ _ _ _ h3]
    | replace n m =>
      simp only [InOrder, Bool.and_eq_true, decide_eq_true_eq] at h
      obtain ⟨⟨h1, h2⟩, h3⟩ := h
      subst h1; subst h2
      simp only [mismatchesI, List.map_cons, mismatches]; rw [ih _ _ _ _ h3]

end StyluaModel.DiffLemmas
