/- Helper lemmas for Props/C03.lean and Props/C10.lean (comment and whitespace trivia). -/
import StyluaModel.Model.Trivia
namespace StyluaModel.TriviaLemmas
open StyluaModel.Trivia StyluaModel.StrLit

theorem commentsOut_append (a b : List Out) : commentsOut (a ++ b) = commentsOut a ++ commentsOut b := by
  induction a with
  | nil => rfl
  | cons x xs ih => cases x <;> simp [commentsOut, ih]

theorem commentsOut_fmtComment (eol : List Char) (p : Pos) (k : CKind) (t : List Char) :
    commentsOut (fmtComment eol p k t) = [(k, fmtText eol k t)] := by
  cases k <;> cases p <;> rfl

theorem commentsOut_ite_ws (c : Bool) (o : Out) (h : ∀ k t, o ≠ .comment k t) :
    commentsOut (if c then [o] else []) = [] := by
  cases c
  · rfl
  · cases o <;> simp_all [commentsOut]

/-- load_token_trivia keeps every comment, once, in order, with only its text normalised -/
theorem load_comments (eol : List Char) (p : Pos) (t : List Triv) :
    ∀ nl skip, commentsOut (loadAux eol p nl skip t) =
      (commentsIn t).map (fun c => (c.1, fmtText eol c.1 c.2)) := by
  induction t with
  | nil => intro nl skip; rfl
  | cons x rest ih =>
    intro nl skip
    cases x with
    | comment k txt =>
      simp only [loadAux, commentsOut_append, commentsOut_fmtComment, commentsIn, List.map_cons, ih]
      rfl
    | ws hasNl =>
      cases p with
      | leading =>
        simp only [loadAux, commentsIn]
        split
        · exact ih _ _
        · split
          · rw [commentsOut_append, ih]
            have : commentsOut (if nl = 0 then [Out.newline] else []) = [] := by split <;> rfl
            rw [this]; rfl
          · exact ih _ _
      | trailing =>
        simp only [loadAux, commentsIn, commentsOut_append, ih]
        have : commentsOut (if (nextIsBlock rest && !hasNl) = true then [Out.space] else []) = [] := by
          split <;> rfl
        rw [this]; rfl

/-! ### trim_end -/

theorem dropWhile_idem {α} (p : α → Bool) (l : List α) : (l.dropWhile p).dropWhile p = l.dropWhile p := by
  induction l with
  | nil => rfl
  | cons x xs ih =>
    simp only [List.dropWhile]
    split
    · exact ih
    · rename_i h; simp [List.dropWhile, h]

theorem trimEnd_idem (s : List Char) : trimEnd (trimEnd s) = trimEnd s := by
  simp [trimEnd, dropWhile_idem]

theorem dropWhile_head {α} (p : α → Bool) (l : List α) (x : α) (h : (l.dropWhile p).head? = some x) : p x = false := by
  induction l with
  | nil => simp at h
  | cons y ys ih =>
    simp only [List.dropWhile] at h
    split at h
    · exact ih h
    · rename_i hy
      simp at h; subst h; simpa using hy

theorem trimEnd_last (s : List Char) (c : Char) (h : (trimEnd s).getLast? = some c) : isWs c = false := by
  unfold trimEnd at h
  rw [List.getLast?_reverse] at h
  exact dropWhile_head isWs _ c h

/-! ### line endings inside block comments / long strings -/

/-- every carriage return is immediately followed by a line feed (`p`: the previous character
was a carriage return) -/
def noLoneCRAux : Bool → List Char → Bool
  | p, [] => !p
  | p, c :: r => if p then c == '\n' && noLoneCRAux false r else noLoneCRAux (c == '\r') r
def noLoneCR (l : List Char) : Bool := noLoneCRAux false l

def noCR (l : List Char) : Bool := !l.contains '\r'

/-- text in which line endings are exactly CRLF -/
def wellCRLFAux : Bool → List Char → Bool
  | p, [] => !p
  | p, c :: r =>
      if p then c == '\n' && wellCRLFAux false r
      else if c == '\n' then false else wellCRLFAux (c == '\r') r
def wellCRLF (l : List Char) : Bool := wellCRLFAux false l

theorem noCR_cons (c : Char) (l : List Char) : noCR (c :: l) = (c != '\r' && noCR l) := by
  unfold noCR
  rw [List.contains_cons]
  by_cases h : c = '\r'
  · subst h; simp
  · have h1 : ('\r' == c) = false := beq_eq_false_iff_ne.mpr (fun e => h e.symm)
    have h2 : (c != '\r') = true := by simpa using h
    rw [h1, h2]; simp

theorem crlfToLf_cons_ne (c : Char) (r : List Char) (h : c ≠ '\r') : crlfToLf (c :: r) = c :: crlfToLf r := by
  rw [crlfToLf]
  intro rest hc; exact absurd hc h

theorem crlfToLf_cr_lf (r : List Char) : crlfToLf ('\r' :: '\n' :: r) = '\n' :: crlfToLf r := by
  rw [crlfToLf]

theorem crlfToLf_cr_other (c : Char) (r : List Char) (h : c ≠ '\n') :
    crlfToLf ('\r' :: c :: r) = '\r' :: crlfToLf (c :: r) := by
  rw [crlfToLf]
  intro rest _ heq; cases heq; exact h rfl

theorem noCR_crlfToLf_aux (t : List Char) :
    (noLoneCRAux false t = true → noCR (crlfToLf t) = true) ∧
    (noLoneCRAux true t = true → noCR (crlfToLf ('\r' :: t)) = true) := by
  induction t with
  | nil => exact ⟨fun _ => rfl, fun h => by simp [noLoneCRAux] at h⟩
  | cons c r ih =>
    constructor
    · intro h
      simp only [noLoneCRAux, Bool.false_eq_true, if_false] at h
      by_cases hc : c = '\r'
      · subst hc
        exact ih.2 (by simpa using h)
      · rw [crlfToLf_cons_ne c r hc, noCR_cons]
        have h' : noLoneCRAux false r = true := by
          have : (c == '\r') = false := by simpa using hc
          rwa [this] at h
        simp [hc, ih.1 h']
    · intro h
      simp only [noLoneCRAux, if_true, Bool.and_eq_true, beq_iff_eq] at h
      obtain ⟨hc, hr⟩ := h
      subst hc
      rw [crlfToLf_cr_lf, noCR_cons]
      simp [ih.1 hr]

theorem noCR_crlfToLf (t : List Char) (h : noLoneCR t = true) : noCR (crlfToLf t) = true :=
  (noCR_crlfToLf_aux t).1 h

theorem lfToEol_lf (l : List Char) : lfToEol ['\n'] l = l := by
  induction l with
  | nil => rfl
  | cons c r ih =>
    simp only [lfToEol, ih]
    split
    · rename_i h; simp at h; simp [h]
    · rfl

theorem crlfToLf_noCR (l : List Char) (h : noCR l = true) : crlfToLf l = l := by
  induction l with
  | nil => rfl
  | cons c r ih =>
    rw [noCR_cons] at h
    simp only [Bool.and_eq_true, bne_iff_ne, ne_eq] at h
    rw [crlfToLf_cons_ne c r h.1, ih h.2]

theorem crlf_roundtrip (l : List Char) (h : noCR l = true) : crlfToLf (lfToEol ['\r', '\n'] l) = l := by
  induction l with
  | nil => rfl
  | cons c r ih =>
    rw [noCR_cons] at h
    simp only [Bool.and_eq_true, bne_iff_ne, ne_eq] at h
    simp only [lfToEol]
    split
    · rename_i hc
      have : c = '\n' := by simpa using hc
      subst this
      simp only [List.cons_append, List.nil_append]
      rw [crlfToLf_cr_lf, ih h.2]
    · rw [crlfToLf_cons_ne c _ h.1, ih h.2]

theorem wellCRLF_lfToEol (l : List Char) (h : noCR l = true) : wellCRLF (lfToEol ['\r', '\n'] l) = true := by
  unfold wellCRLF
  induction l with
  | nil => rfl
  | cons c r ih =>
    rw [noCR_cons] at h
    simp only [Bool.and_eq_true, bne_iff_ne, ne_eq] at h
    simp only [lfToEol]
    split
    · simp [wellCRLFAux, ih h.2]
    · rename_i hc
      have hn : (c == '\n') = false := by simpa using hc
      have hr : (c == '\r') = false := by simpa using h.1
      simp [wellCRLFAux, hn, hr, ih h.2]

end StyluaModel.TriviaLemmas
