/- Helper lemmas for Props/C04.lean, Props/C11.lean, Props/C06.lean (string literal rewriting). -/
import StyluaModel.Model.StrLit
import StyluaModel.Spec.StrVal

namespace StyluaModel.C04
open StyluaModel.StrLit StyluaModel.StrVal

/-! ## Lua 5.1 value preservation -/

theorem notDigit_of_quote (c : Char) (h : isQuote c = true) : c.isDigit = false := by
  simp [isQuote] at h
  rcases h with h | h <;> subst h <;> decide

theorem ne_bs_of_quote (c : Char) (h : isQuote c = true) : (c == '\\') = false := by
  simp [isQuote] at h
  rcases h with h | h <;> subst h <;> decide

theorem esc51_quote (c : Char) (h : isQuote c = true) : esc51 c = utf8 c := by
  simp [isQuote] at h
  rcases h with h | h <;> subst h <;> decide

theorem esc51_unnec (c : Char) (h : necessary c = false) : esc51 c = utf8 c := by
  simp [necessary] at h
  simp [esc51, isSimpleEsc, h]

/-- simulation: the scanner output decodes like the input, from the two decoder states in
which the scanner can be at a match boundary -/
theorem scan_sim51 (out : Q) (s : List Char) :
    drun .norm (scan out s) = drun .norm s ∧
    ∀ n acc, drun (.dig n acc) (scan out s) = drun (.dig n acc) s := by
  fun_induction scan out s with
  | case1 => simp
  | case2 c rest hq ih =>
    have h1 := notDigit_of_quote c hq
    have h2 := ne_bs_of_quote c hq
    have h3 := esc51_quote c hq
    obtain ⟨ihn, ihd⟩ := ih
    unfold emitQuote
    split <;> simp [drun, h1, h2, h3, ihn]
  | case3 c rest hq hn ih =>
    obtain ⟨ihn, ihd⟩ := ih
    constructor
    · simp [drun]; split <;> simp [ihn, ihd]
    · intro n acc; simp [drun]; split <;> simp [ihn, ihd]
  | case4 c rest hq hn ih =>
    obtain ⟨ihn, ihd⟩ := ih
    have hn' : necessary c = false := by simpa using hn
    have h3 := esc51_unnec c hn'
    have hd : c.isDigit = false := by simp [necessary] at hn'; simp [hn']
    have hb : (c == '\\') = false := by simp [necessary] at hn'; simp [hn']
    simp [drun, hd, hb, h3, ihn]
  | case5 c rest hne hq ih =>
    have h1 := notDigit_of_quote c hq
    have h2 := ne_bs_of_quote c hq
    have h3 := esc51_quote c hq
    obtain ⟨ihn, ihd⟩ := ih
    unfold emitQuote
    split <;> simp [drun, h1, h2, h3, ihn]
  | case6 c rest hne hq ih =>
    obtain ⟨ihn, ihd⟩ := ih
    by_cases hb : c = '\\'
    · subst hb
      cases rest with
      | nil => simp [scan]
      | cons d r => exact absurd rfl (fun h => hne d r rfl h)
    · have hb' : (c == '\\') = false := by simpa using hb
      constructor
      · simp [drun, hb', ihn]
      · intro n acc
        simp only [drun, hb']
        split <;> simp [ihn, ihd]

/-! ## Lua 5.2+ / Luau / LuaJIT value preservation -/

theorem props_quote (c : Char) (h : isQuote c = true) :
    c.isDigit = false ∧ (c == '\\') = false ∧ (c == '\n') = false ∧ (c == '\r') = false ∧ (c == '{') = false
    ∧ (c == '}') = false ∧ (c == '"' || c == '\'') = true ∧ hexVal c = none ∧ isSpace52 c = false
    ∧ isSimpleEsc c = false := by
  simp [isQuote] at h
  rcases h with h | h <;> subst h <;> decide

theorem bs_props : hexVal '\\' = none ∧ isSpace52 '\\' = false ∧ ('\\').isDigit = false := by decide

def boundary : D2 → Bool
  | .esc => false
  | _ => true

/-- an escaped quote and a bare quote decode alike -/
theorem drun2_esc_quote (st : D2) (hst : boundary st = true) (c : Char) (hq : isQuote c = true)
    (rest : List Char) : drun2 st ('\\' :: c :: rest) = drun2 st (c :: rest) := by
  obtain ⟨p1, p2, p3, p4, p5, p6, p7, p8, p9, p10⟩ := props_quote c hq
  obtain ⟨b1, b2, b3⟩ := bs_props
  cases st <;> simp_all [drun2, boundary]

def Sim (r r' : List Char) : Prop :=
  ∀ st, boundary st = true → ∀ v, drun2 st r = some v → drun2 st r' = some v

theorem cons?_mono {xs : List Nat} {o o' : Option (List Nat)} {v : List Nat}
    (h : ∀ w, o = some w → o' = some w) (hv : cons? xs o = some v) : cons? xs o' = some v := by
  cases o with
  | none => simp [cons?] at hv
  | some w => rw [h w rfl]; exact hv

/-- congruence under a plain (non-backslash) character -/
theorem sim_plain (c : Char) (hc : (c == '\\') = false) {r r' : List Char} (h : Sim r r') :
    Sim (c :: r) (c :: r') := by
  intro st hst v hv
  cases st with
  | esc => simp [boundary] at hst
  | norm =>
    simp only [drun2, hc, Bool.false_eq_true, ↓reduceIte] at hv ⊢
    split at hv
    · simp at hv
    · rename_i hnl; simp only [hnl]; exact cons?_mono (h .norm rfl) hv
  | dig n acc =>
    simp only [drun2, hc, Bool.false_eq_true, ↓reduceIte] at hv ⊢
    split at hv
    · rename_i hd; simp only [hd]; exact h _ rfl _ hv
    · rename_i hd; simp only [hd]
      refine cons?_mono ?_ hv
      intro w hw
      split at hw
      · simp at hw
      · rename_i hnl; simp only [hnl]; exact cons?_mono (h .norm rfl) hw
  | hex1 =>
    simp only [drun2] at hv ⊢
    split at hv
    · exact h _ rfl _ hv
    · simp at hv
  | hex2 hi =>
    simp only [drun2] at hv ⊢
    split at hv
    · exact cons?_mono (h .norm rfl) hv
    · simp at hv
  | zskip =>
    simp only [drun2, hc, Bool.false_eq_true, ↓reduceIte] at hv ⊢
    split at hv
    · rename_i hs; simp only [hs]; exact h _ rfl _ hv
    · rename_i hs; simp only [hs]; exact cons?_mono (h .norm rfl) hv
  | u0 =>
    simp only [drun2] at hv ⊢
    split at hv
    · rename_i hs; simp only [hs]; exact h _ rfl _ hv
    · simp at hv
  | uhex any acc =>
    simp only [drun2] at hv ⊢
    split at hv
    · rename_i hs; simp only [hs]
      split at hv
      · rename_i ha; simp only [ha]; exact cons?_mono (h .norm rfl) hv
      · simp at hv
    · rename_i hs; simp only [hs]
      split at hv
      · exact h _ rfl _ hv
      · simp at hv

theorem sim_esc_step (c : Char) {r r' : List Char} (h : Sim r r') :
    ∀ v, drun2 .esc (c :: r) = some v → drun2 .esc (c :: r') = some v := by
  intro v hv
  simp only [drun2] at hv ⊢
  repeat' (split at hv <;> rename_i hcnd <;> simp only [hcnd, if_true])
  all_goals first
    | (simp at hv; done)
    | exact h _ rfl _ hv
    | exact cons?_mono (h .norm rfl) hv

/-- congruence under a complete escape `\c` -/
theorem sim_esc (c : Char) {r r' : List Char} (h : Sim r r') :
    Sim ('\\' :: c :: r) ('\\' :: c :: r') := by
  obtain ⟨b1, b2, b3⟩ := bs_props
  intro st hst v hv
  cases st with
  | esc => simp [boundary] at hst
  | norm => simp only [drun2, beq_self_eq_true, ↓reduceIte] at hv ⊢; exact sim_esc_step c h v hv
  | dig n acc =>
    rw [drun2] at hv ⊢
    simp only [b3, Bool.false_and, Bool.false_eq_true, beq_self_eq_true, ↓reduceIte] at hv ⊢
    exact cons?_mono (sim_esc_step c h) hv
  | zskip =>
    rw [drun2] at hv ⊢
    simp only [b2, Bool.false_eq_true, beq_self_eq_true, ↓reduceIte] at hv ⊢
    exact sim_esc_step c h v hv
  | hex1 => simp [drun2, b1] at hv
  | hex2 hi => simp [drun2, b1] at hv
  | u0 => simp [drun2] at hv
  | uhex any acc => simp [drun2, b1] at hv

theorem esc_unnec_none (c : Char) (_hq : isQuote c = false) (hn : necessary c = false) (r : List Char) :
    drun2 .esc (c :: r) = none := by
  simp [necessary] at hn
  simp [drun2, isSimpleEsc, hn]

theorem unnec_none (st : D2) (hst : boundary st = true) (c : Char) (hq : isQuote c = false)
    (hn : necessary c = false) (r : List Char) : drun2 st ('\\' :: c :: r) = none := by
  obtain ⟨b1, b2, b3⟩ := bs_props
  have := esc_unnec_none c hq hn r
  cases st <;> simp_all [drun2, boundary, cons?]

theorem scan_sim52 (out : Q) (s : List Char) : Sim s (scan out s) := by
  fun_induction scan out s with
  | case1 => intro st _ v h; exact h
  | case2 c rest hq ih =>
    -- `\q`
    have hcq : (c == '\\') = false := (props_quote c hq).2.1
    intro st hst v hv
    rw [drun2_esc_quote st hst c hq] at hv
    unfold emitQuote
    split
    · simp only [List.cons_append, List.nil_append]
      rw [drun2_esc_quote st hst c hq]
      exact sim_plain c hcq ih st hst v hv
    · exact sim_plain c hcq ih st hst v hv
  | case3 c rest hq hn ih => exact sim_esc c ih
  | case4 c rest hq hn ih =>
    intro st hst v hv
    rw [unnec_none st hst c (by simpa using hq) (by simpa using hn)] at hv
    simp at hv
  | case5 c rest hne hq ih =>
    have hcq : (c == '\\') = false := (props_quote c hq).2.1
    intro st hst v hv
    unfold emitQuote
    split
    · simp only [List.cons_append, List.nil_append]
      rw [drun2_esc_quote st hst c hq]
      exact sim_plain c hcq ih st hst v hv
    · exact sim_plain c hcq ih st hst v hv
  | case6 c rest hne hq ih =>
    by_cases hb : c = '\\'
    · subst hb
      cases rest with
      | nil => simp only [scan]; intro st _ v hv; exact hv
      | cons d r => exact absurd rfl (fun h => hne d r rfl h)
    · exact sim_plain c (by simpa using hb) ih

/-! ## The output is again one string token -/

theorem qchar_isQuote (o : Q) : isQuote (qchar o) = true := by cases o <;> decide

theorem quote_props (c : Char) (h : isQuote c = true) :
    (c == '\\') = false ∧ (c == '\n') = false ∧ (c == '\r') = false := by
  simp [isQuote] at h
  rcases h with h | h <;> subst h <;> decide

theorem ne_qchar_of_not_quote (c : Char) (h : isQuote c = false) (o : Q) : (c == qchar o) = false := by
  cases hc : c == qchar o
  · rfl
  · have : c = qchar o := by simpa using hc
    rw [this, qchar_isQuote] at h; cases h

/-- strict (Lua 5.1) acceptance is preserved by the rewrite, for the *new* delimiter -/
theorem scan_lex51 (out : Q) (q : Char) (s : List Char)
    (h : lexRun false false q false false s = true) :
    lexRun false false (qchar out) false false (scan out s) = true := by
  fun_induction scan out s with
  | case1 => simp [lexRun]
  | case2 c rest hq ih =>
    obtain ⟨p1, p2, p3⟩ := quote_props c hq
    simp [lexRun] at h
    have ih' := ih h
    unfold emitQuote
    split
    · simp [lexRun, ih']
    · rename_i hne
      have : (c == qchar out) = false := by simpa using hne
      simp [lexRun, p1, p2, p3, this, ih']
  | case3 c rest hq hn ih =>
    simp [lexRun] at h
    simp [lexRun, ih h]
  | case4 c rest hq hn ih =>
    simp [lexRun] at h
    have hn' : necessary c = false := by simpa using hn
    have hq' : isQuote c = false := by simpa using hq
    have hne := ne_qchar_of_not_quote c hq' out
    simp [necessary] at hn'
    simp [lexRun, hn', ih h]
    simpa using hne
  | case5 c rest hne hq ih =>
    obtain ⟨p1, p2, p3⟩ := quote_props c hq
    simp [lexRun, p1, p2, p3] at h
    have ih' := ih h.2
    unfold emitQuote
    split
    · simp [lexRun, ih']
    · rename_i hne
      have : (c == qchar out) = false := by simpa using hne
      simp [lexRun, p1, p2, p3, this, ih']
  | case6 c rest hne hq ih =>
    by_cases hb : c = '\\'
    · subst hb
      cases rest with
      | nil => simp [lexRun] at h
      | cons d r => exact absurd rfl (fun h => hne d r rfl h)
    · have hq' : isQuote c = false := by simpa using hq
      have hneq := ne_qchar_of_not_quote c hq' out
      simp [lexRun, hb] at h
      simp [lexRun, hb, h.1, ih h.2.2]
      simpa using hneq

/-- anything the strict machine accepts, full_moon accepts in every dialect mode -/
theorem lex_mono (v52 zf : Bool) (q : Char) (s : List Char) :
    ∀ e z, lexRun false false q e false s = true → lexRun v52 zf q e z s = true := by
  induction s with
  | nil => intro e z h; simpa [lexRun] using h
  | cons c cs ih =>
    intro e z h
    cases e with
    | true =>
      simp [lexRun] at h
      simp only [lexRun]
      split <;> exact ih _ _ h
    | false =>
      simp only [lexRun] at h ⊢
      split at h
      · rename_i hc; simp only [hc, if_true]; exact ih _ _ h
      · rename_i hc; simp only [hc]
        split at h
        · simp at h
        · rename_i hnl; simp only [hnl]
          split at h
          · simp at h
          · rename_i hq; simp only [hq]; exact ih _ _ h

/-! ## Numbers -/


/-! ## idempotence of the rewrite -/

theorem scan_cons_ne_bs (q : Q) (c : Char) (r : List Char) (h : c ≠ '\\') :
    scan q (c :: r) = (if isQuote c then emitQuote q c else [c]) ++ scan q r := by
  rw [scan]
  · split <;> simp
  · intro c' rest hc; exact absurd hc h

theorem scan_bs_cons (q : Q) (c : Char) (r : List Char) :
    scan q ('\\' :: c :: r) =
      if isQuote c then emitQuote q c ++ scan q r
      else if necessary c then '\\' :: c :: scan q r else c :: scan q r := by
  rw [scan]

theorem quote_ne_bs (c : Char) (h : isQuote c = true) : c ≠ '\\' := by
  intro hc; subst hc; simp [isQuote] at h

theorem scan_emitQuote (q : Q) (c : Char) (hq : isQuote c = true) (X : List Char) :
    scan q (emitQuote q c ++ X) = emitQuote q c ++ scan q X := by
  unfold emitQuote
  split
  · simp only [List.cons_append, List.nil_append]
    rw [scan_bs_cons]; simp [emitQuote, *]
  · rename_i hne
    simp only [List.cons_append, List.nil_append]
    rw [scan_cons_ne_bs q c X (quote_ne_bs c hq)]
    simp [hq, emitQuote, hne]

theorem scan_idem (q : Q) (s : List Char) : scan q (scan q s) = scan q s := by
  fun_induction scan q s with
  | case1 => rfl
  | case2 c rest hq ih => rw [scan_emitQuote q c hq, ih]
  | case3 c rest hq hn ih =>
    rw [scan_bs_cons]; simp only [hq, hn, ih]; simp
  | case4 c rest hq hn ih =>
    have hn' : necessary c = false := by simpa using hn
    have hb : c ≠ '\\' := by intro hc; subst hc; simp [necessary] at hn'
    rw [scan_cons_ne_bs q c _ hb, ih]
    simp [hq]
  | case5 c rest hne hq ih => rw [scan_emitQuote q c hq, ih]
  | case6 c rest hne hq ih =>
    by_cases hb : c = '\\'
    · subst hb
      cases rest with
      | nil => simp [scan, isQuote]
      | cons d r => exact absurd rfl (fun h => hne d r rfl h)
    · rw [scan_cons_ne_bs q c _ hb, ih]; simp [hq]

theorem countC_append (ch : Char) (a b : List Char) : countC ch (a ++ b) = countC ch a + countC ch b := by
  induction a with
  | nil => simp [countC]
  | cons x xs ih => simp [countC, ih]; omega

theorem countC_emitQuote (ch : Char) (hch : ch ≠ '\\') (q : Q) (c : Char) :
    countC ch (emitQuote q c) = countC ch [c] := by
  unfold emitQuote
  split
  · have : ('\\' == ch) = false := beq_eq_false_iff_ne.mpr (fun e => hch e.symm)
    simp [countC, this]
  · rfl

theorem countC_scan (ch : Char) (hch : ch ≠ '\\') (q : Q) (s : List Char) : countC ch (scan q s) = countC ch s := by
  have hbs : ('\\' == ch) = false := beq_eq_false_iff_ne.mpr (fun e => hch e.symm)
  fun_induction scan q s with
  | case1 => rfl
  | case2 c rest hq ih =>
    rw [countC_append, countC_emitQuote ch hch, ih]; simp [countC, hbs]
  | case3 c rest hq hn ih => simp [countC, ih]
  | case4 c rest hq hn ih => simp [countC, ih, hbs]
  | case5 c rest hne hq ih =>
    rw [countC_append, countC_emitQuote ch hch, ih]; simp [countC]
  | case6 c rest hne hq ih => simp [countC, ih]

theorem quoteToUse_scan (style : QuoteStyle) (q : Q) (s : List Char) :
    quoteToUse style (scan q s) = quoteToUse style s := by
  cases style <;> simp [quoteToUse, countC_scan _ (by decide : '\'' ≠ '\\'), countC_scan _ (by decide : '"' ≠ '\\')]

theorem rewrite_idem (style : QuoteStyle) (b : List Char) :
    rewrite style (rewrite style b).2 = rewrite style b := by
  simp only [rewrite, quoteToUse_scan, scan_idem]

end StyluaModel.C04
