/- Helper lemmas for the Luau type-parenthesis theorems (Props/C02.lean, Props/C01.lean). -/
import StyluaModel.Spec.TypeSpec
namespace StyluaModel.TypeLemmas
open StyluaModel.TypeParen StyluaModel.TypeSpec

theorem cur : current.ctxIntoParen = true := rfl

/-! ### meaning -/

/-- under `within_generic` the head parenthesis of an argument survives (and none is invented) -/
theorem reparen_fmtT (o : List Nat → Bool) (t s : Ty) (p : List Nat) (c : Ctx) (h : c.wg = true) :
    reparen (fmtT current o p c t) s = reparen t s := by
  cases t with
  | paren x =>
    have hk : keep x c = true := by cases x <;> simp [keep, h]
    simp only [fmtT, hk, if_true]
    split <;> rfl
  | pack ts => simp only [fmtT]; split <;> rfl
  | _ => simp only [fmtT, reparen]

mutual
theorem sem_fmtT (o : List Nat → Bool) : ∀ (t : Ty) (p : List Nat) (c : Ctx), sem (fmtT current o p c t) = sem t
  | .basic n, p, c => by simp [fmtT]
  | .opt t, p, c => by simp [fmtT, sem, sem_fmtT o t]
  | .union ts, p, c => by simp [fmtT, sem, semL_fmtL o ts]
  | .inter ts, p, c => by simp [fmtT, sem, semL_fmtL o ts]
  | .fn args ret, p, c => by simp [fmtT, sem, semL_fmtL o args, sem_fmtT o ret]
  | .paren t, p, c => by
      simp only [fmtT, cur, if_true]
      split
      · simp [sem, sem_fmtT o t]
      · split
        · simp [sem, sem_fmtT o t]
        · simp [sem, sem_fmtT o t]
  | .pack ts, p, c => by
      simp only [fmtT]
      split <;> simp [sem, semL_fmtL o ts]
  | .variadic t, p, c => by simp [fmtT, sem, sem_fmtT o t]
  | .generic n ts, p, c => by simp [fmtT, sem, semG_fmtL o ts]
  | .tbl ts, p, c => by simp [fmtT, sem, semL_fmtL o ts]
  | .indexer k w, p, c => by simp [fmtT, sem, sem_fmtT o k, sem_fmtT o w]
theorem semL_fmtL (o : List Nat → Bool) : ∀ (ts : List Ty) (p : List Nat) (i : Nat) (c : Ctx),
    semL (fmtL current o p i c ts) = semL ts
  | [], p, i, c => by simp [fmtL, semL]
  | t :: ts, p, i, c => by simp [fmtL, semL, sem_fmtT o t, semL_fmtL o ts]
/-- under `within_generic` no parenthesis is ever dropped, so a one-element pack stays one -/
theorem semG_fmtL (o : List Nat → Bool) : ∀ (ts : List Ty) (p : List Nat) (i : Nat) (c : Ctx), c.wg = true →
    semG (fmtL current o p i c ts) = semG ts
  | [], p, i, c, _ => by simp [fmtL, semG]
  | t :: ts, p, i, c, h => by
      simp only [fmtL, semG, sem_fmtT o t, semG_fmtL o ts p (i + 1) c h, reparen_fmtT o t _ _ c h]
end

/-! ### re-parse safety -/

theorem okAt_opt (pos : Pos) (a b : Ty) : okAt pos (.opt a) = okAt pos (.opt b) := by cases pos <;> rfl
theorem okAt_union (pos : Pos) (a b : List Ty) : okAt pos (.union a) = okAt pos (.union b) := by cases pos <;> rfl
theorem okAt_inter (pos : Pos) (a b : List Ty) : okAt pos (.inter a) = okAt pos (.inter b) := by cases pos <;> rfl
theorem okAt_fn (pos : Pos) (a b : List Ty) (c d : Ty) : okAt pos (.fn a c) = okAt pos (.fn b d) := by cases pos <;> rfl

/-- a parenthesis that the rule drops stood around something that may stand bare there -/
theorem drop_ok (x : Ty) (c : Ctx) (pos : Pos) (hk : keep x c = false) (hc : covers c pos = true) :
    okAt pos x = true := by
  cases pos <;> cases x <;> simp_all [keep, covers, okAt]

mutual
theorem wf_fmtT (o : List Nat → Bool) : ∀ (t : Ty) (pos : Pos) (p : List Nat) (c : Ctx),
    wf pos t = true → covers c pos = true →
    wf pos (fmtT current o p c t) = true ∧ (parenable t = true → parenable (fmtT current o p c t) = true)
  | .basic n, pos, p, c, h, _ => by simpa [fmtT] using h
  | .opt t, pos, p, c, h, _ => by
      simp only [wf, Bool.and_eq_true] at h
      simp only [fmtT, wf, Bool.and_eq_true, parenable, implies_true, and_true]
      exact ⟨by rw [okAt_opt pos _ t]; exact h.1, (wf_fmtT o t .optBase _ _ h.2 (by simp [covers])).1⟩
  | .union ts, pos, p, c, h, _ => by
      simp only [wf, Bool.and_eq_true] at h
      simp only [fmtT, wf, Bool.and_eq_true, parenable, implies_true, and_true]
      exact ⟨by rw [okAt_union pos _ ts]; exact h.1, wfL_fmtL o ts .uMember _ _ _ h.2 (by simp [covers])⟩
  | .inter ts, pos, p, c, h, _ => by
      simp only [wf, Bool.and_eq_true] at h
      simp only [fmtT, wf, Bool.and_eq_true, parenable, implies_true, and_true]
      exact ⟨by rw [okAt_inter pos _ ts]; exact h.1, wfL_fmtL o ts .iMember _ _ _ h.2 (by simp [covers])⟩
  | .fn args ret, pos, p, c, h, _ => by
      simp only [wf, Bool.and_eq_true] at h
      simp only [fmtT, wf, Bool.and_eq_true, parenable, implies_true, and_true]
      exact ⟨⟨by rw [okAt_fn pos _ args _ ret]; exact h.1.1, wfL_fmtL o args .top _ _ _ h.1.2 rfl⟩,
        (wf_fmtT o ret .top _ _ h.2 rfl).1⟩
  | .paren t, pos, p, c, h, hc => by
      simp only [wf, Bool.and_eq_true] at h
      obtain ⟨hp, hw⟩ := h
      simp only [fmtT, cur, if_true]
      split
      · have := wf_fmtT o t .top (0 :: p) Ctx.new hw rfl
        simp only [wf, Bool.and_eq_true, parenable, implies_true, and_true]
        exact ⟨this.2 hp, this.1⟩
      · split
        · have := wf_fmtT o t .top (0 :: p) c hw rfl
          simp only [wf, Bool.and_eq_true, parenable, implies_true, and_true]
          exact ⟨this.2 hp, this.1⟩
        · rename_i hk
          have hk' : keep t c = false := by simpa using hk
          -- the content may stand bare at this position, and was well-formed as a whole type
          have hok := drop_ok t c pos hk' hc
          have hwpos : wf pos t = true := by
            cases t <;> simp_all [wf]
          have := wf_fmtT o t pos (0 :: p) c hwpos hc
          exact ⟨this.1, fun _ => this.2 hp⟩
  | .pack ts, pos, p, c, h, _ => by
      simp only [wf] at h
      simp only [fmtT]
      split
      · simp only [wf, parenable, implies_true, and_true]; exact wfL_fmtL o ts .top _ _ _ h rfl
      · simp only [wf, parenable, implies_true, and_true]; exact wfL_fmtL o ts .top _ _ _ h rfl
  | .variadic t, pos, p, c, h, _ => by
      simp only [wf] at h
      simp only [fmtT, wf, parenable]
      exact ⟨(wf_fmtT o t .varOperand _ _ h (by simp [covers])).1, fun h => by cases h⟩
  | .generic n ts, pos, p, c, h, _ => by
      simp only [wf] at h
      simp only [fmtT, wf, parenable, implies_true, and_true]
      exact wfL_fmtL o ts .genArg _ _ _ h (by simp [covers])
  | .tbl ts, pos, p, c, h, _ => by
      simp only [wf] at h
      simp only [fmtT, wf, parenable, implies_true, and_true]
      exact wfL_fmtL o ts .top _ _ _ h rfl
  | .indexer k w, pos, p, c, h, _ => by
      simp only [wf, Bool.and_eq_true] at h
      simp only [fmtT, wf, Bool.and_eq_true, parenable]
      exact ⟨⟨(wf_fmtT o k .top _ _ h.1 rfl).1, (wf_fmtT o w .top _ _ h.2 rfl).1⟩, fun h => by cases h⟩
theorem wfL_fmtL (o : List Nat → Bool) : ∀ (ts : List Ty) (pos : Pos) (p : List Nat) (i : Nat) (c : Ctx),
    wfL pos ts = true → covers c pos = true → wfL pos (fmtL current o p i c ts) = true
  | [], pos, p, i, c, _, _ => by simp [fmtL, wfL]
  | t :: ts, pos, p, i, c, h, hc => by
      simp only [wfL, Bool.and_eq_true] at h
      simp only [fmtL, wfL, Bool.and_eq_true]
      exact ⟨(wf_fmtT o t pos _ _ h.1 hc).1, wfL_fmtL o ts pos p (i + 1) c h.2 hc⟩
end

end StyluaModel.TypeLemmas
