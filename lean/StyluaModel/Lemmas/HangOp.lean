/- Helper lemmas for Props/C03.lean: hang_binop (Model/HangOp.lean). -/
import StyluaModel.Model.HangOp
import StyluaModel.Lemmas.Semi
import StyluaModel.Lemmas.EndToken
namespace StyluaModel.HangOpLemmas
open StyluaModel.Trivia StyluaModel.Semi StyluaModel.HangOp StyluaModel.SemiLemmas StyluaModel.TriviaLemmas

theorem commentsOut_ownLine (l : List Out) : commentsOut (ownLine l) = commentsOut l := by
  induction l with
  | nil => rfl
  | cons x r ih =>
    simp only [ownLine, List.flatMap_cons] at ih ⊢
    rw [commentsOut_append, ih]
    cases x <;> simp [commentsOut]

theorem hang_comments (a b c : List Triv) :
    commentsOut (hangBinop a b c).1 = commentsIn a ++ commentsIn b ++ commentsIn c ∧ commentsOut (hangBinop a b c).2 = [] := by
  simp only [hangBinop, commentsOut_append, commentsOut_ownLine, sameLine, commentsOut_spaced, commentsOut_raw]
  simp [commentsOut]
end StyluaModel.HangOpLemmas

namespace StyluaModel.FieldKeyLemmas
open StyluaModel.Trivia StyluaModel.Semi StyluaModel.FieldKey StyluaModel.SemiLemmas StyluaModel.TriviaLemmas

theorem commentsOut_only (l : List Out) : commentsOut (onlyComments l) = commentsOut l := by
  induction l with
  | nil => rfl
  | cons x r ih => cases x <;> simp [onlyComments, commentsOut, ih]

theorem commentsOut_lines (l : List Out) :
    commentsOut (l.flatMap (fun c => [Out.indent, c, Out.newline])) = commentsOut l := by
  induction l with
  | nil => rfl
  | cons x r ih =>
    simp only [List.flatMap_cons, commentsOut_append, ih]
    cases x <;> simp [commentsOut]

theorem key_comments (eol : List Char) (m single : Bool) (kl kt el et : List Triv) :
    commentsOut (keyLeading eol m single kl kt el et) =
      norm eol (commentsIn kl) ++ (if single then [] else norm eol (commentsIn kt)) ++ commentsIn el ++ commentsIn et := by
  have h1 : commentsOut (load eol .leading kl) = norm eol (commentsIn kl) := load_comments eol .leading kl 0 false
  have h2 : commentsOut (load eol .trailing kt) = norm eol (commentsIn kt) := load_comments eol .trailing kt 0 false
  cases single <;> cases m <;>
    simp [keyLeading, commentsOut_append, commentsOut_lines, commentsOut_only, commentsOut_raw, commentsIn_append, h1, h2,
      commentsOut, List.append_assoc]
end StyluaModel.FieldKeyLemmas

namespace StyluaModel.PunctLemmas
open StyluaModel.Trivia StyluaModel.Semi StyluaModel.FieldKey StyluaModel.HangOp StyluaModel.Punct
open StyluaModel.SemiLemmas StyluaModel.TriviaLemmas StyluaModel.HangOpLemmas StyluaModel.FieldKeyLemmas

theorem prepend_comments (vLead : List Out) : commentsOut (prependNewlineIndent vLead) = commentsOut vLead := by
  simp [prependNewlineIndent, commentsOut_append, commentsOut_ownLine, commentsOut_only, commentsOut]

theorem after_comments (eol : List Char) (vTrail : List Out) (pl pt : List Triv) :
    commentsOut (outs (afterValue eol vTrail pl pt)) =
      norm eol (commentsIn pl) ++ commentsOut vTrail ++ norm eol (commentsIn pt) := by
  have h1 : commentsOut (load eol .leading pl) = norm eol (commentsIn pl) := load_comments eol .leading pl 0 false
  have h2 : commentsOut (load eol .trailing pt) = norm eol (commentsIn pt) := load_comments eol .trailing pt 0 false
  simp only [afterValue, outs, List.filterMap_append, List.filterMap_map, Function.comp_def]
  simp [commentsOut_append, h1, h2, sameLine, commentsOut_spaced, commentsOut_only, List.append_assoc]
end StyluaModel.PunctLemmas

namespace StyluaModel.SugarLemmas
open StyluaModel.Trivia StyluaModel.Semi StyluaModel.FieldKey StyluaModel.HangOp StyluaModel.Sugar
open StyluaModel.SemiLemmas StyluaModel.TriviaLemmas StyluaModel.HangOpLemmas StyluaModel.FieldKeyLemmas

theorem drop_comments (eol : List Char) (ol ot al at' cl ct : List Triv) :
    commentsOut (dropParens eol ol ot al at' cl ct).1 ++ commentsOut (dropParens eol ol ot al at' cl ct).2 =
      SemiLemmas.norm eol (commentsIn al) ++ SemiLemmas.norm eol (commentsIn at') ++ SemiLemmas.norm eol (commentsIn ct) := by
  have h1 : commentsOut (load eol .leading al) = SemiLemmas.norm eol (commentsIn al) := load_comments eol .leading al 0 false
  have h2 : commentsOut (load eol .trailing (at' ++ ct)) = SemiLemmas.norm eol (commentsIn (at' ++ ct)) :=
    load_comments eol .trailing (at' ++ ct) 0 false
  simp only [Sugar.dropParens, commentsOut_append, h1, h2, commentsIn_append]
  simp [commentsOut, SemiLemmas.norm, List.append_assoc]

theorem add_comments (eol : List Char) (al at' : List Triv) :
    commentsOut (addParens eol al at').1 ++ commentsOut (addParens eol al at').2 =
      SemiLemmas.norm eol (commentsIn al) ++ SemiLemmas.norm eol (commentsIn at') := by
  have h1 : commentsOut (load eol .leading al) = SemiLemmas.norm eol (commentsIn al) := load_comments eol .leading al 0 false
  have h2 : commentsOut (load eol .trailing at') = SemiLemmas.norm eol (commentsIn at') := load_comments eol .trailing at' 0 false
  simp only [addParens, sameLine, commentsOut_spaced, commentsOut_only, h1, h2]
end StyluaModel.SugarLemmas

namespace StyluaModel.TableFieldLemmas
open StyluaModel.Trivia StyluaModel.Semi StyluaModel.HangOp StyluaModel.TableField
open StyluaModel.SemiLemmas StyluaModel.TriviaLemmas StyluaModel.HangOpLemmas

def blocksOf : List Triv → List (CKind × List Char)
  | [] => []
  | .comment (.block l) t :: r => (.block l, t) :: blocksOf r
  | _ :: r => blocksOf r

def linesOf (eol : List Char) : List Triv → List (CKind × List Char)
  | [] => []
  | .comment .line t :: r => (.line, fmtText eol .line t) :: linesOf eol r
  | _ :: r => linesOf eol r

theorem rawBlocks_comments (l : List Triv) : commentsOut (rawBlocks l) = blocksOf l := by
  induction l with
  | nil => rfl
  | cons x r ih =>
    cases x with
    | ws b => simpa [rawBlocks, blocksOf] using ih
    | comment k t => cases k <;> simp [rawBlocks, blocksOf, commentsOut, ih]

theorem movedLines_comments (eol : List Char) (l : List Triv) : commentsOut (movedLines eol l) = linesOf eol l := by
  induction l with
  | nil => rfl
  | cons x r ih =>
    cases x with
    | ws b => simpa [movedLines, linesOf] using ih
    | comment k t => cases k <;> simp [movedLines, linesOf, commentsOut, commentsOut_append, fmtComment, ih]

theorem field_comments (eol : List Char) (vt : List Triv) (sep : Option (List Triv × List Triv)) :
    commentsOut (outs (afterField eol vt sep)) =
      blocksOf vt ++ (match sep with
        | some (pl, pt) => SemiLemmas.norm eol (commentsIn pl) ++ SemiLemmas.norm eol (commentsIn pt)
        | none => []) ++ linesOf eol vt := by
  cases sep with
  | none =>
    simp only [afterField, outs, List.filterMap_append, List.filterMap_map, Function.comp_def]
    simp [commentsOut_append, sameLine, commentsOut_spaced, rawBlocks_comments, movedLines_comments, commentsOut]
  | some p =>
    obtain ⟨pl, pt⟩ := p
    have h1 : commentsOut (load eol .leading pl) = SemiLemmas.norm eol (commentsIn pl) := load_comments eol .leading pl 0 false
    have h2 : commentsOut (load eol .trailing pt) = SemiLemmas.norm eol (commentsIn pt) := load_comments eol .trailing pt 0 false
    simp only [afterField, outs, List.filterMap_append, List.filterMap_map, Function.comp_def]
    simp [commentsOut_append, sameLine, commentsOut_spaced, rawBlocks_comments, movedLines_comments, commentsOut, h1, h2,
      List.append_assoc]
end StyluaModel.TableFieldLemmas

namespace StyluaModel.CallArgLemmas
open StyluaModel.Trivia StyluaModel.Semi StyluaModel.HangOp StyluaModel.FieldKey StyluaModel.CallArg
open StyluaModel.SemiLemmas StyluaModel.TriviaLemmas StyluaModel.HangOpLemmas StyluaModel.FieldKeyLemmas

def isBlockC (c : CKind × List Char) : Bool := match c.1 with | .block _ => true | _ => false
def isLineC (c : CKind × List Char) : Bool := match c.1 with | .line => true | _ => false

theorem blocksOut_comments (l : List Out) : commentsOut (blocksOut l) = (commentsOut l).filter isBlockC := by
  induction l with
  | nil => rfl
  | cons x r ih =>
    cases x with
    | comment k t => cases k <;> simp [blocksOut, commentsOut, isBlockC, ih, List.filter_cons]
    | _ => simpa [blocksOut, commentsOut] using ih

theorem linesOut_comments (l : List Out) : commentsOut (linesOut l) = (commentsOut l).filter isLineC := by
  induction l with
  | nil => rfl
  | cons x r ih =>
    cases x with
    | comment k t => cases k <;> simp [linesOut, commentsOut, isLineC, ih, List.filter_cons]
    | _ => simpa [linesOut, commentsOut] using ih

theorem arg_comments (eol : List Char) (aTrail : List Out) (sep : Option (List Triv × List Triv)) :
    commentsOut (outs (afterArg eol aTrail sep)) =
      (commentsOut aTrail).filter isBlockC ++ (match sep with
        | some (pl, pt) => SemiLemmas.norm eol (commentsIn pt) ++ SemiLemmas.norm eol (commentsIn pl)
        | none => []) ++ (commentsOut aTrail).filter isLineC := by
  cases sep with
  | none =>
    simp only [afterArg, outs, List.filterMap_append, List.filterMap_map, Function.comp_def]
    simp [commentsOut_append, sameLine, commentsOut_spaced, blocksOut_comments, linesOut_comments, commentsOut]
  | some p =>
    obtain ⟨pl, pt⟩ := p
    have h1 : commentsOut (load eol .leading pl) = SemiLemmas.norm eol (commentsIn pl) := load_comments eol .leading pl 0 false
    have h2 : commentsOut (load eol .trailing pt) = SemiLemmas.norm eol (commentsIn pt) := load_comments eol .trailing pt 0 false
    simp only [afterArg, outs, List.filterMap_append, List.filterMap_map, Function.comp_def]
    simp [commentsOut_append, sameLine, commentsOut_spaced, blocksOut_comments, linesOut_comments, commentsOut,
      commentsOut_ownLine, commentsOut_only, h1, h2, List.append_assoc]
end StyluaModel.CallArgLemmas

namespace StyluaModel.LineSafe
open StyluaModel.Trivia StyluaModel.Semi StyluaModel.HangOp StyluaModel.FieldKey

theorem lineSafe_append (a : List Out) : ∀ b, lineSafe a = true → lineSafe b = true → lineSafe (a ++ b) = true := by
  induction a with
  | nil => intro b _ hb; simpa using hb
  | cons x r ih =>
    intro b ha hb
    cases x with
    | newline => rw [List.cons_append, lineSafe_newline]; rw [lineSafe_newline] at ha; exact ih b ha hb
    | indent => rw [List.cons_append, lineSafe_indent]; rw [lineSafe_indent] at ha; exact ih b ha hb
    | space => rw [List.cons_append, lineSafe_space]; rw [lineSafe_space] at ha; exact ih b ha hb
    | comment k t =>
      cases k with
      | line =>
        cases r with
        | nil => simp [lineSafe] at ha
        | cons y ys =>
          cases y with
          | newline =>
            simp only [lineSafe] at ha
            simp only [List.cons_append, lineSafe]
            have := ih b (by simpa [lineSafe] using ha) hb
            simpa [lineSafe] using this
          | indent => simp [lineSafe] at ha
          | space => simp [lineSafe] at ha
          | comment k2 t2 => simp [lineSafe] at ha
      | block lvl =>
        have ha' : lineSafe r = true := by simpa [lineSafe] using ha
        have := ih b ha' hb
        simpa [lineSafe] using this
      | shebang =>
        have ha' : lineSafe r = true := by simpa [lineSafe] using ha
        have := ih b ha' hb
        simpa [lineSafe] using this

theorem lines_safe (l : List Out) : lineSafe (l.flatMap (fun c => [Out.indent, c, Out.newline])) = true := by
  induction l with
  | nil => rfl
  | cons x r ih =>
    simp only [List.flatMap_cons, List.cons_append, List.nil_append, lineSafe_indent]
    cases x with
    | comment k t => cases k <;> simpa [lineSafe] using ih
    | newline => simpa [lineSafe] using ih
    | indent => simpa [lineSafe] using ih
    | space => simpa [lineSafe] using ih

/-- the new leading trivia of a table field's key is line-safe: the key is never swallowed by the comments moved in
front of it -/
theorem keyLeading_safe (eol : List Char) (m s : Bool) (kl kt el et : List Triv) :
    lineSafe (keyLeading eol m s kl kt el et) = true := by
  unfold keyLeading
  apply lineSafe_append
  · apply lineSafe_append
    · exact load_leading_safe eol kl
    · exact lines_safe _
  · cases m <;> simp [lineSafe]
theorem ownLine_safe (l : List Out) : ∀ rest, lineSafe rest = true →
    lineSafe (ownLine l ++ (Out.newline :: rest)) = true := by
  induction l with
  | nil => intro rest h; simpa [ownLine, lineSafe_newline] using h
  | cons x r ih =>
    intro rest h
    have hr := ih rest h
    simp only [ownLine, List.flatMap_cons, List.cons_append, List.nil_append, List.append_assoc, lineSafe_newline,
      lineSafe_indent] at hr ⊢
    cases x with
    | comment k t =>
      cases k with
      | line =>
        -- what follows the comment starts with a line ending
        cases r with
        | nil => simpa [lineSafe] using h
        | cons y ys =>
          simp only [List.flatMap_cons, List.cons_append, List.nil_append, List.append_assoc] at hr ⊢
          simpa [lineSafe] using hr
      | block lvl => simpa [lineSafe] using hr
      | shebang => simpa [lineSafe] using hr
    | newline => simpa [lineSafe] using hr
    | indent => simpa [lineSafe] using hr
    | space => simpa [lineSafe] using hr

/-- with no comment behind the operator, the hung operator's leading trivia is line-safe -/
theorem hang_safe (a b c : List Triv) (hb : rawComments b = []) : lineSafe (hangBinop a b c).1 = true := by
  simp only [hangBinop, hb, sameLine, List.flatMap_nil, List.append_nil, List.append_assoc]
  have h2 := ownLine_safe (rawComments c) [Out.indent] (by simp [lineSafe])
  -- ownLine a ++ (ownLine c ++ [newline, indent]): the second part starts with a line ending or is the final pair
  cases hc : rawComments c with
  | nil =>
    simp only [ownLine, List.flatMap_nil, List.nil_append]
    exact ownLine_safe (rawComments a) [Out.indent] (by simp [lineSafe])
  | cons y ys =>
    rw [hc] at h2
    simp only [ownLine, List.flatMap_cons, List.cons_append, List.nil_append, List.append_assoc] at h2 ⊢
    have := ownLine_safe (rawComments a) (Out.indent :: y :: (ys.flatMap (fun c => [Out.newline, Out.indent, c]) ++ [Out.newline, Out.indent]))
      (by simpa [lineSafe_newline] using h2)
    simpa [ownLine] using this
end StyluaModel.LineSafe
