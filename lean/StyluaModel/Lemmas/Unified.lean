/- Helper lemmas for Props/C18.lean (unified diff: similar's grouping + hunk construction vs the strict applier). -/
import StyluaModel.Model.Unified
import StyluaModel.Lemmas.Diff
namespace StyluaModel.UnifiedLemmas
open StyluaModel.Diff StyluaModel.Unified

def spanO (xs : List IOp) : Nat := (xs.map fun x => oldLen x.op).sum
def spanN (xs : List IOp) : Nat := (xs.map fun x => newLen x.op).sum

@[simp] theorem spanO_nil : spanO [] = 0 := rfl
@[simp] theorem spanN_nil : spanN [] = 0 := rfl
@[simp] theorem spanO_cons (x : IOp) (xs) : spanO (x :: xs) = oldLen x.op + spanO xs := by simp [spanO]
@[simp] theorem spanN_cons (x : IOp) (xs) : spanN (x :: xs) = newLen x.op + spanN xs := by simp [spanN]
@[simp] theorem spanO_append (a b : List IOp) : spanO (a ++ b) = spanO a + spanO b := by simp [spanO]
@[simp] theorem spanN_append (a b : List IOp) : spanN (a ++ b) = spanN a + spanN b := by simp [spanN]

/-- the operation sits inside both files and an Equal really covers equal lines -/
def OpOK (old new : List Nat) (x : IOp) : Prop :=
  x.oi + oldLen x.op ≤ old.length ∧ x.ni + newLen x.op ≤ new.length ∧
  (∀ n, x.op = .equal n → (old.drop x.oi).take n = (new.drop x.ni).take n)

/-- a run of operations whose index fields are the running positions, starting at (oi, ni) -/
def Run (old new : List Nat) : (oi ni : Nat) → List IOp → Prop
  | _, _, [] => True
  | oi, ni, x :: rest => x.oi = oi ∧ x.ni = ni ∧ OpOK old new x ∧ Run old new (oi + oldLen x.op) (ni + newLen x.op) rest

theorem run_append (old new : List Nat) (a b : List IOp) : ∀ oi ni,
    Run old new oi ni (a ++ b) ↔ Run old new oi ni a ∧ Run old new (oi + spanO a) (ni + spanN a) b := by
  induction a with
  | nil => intro oi ni; simp [Run]
  | cons x a ih =>
    intro oi ni
    simp only [List.cons_append, Run, ih, spanO_cons, spanN_cons, Nat.add_assoc]
    constructor
    · rintro ⟨h1, h2, h3, h4, h5⟩; exact ⟨⟨h1, h2, h3, h4⟩, h5⟩
    · rintro ⟨⟨h1, h2, h3, h4⟩, h5⟩; exact ⟨h1, h2, h3, h4, h5⟩

/-! applyLines over the three kinds of line blocks -/
theorem applyLines_eq (a b : List Nat) (rest : List (Tag × Nat)) :
    applyLines (a ++ b) (a.map (Tag.eq, ·) ++ rest) = (applyLines b rest).map fun p => (a ++ p.1, p.2) := by
  induction a with
  | nil => simp
  | cons x a ih =>
    simp only [List.cons_append, List.map_cons, applyLines, if_true, ih]
    cases applyLines b rest <;> simp

theorem applyLines_del (a b : List Nat) (rest : List (Tag × Nat)) :
    applyLines (a ++ b) (a.map (Tag.del, ·) ++ rest) = applyLines b rest := by
  induction a with
  | nil => simp
  | cons x a ih => simp only [List.cons_append, List.map_cons, applyLines, if_true, ih]

theorem applyLines_ins (a b : List Nat) (rest : List (Tag × Nat)) :
    applyLines b (a.map (Tag.ins, ·) ++ rest) = (applyLines b rest).map fun p => (a ++ p.1, p.2) := by
  induction a with
  | nil => simp
  | cons x a ih =>
    cases b <;> simp only [List.cons_append, List.map_cons, applyLines, ih] <;>
      (cases applyLines _ rest <;> simp)

theorem seg_split (l : List Nat) (a n : Nat) : (l.drop a).take n ++ l.drop (a + n) = l.drop a := by
  rw [← List.drop_drop]; exact List.take_append_drop n _

theorem take_seg (l : List Nat) (a n k : Nat) :
    (l.drop a).take n ++ (l.drop (a + n)).take k = (l.drop a).take (n + k) := by
  rw [List.take_add, List.drop_drop]

theorem opt_map_map {α β γ : Type} (o : Option α) (f : α → β) (g : β → γ) : (o.map f).map g = o.map (g ∘ f) := by
  cases o <;> rfl

/-- the body of a hunk built from an in-order run applies, emits the new lines of the run and
consumes the old lines of the run -/
theorem body (old new : List Nat) (g : List IOp) : ∀ oi ni (rest : List (Tag × Nat)), Run old new oi ni g →
    applyLines (old.drop oi) (g.flatMap (changes old new) ++ rest) =
      (applyLines (old.drop (oi + spanO g)) rest).map fun p => ((new.drop ni).take (spanN g) ++ p.1, p.2) := by
  induction g with
  | nil => intro oi ni rest _; simp
  | cons x g ih =>
    intro oi ni rest h
    obtain ⟨h1, h2, ⟨_, _, heq⟩, h4⟩ := h
    obtain ⟨op, xoi, xni⟩ := x
    simp only at h1 h2; subst h1; subst h2
    simp only [List.flatMap_cons, List.append_assoc, spanO_cons, spanN_cons]
    cases op with
    | equal n =>
      simp only [oldLen, newLen] at h4 heq
      have e := applyLines_eq ((old.drop xoi).take n) (old.drop (xoi + n)) (g.flatMap (changes old new) ++ rest)
      rw [seg_split] at e
      simp only [changes, oldLen, newLen]
      rw [e, ih _ _ _ h4, opt_map_map, ← Nat.add_assoc]
      congr 1; funext p
      simp only [Function.comp, ← List.append_assoc]
      rw [heq n rfl, take_seg]
    | delete n =>
      simp only [oldLen, newLen] at h4 heq
      have e := applyLines_del ((old.drop xoi).take n) (old.drop (xoi + n)) (g.flatMap (changes old new) ++ rest)
      rw [seg_split] at e
      simp only [changes, oldLen, newLen]
      rw [e, ih _ _ _ h4, ← Nat.add_assoc]
      simp
    | insert n =>
      simp only [oldLen, newLen, Nat.add_zero] at h4
      have e := applyLines_ins ((new.drop xni).take n) (old.drop xoi) (g.flatMap (changes old new) ++ rest)
      simp only [changes, oldLen, newLen]
      rw [e, ih _ _ _ h4, opt_map_map]
      simp only [Nat.zero_add]
      congr 1; funext p
      simp only [Function.comp, ← List.append_assoc]
      rw [take_seg]
    | replace n m =>
      simp only [oldLen, newLen] at h4 heq
      have e1 := applyLines_del ((old.drop xoi).take n) (old.drop (xoi + n))
        (((new.drop xni).take m).map (Tag.ins, ·) ++ (g.flatMap (changes old new) ++ rest))
      rw [seg_split] at e1
      have e2 := applyLines_ins ((new.drop xni).take m) (old.drop (xoi + n)) (g.flatMap (changes old new) ++ rest)
      simp only [changes, oldLen, newLen, List.append_assoc]
      rw [e1, e2, ih _ _ _ h4, opt_map_map, ← Nat.add_assoc]
      congr 1; funext p
      simp only [Function.comp, ← List.append_assoc]
      rw [take_seg]

theorem Run.cast {old new : List Nat} {a b a' b' : Nat} {xs : List IOp} (h : Run old new a b xs)
    (ha : a = a') (hb : b = b') : Run old new a' b' xs := ha ▸ hb ▸ h

theorem len_seg (l : List Nat) (a n : Nat) (h : a + n ≤ l.length) : ((l.drop a).take n).length = n := by
  simp; omega

theorem cnt_map (t : Tag) (f : Tag × Nat → Bool) (l : List Nat) (b : Bool) (h : ∀ x, f (t, x) = b) :
    ((l.map (t, ·)).filter f).length = if b then l.length else 0 := by
  induction l with
  | nil => cases b <;> rfl
  | cons x l ih => cases b <;> simp_all

theorem countOld_append (a b : List (Tag × Nat)) : countOld (a ++ b) = countOld a + countOld b := by
  simp [countOld]
theorem countNew_append (a b : List (Tag × Nat)) : countNew (a ++ b) = countNew a + countNew b := by
  simp [countNew]
theorem co_eq (l : List Nat) : countOld (l.map (Tag.eq, ·)) = l.length := cnt_map _ _ l true (fun _ => rfl)
theorem co_del (l : List Nat) : countOld (l.map (Tag.del, ·)) = l.length := cnt_map _ _ l true (fun _ => rfl)
theorem co_ins (l : List Nat) : countOld (l.map (Tag.ins, ·)) = 0 := cnt_map _ _ l false (fun _ => rfl)
theorem cn_eq (l : List Nat) : countNew (l.map (Tag.eq, ·)) = l.length := cnt_map _ _ l true (fun _ => rfl)
theorem cn_del (l : List Nat) : countNew (l.map (Tag.del, ·)) = 0 := cnt_map _ _ l false (fun _ => rfl)
theorem cn_ins (l : List Nat) : countNew (l.map (Tag.ins, ·)) = l.length := cnt_map _ _ l true (fun _ => rfl)

theorem counts (old new : List Nat) (g : List IOp) : ∀ oi ni, Run old new oi ni g →
    countOld (g.flatMap (changes old new)) = spanO g ∧ countNew (g.flatMap (changes old new)) = spanN g := by
  induction g with
  | nil => intro _ _ _; simp [countOld, countNew]
  | cons x g ih =>
    intro oi ni h
    obtain ⟨h1, h2, ⟨b1, b2, _⟩, h4⟩ := h
    obtain ⟨op, xoi, xni⟩ := x
    have := ih _ _ h4
    simp only [List.flatMap_cons, countOld_append, countNew_append, this.1, this.2, spanO_cons, spanN_cons]
    cases op <;> simp only [oldLen, newLen] at b1 b2 <;>
      simp only [changes, oldLen, newLen, countOld_append, countNew_append, co_eq, co_del, co_ins, cn_eq, cn_del, cn_ins,
        len_seg _ _ _ b1, len_seg _ _ _ b2, Nat.add_zero, Nat.zero_add] <;> exact ⟨trivial, trivial⟩

/-- the end of the last operation of a run is the end of the run -/
theorem run_last (old new : List Nat) (g : List IOp) : ∀ oi ni d, Run old new oi ni g → g ≠ [] →
    (lastD g d).oi + oldLen (lastD g d).op = oi + spanO g ∧ (lastD g d).ni + newLen (lastD g d).op = ni + spanN g := by
  induction g with
  | nil => intro _ _ _ _ h; exact absurd rfl h
  | cons x g ih =>
    intro oi ni d h _
    obtain ⟨h1, h2, _, h4⟩ := h
    cases g with
    | nil => simp [lastD, h1, h2]
    | cons y g =>
      have := ih _ _ d h4 (by simp)
      simp only [lastD, List.getLast?_cons_cons] at this ⊢
      simp only [spanO_cons, spanN_cons] at this ⊢
      omega

theorem run_head_le (old new : List Nat) (g : List IOp) (oi ni : Nat) (h : Run old new oi ni g) (hg : g ≠ []) :
    oi ≤ old.length ∧ ni ≤ new.length := by
  cases g with
  | nil => exact absurd rfl hg
  | cons x g => obtain ⟨h1, h2, ⟨b1, b2, _⟩, _⟩ := h; omega

/-- one hunk made from an in-order run: the strict applier accepts it, copies the lines between
the cursor and the hunk, and emits the run's new lines -/
theorem hunk_step (old new : List Nat) (g : List IOp) (po pn c cn : Nat) (hs : List Hunk)
    (h : Run old new po pn g) (hg : g ≠ []) (hc : c ≤ po) (hn : pn = cn + (po - c)) :
    applyU c cn (old.drop c) (mkHunk old new g :: hs) =
      (applyU (po + spanO g) (pn + spanN g) (old.drop (po + spanO g)) hs).map fun tail =>
        (old.drop c).take (po - c) ++ (new.drop pn).take (spanN g) ++ tail := by
  have hl := run_last old new g po pn (g.head?.getD ⟨.equal 0, 0, 0⟩) h hg
  have hcnt := counts old new g po pn h
  have hle := run_head_le old new g po pn h hg
  have hb := body old new g po pn [] h
  simp only [List.append_nil, applyLines] at hb
  have hfirst : (g.head?.getD ⟨.equal 0, 0, 0⟩).oi = po ∧ (g.head?.getD ⟨.equal 0, 0, 0⟩).ni = pn := by
    cases g with
    | nil => exact absurd rfl hg
    | cons x g => exact ⟨h.1, h.2.1⟩
  simp only [applyU, mkHunk, hfirst.1, hfirst.2, hl.1, hl.2, hcnt.1, hcnt.2]
  have cond : c ≤ po ∧ po - c ≤ (old.drop c).length ∧ pn = cn + (po - c) ∧ po + spanO g - po = spanO g ∧
      pn + spanN g - pn = spanN g ∧ po ≤ po + spanO g ∧ pn ≤ pn + spanN g := by
    refine ⟨hc, ?_, hn, ?_, ?_, ?_, ?_⟩ <;> simp <;> omega
  rw [if_pos cond]
  have e : (old.drop c).drop (po - c) = old.drop po := by rw [List.drop_drop]; congr 1; omega
  rw [e, hb]
  simp

theorem seg_shift (old new : List Nat) (a b len off m : Nat)
    (h : (old.drop a).take len = (new.drop b).take len) (hm : off + m ≤ len) :
    (old.drop (a + off)).take m = (new.drop (b + off)).take m := by
  have := congrArg (fun l => (l.drop off).take m) h
  simp only [List.drop_take, List.take_take, List.drop_drop] at this
  have e : min m (len - off) = m := by omega
  rwa [e] at this

theorem groupLoop_ne (n : Nat) (rest : List IOp) : ∀ pending, ∀ g ∈ groupLoop n pending rest, g ≠ [] := by
  induction rest with
  | nil =>
    intro pending g hg
    unfold groupLoop at hg
    split at hg
    · simp at hg
    · simp at hg
    · simp at hg; subst hg; assumption
  | cons x rest ih =>
    intro pending g hg
    obtain ⟨op, oi, ni⟩ := x
    cases op with
    | equal len =>
      simp only [groupLoop] at hg
      split at hg
      · simp only [List.mem_cons] at hg
        rcases hg with hg | hg
        · subst hg; simp
        · exact ih _ g hg
      · exact ih _ g hg
    | delete k => simp only [groupLoop] at hg; exact ih _ g hg
    | insert k => simp only [groupLoop] at hg; exact ih _ g hg
    | replace k m => simp only [groupLoop] at hg; exact ih _ g hg

theorem filter_groups (n : Nat) (pending rest : List IOp) :
    (groupLoop n pending rest).filter (fun g => !g.isEmpty) = groupLoop n pending rest := by
  rw [List.filter_eq_self]
  intro g hg
  have := groupLoop_ne n rest pending g hg
  cases g with
  | nil => exact absurd rfl this
  | cons _ _ => rfl

theorem assemble (new : List Nat) (cn k s : Nat) :
    (new.drop cn).take k ++ (new.drop (cn + k)).take s ++ new.drop (cn + k + s) = new.drop cn := by
  rw [List.append_assoc, seg_split, seg_split]

theorem groupLoop_nil_other (n : Nat) (pending : List IOp) (h1 : pending ≠ [])
    (h2 : ∀ len oi ni, pending ≠ [⟨.equal len, oi, ni⟩]) : groupLoop n pending [] = [pending] := by
  unfold groupLoop
  split
  · exact absurd rfl h1
  · exact absurd rfl (h2 _ _ _)
  · rfl

/-- the loop invariant of `group_diff_ops`, carried through the strict applier -/
theorem loop (old new : List Nat) (n : Nat) (rest : List IOp) :
    ∀ (pending : List IOp) (c cn po pn k : Nat),
      po = c + k → pn = cn + k → (old.drop c).take k = (new.drop cn).take k →
      Run old new po pn (pending ++ rest) →
      old.drop (po + spanO (pending ++ rest)) = new.drop (pn + spanN (pending ++ rest)) →
      applyU c cn (old.drop c) ((groupLoop n pending rest).map (mkHunk old new)) = some (new.drop cn) := by
  induction rest with
  | nil =>
    intro pending c cn po pn k hpo hpn hgap hrun htail
    simp only [List.append_nil] at hrun htail
    by_cases e1 : pending = []
    · subst e1
      simp only [groupLoop, List.map_nil, applyU, spanO_nil, spanN_nil, Nat.add_zero] at htail ⊢
      subst hpo; subst hpn
      rw [← seg_split old c k, ← seg_split new cn k, hgap, htail]
    · by_cases e2 : ∃ len oi ni, pending = [⟨.equal len, oi, ni⟩]
      · obtain ⟨len, oi, ni, e2⟩ := e2
        subst e2
        obtain ⟨h1, h2, ⟨_, _, heq⟩, _⟩ := hrun
        simp only at h1 h2; subst h1; subst h2
        have heq := heq len rfl
        simp only [groupLoop, List.map_nil, applyU, spanO_cons, spanN_cons, spanO_nil, spanN_nil, oldLen, newLen,
          Nat.add_zero] at htail heq ⊢
        subst hpo; subst hpn
        rw [← assemble old c k len, ← assemble new cn k len, hgap, heq, htail]
      · have e2' : ∀ len oi ni, pending ≠ [⟨.equal len, oi, ni⟩] := fun len oi ni h => e2 ⟨len, oi, ni, h⟩
        rw [groupLoop_nil_other n pending e1 e2']
        simp only [List.map_cons, List.map_nil]
        rw [hunk_step old new pending po pn c cn [] hrun e1 (by omega) (by omega)]
        simp only [applyU, Option.map_some]
        have ek : po - c = k := by omega
        rw [ek, hgap, htail]
        subst hpn
        rw [assemble]
  | cons x rest ih =>
    intro pending c cn po pn k hpo hpn hgap hrun htail
    obtain ⟨op, oi, ni⟩ := x
    have step : ∀ y : IOp, y = ⟨op, oi, ni⟩ →
        applyU c cn (old.drop c) ((groupLoop n (pending ++ [y]) rest).map (mkHunk old new)) = some (new.drop cn) := by
      intro y hy; subst hy
      refine ih (pending ++ [⟨op, oi, ni⟩]) c cn po pn k hpo hpn hgap ?_ ?_
      · simpa [List.append_assoc] using hrun
      · simpa [List.append_assoc] using htail
    cases op with
    | delete j => simp only [groupLoop]; exact step _ rfl
    | insert j => simp only [groupLoop]; exact step _ rfl
    | replace j m => simp only [groupLoop]; exact step _ rfl
    | equal len =>
      simp only [groupLoop]
      split
      · rename_i hlen
        obtain ⟨hrunP, hrunR⟩ := (run_append old new pending _ po pn).mp hrun
        obtain ⟨h1, h2, ⟨b1, b2, heq⟩, hrunR'⟩ := hrunR
        simp only at h1 h2
        simp only [oldLen, newLen] at b1 b2 hrunR'
        have heq := heq len rfl
        simp only at heq
        -- the group that is closed here
        have hG : Run old new po pn (pending ++ [⟨.equal n, oi, ni⟩]) := by
          rw [run_append]
          refine ⟨hrunP, h1, h2, ⟨?_, ?_, ?_⟩, trivial⟩
          · simp only [oldLen]; omega
          · simp only [newLen]; omega
          · intro n' hn'
            injection hn' with hn'; subst hn'
            have := seg_shift old new oi ni len 0 n heq (by omega)
            simpa using this
        simp only [List.map_cons]
        rw [hunk_step old new _ po pn c cn _ hG (by simp) (by omega) (by omega)]
        have ihh := ih [⟨.equal (len - (len - n)), oi + (len - n), ni + (len - n)⟩]
          (po + spanO (pending ++ [⟨.equal n, oi, ni⟩])) (pn + spanN (pending ++ [⟨.equal n, oi, ni⟩]))
          (oi + (len - n)) (ni + (len - n)) (len - n - n)
          (by simp [oldLen]; omega) (by simp [newLen]; omega)
          (by
            have := seg_shift old new oi ni len n (len - n - n) heq (by omega)
            simp only [spanO_append, spanN_append, spanO_cons, spanN_cons, spanO_nil, spanN_nil, oldLen, newLen, Nat.add_zero]
            have e1 : po + (spanO pending + n) = oi + n := by omega
            have e2 : pn + (spanN pending + n) = ni + n := by omega
            rw [e1, e2]; exact this)
          (by
            refine ⟨rfl, rfl, ⟨?_, ?_, ?_⟩, ?_⟩
            · simp only [oldLen]; omega
            · simp only [newLen]; omega
            · intro n' hn'
              injection hn' with hn'; subst hn'
              exact seg_shift old new oi ni len (len - n) (len - (len - n)) heq (by omega)
            · simp only [oldLen, newLen]
              exact hrunR'.cast (by omega) (by omega))
          (by
            simp only [List.cons_append, List.nil_append, spanO_cons, spanN_cons, oldLen, newLen]
            simp only [spanO_append, spanN_append, spanO_cons, spanN_cons, oldLen, newLen] at htail
            have e1 : oi + (len - n) + (len - (len - n) + spanO rest) = po + (spanO pending + (len + spanO rest)) := by omega
            have e2 : ni + (len - n) + (len - (len - n) + spanN rest) = pn + (spanN pending + (len + spanN rest)) := by omega
            rw [e1, e2]; exact htail)
        rw [ihh]
        simp only [Option.map_some]
        have ek : po - c = k := by omega
        rw [ek, hgap]
        subst hpn
        rw [assemble]
      · exact step _ rfl

/-- a valid script whose index fields are the running positions is a run that ends at the ends of both files -/
theorem run_of_valid (old new : List Nat) (xs : List IOp) : ∀ oi ni, InOrder oi ni xs = true →
    Valid (xs.map (·.op)) (old.drop oi) (new.drop ni) = true → oi ≤ old.length → ni ≤ new.length →
    Run old new oi ni xs ∧ oi + spanO xs = old.length ∧ ni + spanN xs = new.length := by
  induction xs with
  | nil =>
    intro oi ni _ hv ho hn
    simp only [List.map_nil, Valid, Bool.and_eq_true, List.isEmpty_iff, List.drop_eq_nil_iff] at hv
    exact ⟨trivial, by simp; omega, by simp; omega⟩
  | cons x xs ih =>
    intro oi ni hs hv ho hn
    obtain ⟨op, xoi, xni⟩ := x
    cases op with
    | equal k =>
      simp only [InOrder, Bool.and_eq_true, decide_eq_true_eq] at hs
      simp only [List.map_cons, Valid, Bool.and_eq_true, decide_eq_true_eq, List.length_drop, List.drop_drop] at hv
      obtain ⟨⟨h1, h2⟩, h3⟩ := hs
      obtain ⟨⟨⟨v1, v2⟩, v3⟩, v4⟩ := hv
      subst h1; subst h2
      have := ih _ _ h3 v4 (by omega) (by omega)
      refine ⟨⟨rfl, rfl, ⟨by simp [oldLen]; omega, by simp [newLen]; omega, ?_⟩, this.1⟩, ?_, ?_⟩
      · intro n' hn'; injection hn' with hn'; subst hn'; exact v3
      · simp [oldLen]; omega
      · simp [newLen]; omega
    | delete k =>
      simp only [InOrder, Bool.and_eq_true, decide_eq_true_eq] at hs
      simp only [List.map_cons, Valid, Bool.and_eq_true, decide_eq_true_eq, List.length_drop, List.drop_drop] at hv
      obtain ⟨⟨h1, h2⟩, h3⟩ := hs
      obtain ⟨⟨v1, v2⟩, v4⟩ := hv
      subst h1; subst h2
      have := ih _ _ h3 v4 (by omega) (by omega)
      refine ⟨⟨rfl, rfl, ⟨by simp [oldLen]; omega, by simp [newLen]; omega, ?_⟩, this.1.cast rfl (by simp [newLen])⟩, ?_, ?_⟩
      · intro n' hn'; cases hn'
      · simp [oldLen]; omega
      · simp [newLen]; omega
    | insert k =>
      simp only [InOrder, Bool.and_eq_true, decide_eq_true_eq] at hs
      simp only [List.map_cons, Valid, Bool.and_eq_true, decide_eq_true_eq, List.length_drop, List.drop_drop] at hv
      obtain ⟨⟨h1, h2⟩, h3⟩ := hs
      obtain ⟨⟨v1, v2⟩, v4⟩ := hv
      subst h1; subst h2
      have := ih _ _ h3 v4 (by omega) (by omega)
      refine ⟨⟨rfl, rfl, ⟨by simp [oldLen]; omega, by simp [newLen]; omega, ?_⟩, this.1.cast (by simp [oldLen]) rfl⟩, ?_, ?_⟩
      · intro n' hn'; cases hn'
      · simp [oldLen]; omega
      · simp [newLen]; omega
    | replace k m =>
      simp only [InOrder, Bool.and_eq_true, decide_eq_true_eq] at hs
      simp only [List.map_cons, Valid, Bool.and_eq_true, decide_eq_true_eq, List.length_drop, List.drop_drop] at hv
      obtain ⟨⟨h1, h2⟩, h3⟩ := hs
      obtain ⟨⟨⟨⟨v0, v1⟩, v2⟩, v3⟩, v4⟩ := hv
      subst h1; subst h2
      have := ih _ _ h3 v4 (by omega) (by omega)
      refine ⟨⟨rfl, rfl, ⟨by simp [oldLen]; omega, by simp [newLen]; omega, ?_⟩, this.1⟩, ?_, ?_⟩
      · intro n' hn'; cases hn'
      · simp [oldLen]; omega
      · simp [newLen]; omega

theorem trimHead_run (old new : List Nat) (n : Nat) (xs : List IOp) (oi ni : Nat) (h : Run old new oi ni xs) :
    ∃ k, Run old new (oi + k) (ni + k) (trimHead n xs) ∧ (old.drop oi).take k = (new.drop ni).take k ∧
      oi + k + spanO (trimHead n xs) = oi + spanO xs ∧ ni + k + spanN (trimHead n xs) = ni + spanN xs := by
  cases xs with
  | nil => exact ⟨0, by simpa [trimHead] using h, by simp, by simp [trimHead], by simp [trimHead]⟩
  | cons x xs =>
    obtain ⟨op, xoi, xni⟩ := x
    obtain ⟨h1, h2, ⟨b1, b2, heq⟩, h4⟩ := h
    simp only at h1 h2; subst h1; subst h2
    cases op with
    | equal len =>
      simp only [oldLen, newLen] at b1 b2 h4
      have heq := heq len rfl
      simp only at heq
      refine ⟨len - n, ⟨rfl, rfl, ⟨by simp only [oldLen]; omega, by simp only [newLen]; omega, ?_⟩, ?_⟩, ?_, ?_, ?_⟩
      · intro n' hn'; injection hn' with hn'; subst hn'
        exact seg_shift old new xoi xni len (len - n) (len - (len - n)) heq (by omega)
      · simp only [oldLen, newLen]; exact h4.cast (by omega) (by omega)
      · have := seg_shift old new xoi xni len 0 (len - n) heq (by omega)
        simpa using this
      · simp [trimHead, oldLen]; omega
      · simp [trimHead, newLen]; omega
    | delete k => exact ⟨0, ⟨rfl, rfl, ⟨b1, b2, heq⟩, h4⟩, by simp, by simp [trimHead], by simp [trimHead]⟩
    | insert k => exact ⟨0, ⟨rfl, rfl, ⟨b1, b2, heq⟩, h4⟩, by simp, by simp [trimHead], by simp [trimHead]⟩
    | replace k m => exact ⟨0, ⟨rfl, rfl, ⟨b1, b2, heq⟩, h4⟩, by simp, by simp [trimHead], by simp [trimHead]⟩

theorem trimLast_run (old new : List Nat) (n : Nat) (xs : List IOp) : ∀ oi ni, Run old new oi ni xs →
    old.drop (oi + spanO xs) = new.drop (ni + spanN xs) →
    Run old new oi ni (trimLast n xs) ∧
      old.drop (oi + spanO (trimLast n xs)) = new.drop (ni + spanN (trimLast n xs)) := by
  induction xs with
  | nil => intro oi ni h ht; exact ⟨by simpa [trimLast] using h, by simpa [trimLast] using ht⟩
  | cons x xs ih =>
    intro oi ni h ht
    cases xs with
    | cons y ys =>
      obtain ⟨h1, h2, hok, h4⟩ := h
      have := ih _ _ h4 (by simpa [Nat.add_assoc] using ht)
      simp only [trimLast]
      exact ⟨⟨h1, h2, hok, this.1⟩, by simpa [Nat.add_assoc] using this.2⟩
    | nil =>
      obtain ⟨op, xoi, xni⟩ := x
      cases op with
      | equal len =>
        obtain ⟨h1, h2, ⟨b1, b2, heq⟩, _⟩ := h
        simp only at h1 h2; subst h1; subst h2
        simp only [oldLen, newLen] at b1 b2
        have heq := heq len rfl
        simp only at heq
        simp only [trimLast]
        refine ⟨⟨rfl, rfl, ⟨by simp only [oldLen]; omega, by simp only [newLen]; omega, ?_⟩, trivial⟩, ?_⟩
        · intro n' hn'; injection hn' with hn'; subst hn'
          have := seg_shift old new xoi xni len 0 (len - (len - n)) heq (by omega)
          simpa using this
        · simp only [spanO_cons, spanN_cons, spanO_nil, spanN_nil, oldLen, newLen, Nat.add_zero] at ht ⊢
          have := seg_shift old new xoi xni len (len - (len - n)) (len - n) heq (by omega)
          rw [← seg_split old (xoi + (len - (len - n))) (len - n), ← seg_split new (xni + (len - (len - n))) (len - n), this]
          have e1 : xoi + (len - (len - n)) + (len - n) = xoi + len := by omega
          have e2 : xni + (len - (len - n)) + (len - n) = xni + len := by omega
          rw [e1, e2, ht]
      | delete k => exact ⟨by simpa [trimLast] using h, by simpa [trimLast] using ht⟩
      | insert k => exact ⟨by simpa [trimLast] using h, by simpa [trimLast] using ht⟩
      | replace k m => exact ⟨by simpa [trimLast] using h, by simpa [trimLast] using ht⟩

/-- the strict applier accepts the hunks `similar` builds from an in-order valid script, for any context radius,
and produces the new file -/
theorem unified_main (n : Nat) (xs : List IOp) (old new : List Nat)
    (hs : InOrder 0 0 xs = true) (hv : Valid (xs.map (·.op)) old new = true) :
    applyU 0 0 old (hunks n xs old new) = some new := by
  have hr := run_of_valid old new xs 0 0 hs (by simpa using hv) (by omega) (by omega)
  obtain ⟨hrun, ho, hn⟩ := hr
  unfold hunks groupOps
  by_cases hx : xs.isEmpty = true
  · simp only [hx, if_true, List.filter_nil, List.map_nil, applyU]
    have : xs = [] := by simpa using hx
    subst this
    simp only [List.map_nil, Valid, Bool.and_eq_true, List.isEmpty_iff] at hv
    rw [hv.1, hv.2]
  · simp only [hx, Bool.false_eq_true, if_false]
    rw [filter_groups]
    obtain ⟨k, hk1, hk2, hk3, hk4⟩ := trimHead_run old new n xs 0 0 hrun
    have htail : old.drop (0 + k + spanO (trimHead n xs)) = new.drop (0 + k + spanN (trimHead n xs)) := by
      rw [hk3, hk4, ho, hn]; simp
    obtain ⟨hl1, hl2⟩ := trimLast_run old new n (trimHead n xs) (0 + k) (0 + k) hk1 htail
    have := loop old new n (trimLast n (trimHead n xs)) [] 0 0 (0 + k) (0 + k) k (by omega) (by omega)
      (by simpa using hk2) (by simpa using hl1) (by simpa using hl2)
    simpa using this

/-! ## "nothing is printed" (`ratio() == 1.0`, exact arithmetic) -/

def changed : List Op → Nat
  | [] => 0
  | .equal _ :: rest => changed rest
  | x :: rest => oldLen x + newLen x + changed rest

theorem lengths_of_valid (ops : List Op) : ∀ old new, Valid ops old new = true →
    old.length + new.length = 2 * equalLines ops + changed ops ∧
      (changed ops = 0 ↔ ops.all DiffLemmas.isEqualOp = true) := by
  induction ops with
  | nil =>
    intro old new h
    simp only [Valid, Bool.and_eq_true, List.isEmpty_iff] at h
    simp [h.1, h.2, equalLines, changed]
  | cons op rest ih =>
    intro old new h
    cases op with
    | equal n =>
      simp only [Valid, Bool.and_eq_true, decide_eq_true_eq] at h
      have := ih _ _ h.2
      simp only [List.length_drop] at this
      simp only [equalLines, changed, List.all_cons, DiffLemmas.isEqualOp, Bool.true_and]
      exact ⟨by omega, this.2⟩
    | delete n =>
      simp only [Valid, Bool.and_eq_true, decide_eq_true_eq] at h
      have := ih _ _ h.2
      simp only [List.length_drop] at this
      simp only [equalLines, changed, oldLen, newLen, List.all_cons, DiffLemmas.isEqualOp, Bool.false_and]
      exact ⟨by omega, by constructor <;> intro hh <;> first | omega | cases hh⟩
    | insert n =>
      simp only [Valid, Bool.and_eq_true, decide_eq_true_eq] at h
      have := ih _ _ h.2
      simp only [List.length_drop] at this
      simp only [equalLines, changed, oldLen, newLen, List.all_cons, DiffLemmas.isEqualOp, Bool.false_and]
      exact ⟨by omega, by constructor <;> intro hh <;> first | omega | cases hh⟩
    | replace n m =>
      simp only [Valid, Bool.and_eq_true, decide_eq_true_eq] at h
      have := ih _ _ h.2
      simp only [List.length_drop] at this
      simp only [equalLines, changed, oldLen, newLen, List.all_cons, DiffLemmas.isEqualOp, Bool.false_and]
      exact ⟨by omega, by constructor <;> intro hh <;> first | omega | cases hh⟩

theorem ratio_iff (ops : List Op) (old new : List Nat) (h : Valid ops old new = true) :
    ratioIsOne ops old.length new.length = true ↔ ops.all DiffLemmas.isEqualOp = true := by
  have := lengths_of_valid ops old new h
  simp only [ratioIsOne, decide_eq_true_eq]
  rw [← this.2]
  omega

theorem range_roundtrip (s e : Nat) (h : s ≤ e) : decodeRange (encodeRange s e) = (s, e - s) := by
  unfold encodeRange
  simp only
  split
  · rename_i h1; simp [decodeRange, h1]
  · split
    · rename_i h1 h2; simp [decodeRange, h2]
    · rename_i h1 h2
      have : ∃ k, e - s = k + 1 := ⟨e - s - 1, by omega⟩
      obtain ⟨k, hk⟩ := this
      simp [hk, decodeRange]

def hasChange (xs : List IOp) : Bool := xs.any fun x => !DiffLemmas.isEqualOp x.op

theorem groupLoop_nonempty_of_pending (n : Nat) (rest : List IOp) : ∀ pending,
    hasChange pending = true → groupLoop n pending rest ≠ [] := by
  induction rest with
  | nil =>
    intro pending h
    unfold groupLoop
    split
    · simp [hasChange] at h
    · simp [hasChange, DiffLemmas.isEqualOp] at h
    · simp
  | cons x rest ih =>
    intro pending h
    obtain ⟨op, oi, ni⟩ := x
    have hp : ∀ y, hasChange (pending ++ [y]) = true := by
      intro y; simp only [hasChange, List.any_append, Bool.or_eq_true] ; exact Or.inl h
    cases op with
    | equal len =>
      simp only [groupLoop]
      split
      · simp
      · exact ih _ (hp _)
    | delete k => simp only [groupLoop]; exact ih _ (hp _)
    | insert k => simp only [groupLoop]; exact ih _ (hp _)
    | replace k m => simp only [groupLoop]; exact ih _ (hp _)

theorem groupLoop_nonempty_of_rest (n : Nat) (rest : List IOp) : ∀ pending,
    hasChange rest = true → groupLoop n pending rest ≠ [] := by
  induction rest with
  | nil => intro _ h; simp [hasChange] at h
  | cons x rest ih =>
    intro pending h
    obtain ⟨op, oi, ni⟩ := x
    cases op with
    | equal len =>
      have h' : hasChange rest = true := by simpa [hasChange, DiffLemmas.isEqualOp] using h
      simp only [groupLoop]
      split
      · simp
      · exact ih _ h'
    | delete k =>
      simp only [groupLoop]
      exact groupLoop_nonempty_of_pending n rest _ (by simp [hasChange, DiffLemmas.isEqualOp])
    | insert k =>
      simp only [groupLoop]
      exact groupLoop_nonempty_of_pending n rest _ (by simp [hasChange, DiffLemmas.isEqualOp])
    | replace k m =>
      simp only [groupLoop]
      exact groupLoop_nonempty_of_pending n rest _ (by simp [hasChange, DiffLemmas.isEqualOp])

theorem hasChange_trimHead (n : Nat) (xs : List IOp) : hasChange (trimHead n xs) = hasChange xs := by
  cases xs with
  | nil => rfl
  | cons x xs => obtain ⟨op, oi, ni⟩ := x; cases op <;> simp [trimHead, hasChange, DiffLemmas.isEqualOp]

theorem hasChange_trimLast (n : Nat) (xs : List IOp) : hasChange (trimLast n xs) = hasChange xs := by
  induction xs with
  | nil => rfl
  | cons x xs ih =>
    cases xs with
    | nil => obtain ⟨op, oi, ni⟩ := x; cases op <;> simp [trimLast, hasChange, DiffLemmas.isEqualOp]
    | cons y ys =>
      simp only [trimLast]
      simp only [hasChange, List.any_cons] at ih ⊢
      rw [ih]

/-- a script with a Delete / Insert / Replace yields at least one hunk: something is printed -/
theorem hunks_nonempty (n : Nat) (xs : List IOp) (old new : List Nat) (h : hasChange xs = true) :
    hunks n xs old new ≠ [] := by
  unfold hunks groupOps
  have hne : xs.isEmpty = false := by cases xs <;> simp_all [hasChange]
  simp only [hne, Bool.false_eq_true, if_false]
  rw [filter_groups]
  have := groupLoop_nonempty_of_rest n (trimLast n (trimHead n xs)) []
    (by rw [hasChange_trimLast, hasChange_trimHead]; exact h)
  intro hm
  exact this (List.map_eq_nil_iff.mp hm)

theorem render_nonempty (text : Nat → String) (hs : List Hunk) (h : hs ≠ []) : (render text hs).length ≠ 0 := by
  cases hs with
  | nil => exact absurd rfl h
  | cons a r =>
    simp only [render, String.length_append]
    have : "--- old\n+++ new\n".length = 16 := by decide
    omega

/-! ## renumbering (fix a2545ec) -/

theorem renumber_ops (xs : List IOp) : ∀ oi ni, (renumber oi ni xs).map (·.op) = xs.map (·.op) := by
  induction xs with
  | nil => intro _ _; rfl
  | cons x r ih => intro oi ni; simp [renumber, ih]

theorem renumber_inOrder (xs : List IOp) : ∀ oi ni, InOrder oi ni (renumber oi ni xs) = true := by
  induction xs with
  | nil => intro _ _; rfl
  | cons x r ih =>
    intro oi ni
    obtain ⟨op, a, b⟩ := x
    cases op <;> simp [renumber, InOrder, oldLen, newLen, ih]

/-- after the fix the hunks are accepted whatever index fields `similar` left behind -/
theorem unified_fixed (n : Nat) (xs : List IOp) (old new : List Nat)
    (hv : Valid (xs.map (·.op)) old new = true) :
    applyU 0 0 old (hunksFixed n xs old new) = some new :=
  unified_main n (renumber 0 0 xs) old new (renumber_inOrder xs 0 0) (by rw [renumber_ops]; exact hv)

theorem renumber_id (xs : List IOp) : ∀ oi ni, InOrder oi ni xs = true → renumber oi ni xs = xs := by
  induction xs with
  | nil => intro _ _ _; rfl
  | cons x r ih =>
    intro oi ni h
    obtain ⟨op, a, b⟩ := x
    cases op <;>
      (simp only [InOrder, Bool.and_eq_true, decide_eq_true_eq] at h
       obtain ⟨⟨h1, h2⟩, h3⟩ := h
       subst h1; subst h2
       simp only [renumber, oldLen, newLen]
       rw [ih _ _ (by simpa [oldLen, newLen] using h3)])

/-- where the index fields were right, the repair changes nothing -/
theorem fixed_eq_pinned (n : Nat) (xs : List IOp) (old new : List Nat) (h : InOrder 0 0 xs = true) :
    hunksFixed n xs old new = hunks n xs old new := by
  unfold hunksFixed
  rw [renumber_id xs 0 0 h]
end StyluaModel.UnifiedLemmas
