def hello := "world"
