/-
C05 — Parentheses are dropped only where they cannot matter.
Property theorems and non-vacuity examples only; helper lemmas are in Lemmas/Paren.lean.

`fmtS` = format_expression_internal (single-line path), `fmtH`/`hangBin` =
format_hanging_expression_/hang_binop_expression with every layout answer taken from an
arbitrary `Oracle`.  `repaired` is the code after the five `fix:` commits of this round;
`pinned` is the code before them (kept to show, by computation, that it violated C05).
-/
import StyluaModel.Lemmas.Parser
import StyluaModel.Lemmas.Paren
import StyluaModel.Generated.OpTables

namespace StyluaModel.C05
open StyluaModel StyluaModel.ParenRule StyluaModel.Prec StyluaModel.ParenLemmas Expr

/-- **C05, single-line path.** For every context, every position the context is used at,
and every faithful expression that may stand at that position: the result is faithful
(prints and re-parses to itself: operator grouping kept, no `- -` exposed, no type
assertion detached), may stand at the same position, means the same (`sem`: parentheses
forgotten except multi-value truncation), and is not more open-ended than the input. -/
theorem C05_single (ctx : Ctx) (p : Pos) (e : Expr) (hd : dropOK ctx p = true)
    (hf : faithful e = true) (hok : okAt p e = true) :
    faithful (fmtS repaired ctx e) = true ∧ okAt p (fmtS repaired ctx e) = true ∧
    sem (fmtS repaired ctx e) = sem e :=
  let g := fmtS_good e ctx p hd hf hok
  ⟨g.1, g.2.1, g.2.2.1⟩

/-- **C05, hanging path, for every layout oracle** (every column width, indent, identifier
length, comment placement). -/
theorem C05_hang (o : Oracle) (ctx : Ctx) (p : Pos) (e : Expr) (hd : dropOK ctx p = true)
    (hf : faithful e = true) (hok : okAt p e = true) :
    faithful (fmtH repaired o ctx e) = true ∧ okAt p (fmtH repaired o ctx e) = true ∧
    sem (fmtH repaired o ctx e) = sem e :=
  let g := (hang_good e).1 o ctx p hd hf hok
  ⟨g.1, g.2.1, g.2.2.1⟩

/-- the same for hang_binop_expression entered directly -/
theorem C05_hang_binop (o : Oracle) (ctx : Ctx) (p : Pos) (e : Expr) (hs : ctx ≠ .std)
    (hd : dropOK ctx p = true) (hf : faithful e = true) (hok : okAt p e = true) :
    faithful (hangBin repaired o ctx e) = true ∧ sem (hangBin repaired o ctx e) = sem e :=
  let g := (hang_good e).2 o ctx p hs hd hf hok
  ⟨g.1, g.2.2.1⟩

/-- **Entry points** (assignment / local / return right-hand sides, call arguments, table
fields, index and key expressions): `format_expression` or `hang_expression`, Standard
context, at a delimited position — no side condition beyond faithfulness of the input. -/
theorem C05_entry_std (e : Expr) (hf : faithful e = true) :
    (faithful (fmtS repaired .std e) = true ∧ sem (fmtS repaired .std e) = sem e) ∧
    ∀ o, faithful (fmtH repaired o .std e) = true ∧ sem (fmtH repaired o .std e) = sem e :=
  ⟨let g := C05_single .std .top e rfl hf rfl; ⟨g.1, g.2.2⟩,
   fun o => let g := C05_hang o .std .top e rfl hf rfl; ⟨g.1, g.2.2⟩⟩

/-- prefix expressions `(e).x`, `(e)()`: the parentheses are kept -/
theorem C05_prefix (e : Expr) : fmtS repaired .prefix (paren e) = paren (fmtS repaired .std e) ∧
    ∀ o, ∃ r, fmtH repaired o .prefix (paren e) = paren r := by
  refine ⟨by simp [fmtS_paren, keepParens], fun o => ?_⟩
  simp only [fmtH, keepParens]
  split
  · rename_i h; simp at h
  · split <;> exact ⟨_, rfl⟩

/-- value of an expression used as a condition (single value: truncation is a no-op) -/
def semCond : Sem → Sem
  | .trunc s => s
  | s => s

/-- conditions: `remove_condition_parentheses` -/
theorem C05_cond (e : Expr) : semCond (sem (stripCond e)) = semCond (sem e) := by
  cases e with
  | paren x => simp only [stripCond, sem]; cases sem x <;> rfl
  | _ => rfl

/-- **truncation is never undone**: a `(f())` / `(...)` stays one -/
theorem C05_trunc (o : Oracle) (e : Expr) (s : Sem) (hf : faithful e = true) (h : sem e = .trunc s) :
    sem (fmtS repaired .std e) = .trunc s ∧ sem (fmtH repaired o .std e) = .trunc s := by
  obtain ⟨⟨_, h1⟩, h2⟩ := C05_entry_std e hf
  exact ⟨h1.trans h, (h2 o).2.trans h⟩

/-- no unary minus directly applied to a unary minus anywhere in the tree -/
def noMinusMinus : Expr → Bool
  | un op e => !(op == .minus && Prec.isUnMinus e) && noMinusMinus e
  | paren e => noMinusMinus e
  | bin _ l r => noMinusMinus l && noMinusMinus r
  | assert e => noMinusMinus e
  | _ => true

theorem noMinusMinus_of_faithful (e : Expr) (h : faithful e = true) : noMinusMinus e = true := by
  induction e with
  | un op e ih =>
    simp only [faithful, minusClash, Bool.and_eq_true] at h
    simp only [noMinusMinus, Bool.and_eq_true]
    exact ⟨h.1.2, ih h.2⟩
  | paren e ih => exact ih (by simpa [faithful] using h)
  | bin op l r ihl ihr =>
    simp only [faithful, Bool.and_eq_true] at h
    simp [noMinusMinus, ihl h.1.2, ihr h.2]
  | assert e ih =>
    simp only [faithful, Bool.and_eq_true] at h
    exact ih h.2
  | _ => rfl

/-- **a unary minus is never exposed to a preceding minus** (`--` would start a comment) -/
theorem C05_minus (o : Oracle) (e : Expr) (hf : faithful e = true) :
    noMinusMinus (fmtS repaired .std e) = true ∧ noMinusMinus (fmtH repaired o .std e) = true :=
  ⟨noMinusMinus_of_faithful _ (C05_entry_std e hf).1.1, noMinusMinus_of_faithful _ ((C05_entry_std e hf).2 o).1⟩

/-! ## The code before the repairs violated the property (proved by computation) -/

/-- D22: `((-a)) ^ b` on the single-line path -/
theorem C05_pinned_single_violates :
    let e := bin .caret (paren (paren (un .minus (atom 0)))) (atom 1)
    faithful e = true ∧ faithful (fmtS pinned .std e) = false := by decide

/-- D1: `(-a) ^ b` on the hanging path (any oracle; here the empty one) -/
theorem C05_pinned_hang_violates :
    let e := bin .caret (paren (un .minus (atom 0))) (atom 1)
    faithful e = true ∧ faithful (fmtH pinned .leaf .std e) = false := by decide

/-- D2: `-(-a)` on the hanging path -/
theorem C05_pinned_minus_violates :
    let e := un .minus (paren (un .minus (atom 0)))
    faithful e = true ∧ noMinusMinus (fmtH pinned .leaf .std e) = false := by decide

/-- D28: `c + (-a) ^ b` with a comment inside the parentheses (oracle bit `commentsL`) -/
theorem C05_pinned_hang_comment_violates :
    let e := bin .plus (atom 2) (bin .caret (paren (un .minus (atom 0))) (atom 1))
    let o := Oracle.node false false false false .leaf (.node false false true false .leaf .leaf)
    faithful e = true ∧
    faithful (fmtH { ctxThroughDrop := true, hangMinusGuard := true, hangLhsExp := false, hangRhsOperand := true } o .std e) = false := by
  decide

/-- D30: `a and (b :: T) < c` on the hanging path: the assertion lost its parentheses and
`T < c` reads as a generic type -/
theorem C05_pinned_hang_assert_violates :
    let e := bin .and (atom 0) (bin .lt (paren (assert (atom 1))) (atom 2))
    let o := Oracle.node false false false false .leaf (.node false false true false .leaf .leaf)
    faithful e = true ∧
    faithful (fmtH { ctxThroughDrop := true, hangMinusGuard := true, hangLhsExp := true, hangRhsOperand := false } o .std e) = false := by
  decide

/-- **the printed tokens determine the tree**: two faithful trees with the same printed form are
the same tree - so whenever StyLua's output (faithful by `C05_single` / `C05_hang`) has the
tokens of a faithful input apart from parentheses it may drop, no regrouping can hide in it -/
theorem C05_tokens_determine_tree (e1 e2 : Expr) (h1 : faithful e1 = true) (h2 : faithful e2 = true)
    (hp : Parser.print e1 = Parser.print e2) : e1 = e2 := by
  obtain ⟨n1, p1⟩ := ParserLemmas.parse_print e1 h1
  obtain ⟨n2, p2⟩ := ParserLemmas.parse_print e2 h2
  have a := p1 (max n1 n2) (by omega)
  have b := p2 (max n1 n2) (by omega)
  rw [hp, b] at a
  exact (Option.some.inj a).symm

/-- **round trip through the parser** for everything the parenthesis rule emits (both paths) -/
theorem C05_parses_back (o : Oracle) (ctx : Ctx) (p : Pos) (e : Expr) (hd : dropOK ctx p = true)
    (hf : faithful e = true) (hok : okAt p e = true) :
    (∃ n, ∀ f, n ≤ f → Parser.parse f (Parser.print (fmtS repaired ctx e)) = some (fmtS repaired ctx e)) ∧
    (∃ n, ∀ f, n ≤ f → Parser.parse f (Parser.print (fmtH repaired o ctx e)) = some (fmtH repaired o ctx e)) :=
  ⟨ParserLemmas.parse_print _ (fmtS_good e ctx p hd hf hok).1,
   ParserLemmas.parse_print _ ((hang_good e).1 o ctx p hd hf hok).1⟩

/-! ## non-vacuity: concrete non-trivial inputs meeting the hypotheses -/
example : faithful (bin .caret (paren (paren (un .minus (atom 0)))) (call 1)) = true := by decide
example : fmtS repaired .std (bin .caret (paren (paren (un .minus (atom 0)))) (call 1))
    = bin .caret (paren (un .minus (atom 0))) (call 1) := by decide
example : dropOK .binLhsExp (.binL .caret) = true ∧ okAt (.binL .caret) (paren (un .minus (atom 0))) = true := by decide
example : sem (paren (paren (call 3))) = .trunc (.call 3) := by decide
example : okAt (.binL .lt) (assert (atom 1)) = false ∧ okAt (.binL .lt) (paren (assert (atom 1))) = true := by decide

/-! ## the precedence table is full_moon's (translated on every run) -/

/-- name of an operator in the generated tables -/
def binOpName : BinOp → String
  | .caret => "caret" | .percent => "percent" | .slash => "slash" | .star => "star" | .dslash => "dslash"
  | .minus => "minus" | .plus => "plus" | .concat => "concat" | .shl => "shl" | .shr => "shr" | .band => "band"
  | .bxor => "bxor" | .bor => "bor" | .gt => "gt" | .ge => "ge" | .lt => "lt" | .le => "le" | .ne => "ne"
  | .eq => "eq" | .and => "and" | .or => "or"

/-- **the model's precedences and associativities are the ones the linked full_moon reports**
(`BinOp::precedence`, `BinOp::is_right_associative`, `UnOp::precedence`, observed through the harness and written
to `Generated/OpTables.lean` on every run): for every operator of the model -/
theorem C05_prec_table (op : BinOp) :
    (binOpName op, op.prec, op.rassoc) ∈ Generated.binOpPrec ∧ unPrec = Generated.unOpPrec ∧
    Generated.binOpPrec.length = 21 := by
  refine ⟨?_, by decide, by decide⟩
  cases op <;> decide

end StyluaModel.C05
