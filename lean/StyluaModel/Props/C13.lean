/-
C13 — `--check` never writes and its exit status tells the truth.
C14 — A failing file is left untouched and does not stop the others.
Property theorems and non-vacuity examples only (decision logic of the run model, lifted to
every completion order through the C19 theorem).
-/
import StyluaModel.Model.Run
import StyluaModel.Props.C19

namespace StyluaModel.C13
open StyluaModel.Run StyluaModel.Sched

/-- **check mode writes nothing** -/
theorem C13_no_writes (files order : List File) : (run .check files order).written = [] := by
  simp only [run]
  rw [List.map_eq_nil_iff, List.filter_eq_nil_iff]
  intro f _
  cases h : f.outcome <;> simp [worker]

/-- **a diff is printed for precisely the files that differ** -/
theorem C13_diff_iff (files order : List File) :
    (run .check files order).diffs = (files.filter fun f => f.outcome = .differs).map (·.id) := by
  simp only [run]
  congr 1
  apply List.filter_congr
  intro f _
  cases h : f.outcome <;> simp [worker, h]

theorem ops_shape (m : Mode) (order : List File) :
    ∀ op ∈ order.filterMap (fun f => (worker m f.outcome).2.2), op = .fetchMax 1 ∨ op = .store 2 := by
  intro op hop
  simp only [List.mem_filterMap] at hop
  obtain ⟨f, _, hf⟩ := hop
  cases m <;> cases h : f.outcome <;> simp [worker, h] at hf <;> simp [← hf]

/-- **the exit status tells the truth, for every completion order**: 2 iff some file failed
(unreadable, unparseable, verification, missing path), else 1 iff some file differs (check
mode), else 0 -/
theorem C13_exit (m : Mode) (files order : List File) :
    (run m files order).exit =
      if order.any (fun f => isError f.outcome) then 2
      else if m = .check ∧ order.any (fun f => decide (f.outcome = .differs)) = true then 1 else 0 := by
  simp only [run]
  have := C19.run_general _ (ops_shape m order) 0 (Or.inl rfl)
  unfold C19.runOps at this
  rw [this]
  have hs : (Op.store 2 ∈ order.filterMap fun f => (worker m f.outcome).2.2) ↔ order.any (fun f => isError f.outcome) = true := by
    simp only [List.mem_filterMap, List.any_eq_true]
    constructor
    · rintro ⟨f, hf, h⟩
      refine ⟨f, hf, ?_⟩
      cases m <;> cases ho : f.outcome <;> simp [worker, ho, isError] at h ⊢
    · rintro ⟨f, hf, h⟩
      refine ⟨f, hf, ?_⟩
      cases m <;> cases ho : f.outcome <;> simp [worker, ho, isError] at h ⊢
  have hf : (Op.fetchMax 1 ∈ order.filterMap fun f => (worker m f.outcome).2.2) ↔
      (m = .check ∧ order.any (fun f => decide (f.outcome = .differs)) = true) := by
    simp only [List.mem_filterMap, List.any_eq_true, decide_eq_true_eq]
    constructor
    · rintro ⟨f, hf, h⟩
      cases m <;> cases ho : f.outcome <;> simp [worker, ho] at h
      exact ⟨rfl, f, hf, ho⟩
    · rintro ⟨hm, f, hf, h⟩
      subst hm
      exact ⟨f, hf, by simp [worker, h]⟩
  by_cases h1 : order.any (fun f => isError f.outcome) = true
  · rw [if_pos (hs.mpr h1), if_pos h1]
  · rw [if_neg (mt hs.mp h1), if_neg h1]
    by_cases h2 : (m = .check ∧ order.any (fun f => decide (f.outcome = .differs)) = true)
    · rw [if_pos (hf.mpr h2), if_pos h2]
    · rw [if_neg (mt hf.mp h2), if_neg h2]

/-- **write mode: exactly the files that differ are replaced** (by their complete formatted
text: `fs::write(path, formatted_contents)`), so a failing file keeps its bytes, every other
selected file is still processed whatever the order, and a formatted file is not rewritten -/
theorem C14_writes (files order : List File) :
    (run .write files order).written = (files.filter fun f => f.outcome = .differs).map (·.id) ∧
    (∀ f ∈ files, isError f.outcome = true → f.id ∉ (run .write [f] order).written) ∧
    (∀ f ∈ files, f.outcome = .same → f.id ∉ (run .write [f] order).written) := by
  refine ⟨?_, ?_, ?_⟩
  · simp only [run]
    congr 1
    apply List.filter_congr
    intro f _
    cases h : f.outcome <;> simp [worker, h]
  · intro f _ he
    cases h : f.outcome <;> simp [run, worker, h, isError] at he ⊢
  · intro f _ hs
    simp [run, worker, hs]

/-- **write mode exit status** -/
theorem C14_exit2 (files order : List File) (h : order.any (fun f => isError f.outcome) = true) :
    (run .write files order).exit = 2 := by
  rw [C13_exit]; simp [h]

/-! ## non-vacuity -/
example :
    let fs : List File := [⟨0, .differs⟩, ⟨1, .parseError⟩, ⟨2, .same⟩, ⟨3, .differs⟩]
    run .check fs fs.reverse = { exit := 2, written := [], diffs := [0, 3] } ∧
    run .write fs fs = { exit := 2, written := [0, 3], diffs := [] } := by decide

end StyluaModel.C13
