/-
C10 — Output whitespace obeys line_endings and indent settings (the mechanisms with a model).
Property theorems and non-vacuity examples only; helper lemmas are in Lemmas/Trivia.lean.
-/
import StyluaModel.Lemmas.Trivia
import StyluaModel.Lemmas.Eof
import StyluaModel.Lemmas.EndToken

namespace StyluaModel.C10
open StyluaModel.Trivia StyluaModel.TriviaLemmas StyluaModel.StrLit

theorem fmtComment_mem (eol : List Char) (p : Pos) (k : CKind) (t : List Char) :
    ∀ o ∈ fmtComment eol p k t,
      o = .newline ∨ o = .indent ∨ o = .space ∨ o = .comment k (fmtText eol k t) := by
  intro o ho
  cases k <;> cases p <;> simp only [fmtComment, List.mem_cons, List.mem_nil_iff, or_false] at ho <;>
    (first
      | (rcases ho with h | h | h <;> subst h <;> simp)
      | (rcases ho with h | h <;> subst h <;> simp)
      | (subst ho; simp))

/-- **input whitespace is never copied**: every token `load_token_trivia` returns is a created
newline (the configured ending), a created indent, a single space, or a re-formatted comment -/
theorem C10_created_ws (eol : List Char) (p : Pos) (t : List Triv) :
    ∀ nl skip, ∀ o ∈ loadAux eol p nl skip t,
      o = .newline ∨ o = .indent ∨ o = .space ∨ ∃ k txt, o = .comment k (fmtText eol k txt) := by
  induction t with
  | nil => intro nl skip o ho; simp [loadAux] at ho
  | cons x rest ih =>
    intro nl skip o ho
    cases x with
    | comment k txt =>
      simp only [loadAux, List.mem_append] at ho
      rcases ho with ho | ho
      · rcases fmtComment_mem eol p k txt o ho with h | h | h | h
        · exact Or.inl h
        · exact Or.inr (Or.inl h)
        · exact Or.inr (Or.inr (Or.inl h))
        · exact Or.inr (Or.inr (Or.inr ⟨k, txt, h⟩))
      · exact ih _ _ o ho
    | ws hasNl =>
      cases p with
      | leading =>
        simp only [loadAux] at ho
        split at ho
        · exact ih _ _ o ho
        · split at ho
          · simp only [List.mem_append] at ho
            rcases ho with ho | ho
            · split at ho
              · simp at ho; exact Or.inl ho
              · simp at ho
            · exact ih _ _ o ho
          · exact ih _ _ o ho
      | trailing =>
        simp only [loadAux, List.mem_append] at ho
        rcases ho with ho | ho
        · split at ho
          · simp at ho; exact Or.inr (Or.inr (Or.inl ho))
          · simp at ho
        · exact ih _ _ o ho

/-- **a line comment (or the shebang) never ends in whitespace** — in particular it carries
no trailing carriage return from a CRLF input -/
theorem C10_line_comment_clean (eol : List Char) (t : List Char) (c : Char)
    (h : (fmtText eol .line t).getLast? = some c) : isWs c = false ∧ c ≠ '\r' := by
  have := trimEnd_last t c h
  refine ⟨this, ?_⟩
  intro hc; subst hc; simp [isWs] at this

/-- **block comments / long strings, Unix endings**: no carriage return survives -/
theorem C10_block_lf (lvl : Nat) (t : List Char) (h : noLoneCR t = true) :
    noCR (fmtText ['\n'] (.block lvl) t) = true := by
  simp only [fmtText, rewriteLong, lfToEol_lf]
  exact noCR_crlfToLf t h

/-- **block comments / long strings, Windows endings**: every line ending is exactly CRLF -/
theorem C10_block_crlf (lvl : Nat) (t : List Char) (h : noLoneCR t = true) :
    wellCRLF (fmtText ['\r', '\n'] (.block lvl) t) = true := by
  simp only [fmtText, rewriteLong]
  exact wellCRLF_lfToEol _ (noCR_crlfToLf t h)

/-- the hypothesis is needed: a lone carriage return is passed through untouched -/
theorem C10_lone_cr_passes :
    fmtText ['\n'] (.block 0) ['a', '\r', 'b'] = ['a', '\r', 'b'] := by decide

/-- **end of file**: when the end of the file is formatted, what follows the last statement's own
line ending is either nothing, or ends with a comment followed by exactly one line ending - never
blank lines, never indentation, never a missing final newline (whatever blank lines, spaces and
comments the input had there) -/
theorem C10_eof_one_newline (eol : List Char) (lead : List Triv) (o : List Out)
    (h : Eof.fmtEof eol true lead = some o) :
    o = [] ∨ ∃ pre k t, o = pre ++ [.comment k t, .newline] := by
  simp only [Eof.fmtEof, Bool.not_true, Bool.false_eq_true, if_false, Option.some.injEq] at h
  split at h
  · left; exact h.symm
  · right
    rcases EofLemmas.popWs_last (load eol .leading lead) with hp | ⟨pre, k, t, hp⟩
    · -- nothing but whitespace would have been left: excluded by the branch
      rename_i hall
      exfalso
      apply hall
      have hc : commentsOut (load eol .leading lead) = [] := by
        rw [← EofLemmas.commentsOut_popWs, hp]; rfl
      clear h hp
      generalize load eol .leading lead = l at hc ⊢
      induction l with
      | nil => rfl
      | cons x xs ih =>
        cases x <;> simp_all [commentsOut, Eof.isWsOut]
    · exact ⟨pre, k, t, by rw [← h, hp]; simp⟩

/-! ## non-vacuity -/
example : noLoneCR "one\r\ntwo\nthree".toList = true ∧
    fmtText ['\r', '\n'] (.block 0) "one\r\ntwo\nthree".toList = "one\r\ntwo\r\nthree".toList := by decide

/-- **no blank line in front of a closing token**: in the leading trivia of a formatted `end` / `}` / `until`, read
from the back, indentation aside, the first line ending met directly follows a comment (it is that comment's own
line ending) - or there is none: runs of blank lines at the end of a block are removed, whatever their length -/
theorem C10_end_token_no_blank (eol : List Char) (lead : List Trivia.Triv) :
    EndTokenLemmas.tailClean (EndToken.endLeading eol lead).reverse = true := by
  simp only [EndToken.endLeading, List.reverse_reverse]
  exact EndTokenLemmas.scan_clean _

example : EndToken.endLeading ['\n'] [.ws true, .ws true, .comment .line ['c'], .ws true, .ws true, .ws true] =
    [.newline, .indent, .comment .line ['c'], .newline] := by decide

end StyluaModel.C10
