/-
C12 — Require sorting only permutes statements inside a require block.
Property theorems and non-vacuity examples only; helper lemmas are in Lemmas/SortReq.lean.
Model: Model/SortReq.lean (`repaired` = after fix 3cbabd9, `pinned` = before).
-/
import StyluaModel.Lemmas.SortReq

namespace StyluaModel.C12
open StyluaModel.SortReq StyluaModel.SortLemmas

/-- **permutation**: nothing is lost, duplicated or created -/
theorem C12_perm (v : Variant) (enabled : Bool) (items : List Item) :
    (sortRequires v enabled items).Perm items := by
  unfold sortRequires
  split
  · have := sortParts_perm v false (partition items)
    rwa [partition_flat] at this
  · exact List.Perm.refl _

/-- **option off**: statement order never changes -/
theorem C12_off (v : Variant) (items : List Item) : sortRequires v false items = items := rfl

/-- **the parts are a partition of the top level, in order**, a group contains only
single-name `require` (resp. `GetService`) locals of one kind and an `other` part contains
none: so a group never swallows another statement and groups of different kinds never merge -/
theorem C12_partition (items : List Item) :
    flat (partition items) = items ∧ ∀ p ∈ partition items, PartOK p :=
  ⟨partition_flat items, partition_ok items⟩

/-- **only members of one group exchange places**: the output is, part by part and in the
same order, a permutation of each part; parts that are not groups are reproduced as they are -/
theorem C12_blocks (v : Variant) (items : List Item) :
    ∃ outs : List (List Item), sortRequires v true items = outs.flatten ∧ Blockwise outs (partition items) := by
  simpa [sortRequires] using sortParts_blocks v false (partition items)

/-- **each group comes out ordered by NAME** (byte-lexicographic, as Rust orders `String`s) -/
theorem C12_sorted (v : Variant) (d : Bool) (k : GKind) (is : List Item) (h : allNormal v d is = true) :
    List.Pairwise (fun a b => a.key ≤ b.key) (sortPart v d (.group k is)) := by
  have := sortPart_sorted v d k is h
  exact this.imp (by intro a b hab; simpa [keyLe] using hab)

/-- **stable**: two members whose names are already in order keep their relative order (in
particular, duplicates do) -/
theorem C12_stable (v : Variant) (d : Bool) (k : GKind) (is : List Item) (a b : Item)
    (hab : [a, b].Sublist is) (hle : a.key ≤ b.key) : [a, b].Sublist (sortPart v d (.group k is)) :=
  sortPart_stable v d k is a b hab (by simpa [keyLe] using hle)

/-- **a group containing an ignored statement (single directive or open region) or a
statement outside the range is left alone** -/
theorem C12_ignored_group (d : Bool) (k : GKind) (is : List Item) (it : Item) (hm : it ∈ is)
    (h : it.lines.contains .ignore = true ∨ it.inRange = false) :
    sortPart repaired d (.group k is) = is :=
  sortPart_ignored repaired d k is (allNormal_false_of_member d is it hm h)

/-- … and so is a group all of which lies in a region opened by `ignore start` -/
theorem C12_region (k : GKind) (a b : Item) (h : a.lines = [.ignoreStart]) :
    sortPart repaired false (.group k [a, b]) = [a, b] := by
  apply sortPart_ignored
  simp [allNormal, repaired, flagsAfter, h, Block.toggle, isNormal]

/-- the code before the repair sorted inside an `ignore start` region (D18) -/
theorem C12_pinned_violates :
    let a : Item := { id := 0, kind := some .require, key := [98], nameLine := 2, endLine := 2, lines := [.ignoreStart], inRange := true }
    let b : Item := { id := 1, kind := some .require, key := [97], nameLine := 3, endLine := 3, lines := [], inRange := true }
    allNormal pinned false [a, b] = true ∧ allNormal repaired false [a, b] = false ∧
    sortPart repaired false (.group .require [a, b]) = [a, b] := by
  refine ⟨by decide, by decide, ?_⟩
  exact sortPart_ignored repaired false .require _ (by decide)

/-! ## non-vacuity -/
example :
    let mk (i : Nat) (k : Option GKind) (key : List Nat) (l : Nat) : Item :=
      { id := i, kind := k, key := key, nameLine := l, endLine := l, lines := [], inRange := true }
    (partition
      [mk 0 (some .require) [99] 1, mk 1 (some .require) [97] 2, mk 2 none [] 3, mk 3 (some .require) [98] 4,
       mk 4 (some .getService) [97] 5, mk 5 (some .require) [97] 7, mk 6 (some .require) [96] 8]).map
        (fun p => p.items.map (·.id))
      = [[0, 1], [2], [3], [4], [5, 6]] := by decide

end StyluaModel.C12
