/-
C11 — quote_style, call_parentheses and space_after_function_names are honoured.
Property theorems (decision logic stated outright) and non-vacuity examples only.
-/
import StyluaModel.Model.CallArgs
import StyluaModel.Lemmas.StrLit
import StyluaModel.Generated.Decisions

namespace StyluaModel.C11
open StyluaModel.CallArgs StyluaModel.StrLit

/-! ## quote_style -/

/-- ForceDouble / ForceSingle: every quoted string uses that quote -/
theorem C11_force (b : List Char) :
    (rewrite .forceDouble b).1 = .double ∧ (rewrite .forceSingle b).1 = .single := ⟨rfl, rfl⟩

/-- AutoPrefer*: the preferred quote is used unless the other needs strictly fewer escapes
(`countC q b` = number of `q` characters of the literal = escapes needed when delimiting with `q`) -/
theorem C11_auto (b : List Char) :
    ((rewrite .autoPreferDouble b).1 = .single ↔ countC '\'' b < countC '"' b) ∧
    ((rewrite .autoPreferSingle b).1 = .double ↔ countC '"' b < countC '\'' b) := by
  simp only [rewrite, quoteToUse]
  constructor
  · by_cases h1 : countC '\'' b = countC '"' b
    · simp [h1]
    · by_cases h2 : countC '\'' b > countC '"' b
      · simp [h1, h2]; try omega
      · simp [h1, h2]; try omega
  · by_cases h1 : countC '\'' b = countC '"' b
    · simp [h1]
    · by_cases h2 : countC '\'' b > countC '"' b
      · simp [h1, h2]; try omega
      · simp [h1, h2]; try omega

/-! ## call_parentheses -/

/-- Always: no call is written without parentheses -/
theorem C11_call_always (obscure : Bool) (f : Form) : callForm .always obscure f = .parens := by
  cases f <;> simp [callForm, omitString, omitTable]

/-- Input: each call keeps the form it had -/
theorem C11_call_input (obscure : Bool) (n : Nat) (k : ArgKind) :
    callForm .input obscure (.parens n k) = .parens ∧
    callForm .input obscure .stringSugar = .sugar ∧ callForm .input obscure .tableSugar = .sugar := by
  simp [callForm]

/-- None / NoSingleString / NoSingleTable: the corresponding single-argument calls have no
parentheses unless an index or method call follows — whichever way they were written -/
theorem C11_call_omit (m : Mode) (hm : m ≠ .input) :
    (omitString m = true →
      callForm m false (.parens 1 .string) = .sugar ∧ callForm m false .stringSugar = .sugar ∧
      callForm m true (.parens 1 .string) = .parens ∧ callForm m true .stringSugar = .parens) ∧
    (omitTable m = true →
      callForm m false (.parens 1 .table) = .sugar ∧ callForm m false .tableSugar = .sugar ∧
      callForm m true (.parens 1 .table) = .parens ∧ callForm m true .tableSugar = .parens) ∧
    (omitString m = false → ∀ o, callForm m o (.parens 1 .string) = .parens ∧ callForm m o .stringSugar = .parens) ∧
    (omitTable m = false → ∀ o, callForm m o (.parens 1 .table) = .parens ∧ callForm m o .tableSugar = .parens) := by
  cases m <;> simp_all [callForm, omitString, omitTable]

/-- anything that is not a single direct string / table argument always has parentheses -/
theorem C11_call_other (m : Mode) (o : Bool) (n : Nat) (k : ArgKind) (h : n ≠ 1 ∨ k = .other) :
    callForm m o (.parens n k) = .parens := by
  rcases h with h | h
  · simp [callForm, h]
  · subst h; simp only [callForm]; split <;> rfl

/-! ## space_after_function_names -/

/-- a space separates a function name from `(` exactly in the cases the option names -/
theorem C11_space :
    (callSpace .never, defSpace .never) = (0, 0) ∧ (callSpace .definitions, defSpace .definitions) = (0, 1) ∧
    (callSpace .calls, defSpace .calls) = (1, 0) ∧ (callSpace .always, defSpace .always) = (1, 1) := by decide

/-- name of a mode in the source (`CallParenType`) -/
def modeName : Mode → String
  | .always => "Always"
  | .noSingleString => "NoSingleString"
  | .noSingleTable => "NoSingleTable"
  | .none => "None"
  | .input => "Input"

/-- **the model's omission tables are the source's**: `should_omit_string_parens` /
`should_omit_table_parens` (context.rs), as the translator reads them on every run, answer true for
exactly the modes for which the model does -/
theorem C11_omit_modes (m : Mode) :
    omitString m = Generated.omitStringModes.contains (modeName m) ∧
    omitTable m = Generated.omitTableModes.contains (modeName m) := by
  cases m <;> decide

/-! ## non-vacuity -/
example : (rewrite .autoPreferDouble "it's \"x\" \"y\"".toList).1 = .single := by decide
example : callForm .none true (.parens 1 .string) = .parens ∧ callForm .none false (.parens 1 .string) = .sugar := by decide

end StyluaModel.C11
