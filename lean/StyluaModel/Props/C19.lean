/-
C19 — Results do not depend on thread count or scheduling (the exit-status protocol).
Property theorems and non-vacuity examples only. `Generated/ExitOps.lean` is re-extracted from
src/cli/main.rs on every run: the first theorem fails as soon as the code touches EXIT_CODE
with anything but one atomic fetch_max in the diff handler and one store in the logger.
-/
import StyluaModel.Generated.ExitOps

namespace StyluaModel.C19
open StyluaModel.Sched StyluaModel.Generated

/-- **what the code does to EXIT_CODE** (translation tie): the diff handler is a single atomic
`fetch_max(1)`, the logger a single `store(2)` (as is the JSON branch that reports a parse error
without the logger), the end a `load`, and nothing else touches it -/
theorem C19_ops :
    diffHandlerOps = [.fetchMax 1] ∧ loggerOps = [.store 2] ∧ jsonParseErrorOps = [.store 2] ∧
    finalOps = [.load] ∧ totalOps = 4 := by
  decide

/-- the effects, in the order in which they take effect: since every handler / logger
invocation is one atomic operation, a schedule is just an ordering of these operations -/
def runOps (cell : Int) (ops : List Op) : Int := ops.foldl (fun c op => (stepOp c 0 op).1) cell

theorem runOps_cons (c : Int) (op : Op) (ops : List Op) : runOps c (op :: ops) = runOps (stepOp c 0 op).1 ops := rfl

/-- once an error has been recorded the status stays 2, whatever follows -/
theorem run_from_two (ops : List Op) (h : ∀ op ∈ ops, op = .fetchMax 1 ∨ op = .store 2) : runOps 2 ops = 2 := by
  induction ops with
  | nil => rfl
  | cons op rest ih =>
    rw [runOps_cons]
    rcases h op (by simp) with h1 | h1 <;> subst h1 <;> simp [stepOp] <;>
      exact ih (fun o ho => h o (by simp [ho]))

theorem run_general (ops : List Op) (h : ∀ op ∈ ops, op = .fetchMax 1 ∨ op = .store 2) (c : Int)
    (hc : c = 0 ∨ c = 1) :
    runOps c ops = if (Op.store 2) ∈ ops then 2 else if (Op.fetchMax 1) ∈ ops then 1 else c := by
  induction ops generalizing c with
  | nil => simp [runOps]
  | cons op rest ih =>
    rw [runOps_cons]
    have hrest : ∀ o ∈ rest, o = .fetchMax 1 ∨ o = .store 2 := fun o ho => h o (by simp [ho])
    rcases h op (by simp) with h1 | h1
    · subst h1
      have hstep : (stepOp c 0 (.fetchMax 1)).1 = 1 := by
        rcases hc with hc | hc <;> subst hc <;> simp [stepOp] <;> decide
      rw [hstep, ih hrest 1 (Or.inr rfl)]
      by_cases hs : Op.store 2 ∈ rest
      · simp [hs]
      · by_cases hf : Op.fetchMax 1 ∈ rest <;> simp [hs, hf]
    · subst h1
      have hstep : (stepOp c 0 (.store 2)).1 = 2 := by simp [stepOp]
      rw [hstep, run_from_two rest hrest]
      simp

/-- **the exit status is the same for every schedule**: whatever the order in which `n` diff
reports and `m` error reports take effect, the final status is 2 if m > 0, else 1 if n > 0,
else 0 — in particular an error is never masked by a diff -/
theorem C19_exit_any_schedule (n m : Nat) (order : List Op)
    (hperm : order.Perm (List.replicate n (.fetchMax 1) ++ List.replicate m (.store 2))) :
    runOps 0 order = spec m n := by
  have hmem : ∀ op ∈ order, op = .fetchMax 1 ∨ op = .store 2 := by
    intro op hop
    have := hperm.mem_iff.mp hop
    simp only [List.mem_append, List.mem_replicate] at this
    rcases this with ⟨_, h⟩ | ⟨_, h⟩
    · exact Or.inl h
    · exact Or.inr h
  rw [run_general order hmem 0 (Or.inl rfl)]
  have hs : (Op.store 2 ∈ order) ↔ m > 0 := by
    rw [hperm.mem_iff]; simp [List.mem_append, List.mem_replicate]; omega
  have hf : (Op.fetchMax 1 ∈ order) ↔ n > 0 := by
    rw [hperm.mem_iff]; simp [List.mem_append, List.mem_replicate]; omega
  unfold spec
  by_cases h1 : m > 0
  · simp [hs.mpr h1, h1]
  · by_cases h2 : n > 0
    · simp [mt hs.mp h1, hf.mpr h2, h1, h2]
    · simp [mt hs.mp h1, mt hf.mp h2, h1, h2]

/-- the code before the repair (load, then a conditional store) masks an error that is
recorded between the two: the three-step schedule handler.load, logger.store, handler.store
ends with 1 although an error was reported (D8; replayed on the binary through the schedule
hook) -/
theorem C19_pinned_violates :
    exec 0 [{ ops := [.load, .storeIfLoaded .ne 2 1] }, { ops := [.store 2] }] [0, 1, 0] = 1 ∧
    spec 1 1 = 2 ∧
    exec 0 [{ ops := [.fetchMax 1] }, { ops := [.store 2] }] [0, 1] = 2 ∧
    exec 0 [{ ops := [.fetchMax 1] }, { ops := [.store 2] }] [1, 0] = 2 := by decide

/-! ## non-vacuity -/
example : runOps 0 [.fetchMax 1, .store 2, .fetchMax 1] = 2 ∧ runOps 0 [.fetchMax 1, .fetchMax 1] = 1 := by decide

end StyluaModel.C19
