/-
C04 — Literal values survive quote and number normalisation.
Property theorems and non-vacuity examples only; helper lemmas are in Lemmas/StrLit.lean.
-/
import StyluaModel.Lemmas.StrLit
import StyluaModel.Lemmas.Long

namespace StyluaModel.C04
open StyluaModel.StrLit StyluaModel.StrVal

/-- **C04 (Lua 5.1 semantics)**: for every quote style and every body, the rewritten
string literal denotes the same byte string. -/
theorem C04_value_51 (style : QuoteStyle) (b : List Char) :
    decode51 (rewrite style b).2 = decode51 b :=
  (scan_sim51 _ b).1


/-- **C04 (Lua 5.2+ semantics)**: whenever the input literal is a valid literal of real
Lua 5.2+ (so it has a value at all), the rewritten literal is valid and has that value. -/
theorem C04_value_52 (style : QuoteStyle) (b : List Char) (v : List Nat)
    (h : decode52 b = some v) : decode52 (rewrite style b).2 = some v :=
  scan_sim52 _ b .norm rfl v h

/-- **C04 (well-formedness)**: a body full_moon accepted between `q … q` under the strict
rule (no raw newline) is, after rewriting, accepted between the *chosen* quotes, in every
dialect mode of the tokenizer: no bare delimiter, no dangling backslash. -/
theorem C04_wf (style : QuoteStyle) (q : Char) (b : List Char) (v52 zf : Bool)
    (h : lexOK false false q b = true) :
    lexOK v52 zf (qchar (rewrite style b).1) (rewrite style b).2 = true :=
  lex_mono v52 zf _ _ false false (scan_lex51 _ q b h)

/-- a number token that does not start with `.` / `-.` is returned byte-identical (every
hex, binary, suffixed, underscored spelling) -/
theorem C04_num_id (t : List Char) (h1 : t.head? ≠ some '.')
    (h2 : ¬ (t.head? = some '-' ∧ t.tail.head? = some '.')) : rewriteNumber t = t := by
  unfold rewriteNumber
  split
  · simp at h1
  · simp at h2
  · rfl

/-- `.5` becomes `0.5`: only a leading zero digit is added -/
theorem C04_num_dot (t : List Char) : rewriteNumber ('.' :: t) = '0' :: '.' :: t := rfl

/-! ## non-vacuity -/
example : decode52 "a\\'\"\\x41\\z  b".toList ≠ none := by decide
example : lexOK false false '"' "it\\'s \\\"q\\\" \\65".toList = true := by decide

/-! ## long-bracket strings -/

/-- **a long-bracket string denotes the same bytes after formatting**, under either `line_endings`
value: `format_token` turns every CRLF into LF and then every LF into the configured ending; a Lua
reader skips a first line break and reads every line-break sequence (`\n`, `\r`, `\r\n`, `\n\r`) as
`\n`. Holds for bodies of any length in which every carriage return is followed by a line feed. -/
theorem C04_long (eol : List Char) (he : eol = ['\n'] ∨ eol = ['\r', '\n']) (b : List Char)
    (h : TriviaLemmas.noLoneCR b = true) : decodeLong (rewriteLong eol b) = decodeLong b :=
  LongLemmas.long_value eol he b h

/-- the hypothesis is needed: a lone carriage return next to another line break belongs to one
`\n\r` break (or is a break of its own in front of `\r\n`) for the reader; the two-step conversion
splits the first under Windows endings and merges the second under Unix endings -/
theorem C04_long_lone_cr_witness :
    decodeLong (rewriteLong ['\r', '\n'] ['a', '\n', '\r', 'b']) ≠ decodeLong ['a', '\n', '\r', 'b'] ∧
    decodeLong (rewriteLong ['\n'] ['a', '\r', '\r', '\n', 'b']) ≠ decodeLong ['a', '\r', '\r', '\n', 'b'] := by
  decide

example : TriviaLemmas.noLoneCR ['\r', '\n', 'x', '\n', '\r', '\n', 'y'] = true ∧
    rewriteLong ['\r', '\n'] ['\r', '\n', 'x', '\n', '\r', '\n', 'y'] = ['\r', '\n', 'x', '\r', '\n', '\r', '\n', 'y'] := by decide

end StyluaModel.C04
