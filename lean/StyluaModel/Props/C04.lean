/-
C04 — Literal values survive quote and number normalisation.
Property theorems and non-vacuity examples only; helper lemmas are in Lemmas/StrLit.lean.
-/
import StyluaModel.Lemmas.StrLit
import StyluaModel.Lemmas.Long
import StyluaModel.Generated.Decisions

namespace StyluaModel.C04
open StyluaModel.StrLit StyluaModel.StrVal

/-- **C04 (Lua 5.1 semantics)**: for every quote style and every body, the rewritten
string literal denotes the same byte string. -/
theorem C04_value_51 (style : QuoteStyle) (b : List Char) :
    decode51 (rewrite style b).2 = decode51 b :=
  (scan_sim51 _ b).1


/-- **C04 (Lua 5.2+ semantics)**: whenever the input literal is a valid literal of real
Lua 5.2+ (so it has a value at all), the rewritten literal is valid and has that value. -/
theorem C04_value_52 (style : QuoteStyle) (b : List Char) (v : List Nat)
    (h : decode52 b = some v) : decode52 (rewrite style b).2 = some v :=
  scan_sim52 _ b .norm rfl v h

/-- **C04 (well-formedness)**: a body full_moon accepted between `q … q` under the strict
rule (no raw newline) is, after rewriting, accepted between the *chosen* quotes, in every
dialect mode of the tokenizer: no bare delimiter, no dangling backslash. -/
theorem C04_wf (style : QuoteStyle) (q : Char) (b : List Char) (v52 zf : Bool)
    (h : lexOK false false q b = true) :
    lexOK v52 zf (qchar (rewrite style b).1) (rewrite style b).2 = true :=
  lex_mono v52 zf _ _ false false (scan_lex51 _ q b h)

/-- a number token that does not start with `.` / `-.` is returned byte-identical (every
hex, binary, suffixed, underscored spelling) -/
theorem C04_num_id (t : List Char) (h1 : t.head? ≠ some '.')
    (h2 : ¬ (t.head? = some '-' ∧ t.tail.head? = some '.')) : rewriteNumber t = t := by
  unfold rewriteNumber
  split
  · simp at h1
  · simp at h2
  · rfl

/-- `.5` becomes `0.5`: only a leading zero digit is added -/
theorem C04_num_dot (t : List Char) : rewriteNumber ('.' :: t) = '0' :: '.' :: t := rfl

/-! ## non-vacuity -/
example : decode52 "a\\'\"\\x41\\z  b".toList ≠ none := by decide
example : lexOK false false '"' "it\\'s \\\"q\\\" \\65".toList = true := by decide

/-! ## long-bracket strings -/

/-- **a long-bracket string denotes the same bytes after formatting**, under either `line_endings`
value: `format_token` turns every CRLF into LF and then every LF into the configured ending; a Lua
reader skips a first line break and reads every line-break sequence (`\n`, `\r`, `\r\n`, `\n\r`) as
`\n`. Holds for bodies of any length in which every carriage return is followed by a line feed. -/
theorem C04_long (eol : List Char) (he : eol = ['\n'] ∨ eol = ['\r', '\n']) (b : List Char)
    (h : TriviaLemmas.noLoneCR b = true) : decodeLong (rewriteLong eol b) = decodeLong b :=
  LongLemmas.long_value eol he b h

/-- the hypothesis is needed: a lone carriage return next to another line break belongs to one
`\n\r` break (or is a break of its own in front of `\r\n`) for the reader; the two-step conversion
splits the first under Windows endings and merges the second under Unix endings -/
theorem C04_long_lone_cr_witness :
    decodeLong (rewriteLong ['\r', '\n'] ['a', '\n', '\r', 'b']) ≠ decodeLong ['a', '\n', '\r', 'b'] ∧
    decodeLong (rewriteLong ['\n'] ['a', '\r', '\r', '\n', 'b']) ≠ decodeLong ['a', '\r', '\r', '\n', 'b'] := by
  decide

example : TriviaLemmas.noLoneCR ['\r', '\n', 'x', '\n', '\r', '\n', 'y'] = true ∧
    rewriteLong ['\r', '\n'] ['\r', '\n', 'x', '\n', '\r', '\n', 'y'] = ['\r', '\n', 'x', '\r', '\n', '\r', '\n', 'y'] := by decide

/-! ## the model's constants are the source's constants (translated on every run) -/

def inRanges (rs : List (Nat × Nat)) (n : Nat) : Bool := rs.any fun r => decide (r.1 ≤ n) && decide (n ≤ r.2)

/-- the two regular expressions `format_token` uses for quoted strings are the ones the scanner
`StrLit.scan` was written for (a changed source regex breaks this obligation) -/
theorem C04_regex_pinned :
    Generated.stringRegex = "\\\\?([\"'])|\\\\([\\S\\s])" ∧
    Generated.unnecessaryEscapesRegex = "^[^\\n\\r\"'0-9\\\\abfnrtuvxz]$" := by decide

/-- **the escape class of the model is the one in the source**: for every character, `necessary`
(the escapes whose backslash is kept) is membership in the negated class of UNNECESSARY_ESCAPES as
the translator reads it from general.rs -/
theorem C04_escape_class (c : Char) : necessary c = inRanges Generated.necessaryRanges c.toNat := by
  have e : ∀ d : Char, (c == d) = decide (c.toNat = d.toNat) := by
    intro d
    by_cases h : c = d
    · subst h; simp
    · have : c.toNat ≠ d.toNat := fun hh => h (Char.toNat_inj.mp hh)
      simp [h, this]
  simp only [necessary, e, Char.isDigit, inRanges, Generated.necessaryRanges, List.any_cons, List.any_nil]
  simp only [UInt32.le_iff_toNat_le, Char.toNat]
  have k : ('\n'.val.toNat = 10) ∧ ('\r'.val.toNat = 13) ∧ ('"'.val.toNat = 34) ∧ ('\''.val.toNat = 39) ∧
      ('0'.val.toNat = 48) ∧ ('9'.val.toNat = 57) ∧ ('\\'.val.toNat = 92) ∧ ('a'.val.toNat = 97) ∧ ('b'.val.toNat = 98) ∧
      ('f'.val.toNat = 102) ∧ ('n'.val.toNat = 110) ∧ ('r'.val.toNat = 114) ∧ ('t'.val.toNat = 116) ∧ ('u'.val.toNat = 117) ∧
      ('v'.val.toNat = 118) ∧ ('x'.val.toNat = 120) ∧ ('z'.val.toNat = 122) := by decide
  obtain ⟨k1, k2, k3, k4, k5, k6, k7, k8, k9, k10, k11, k12, k13, k14, k15, k16, k17⟩ := k
  rw [Bool.eq_iff_iff]
  simp only [Bool.or_eq_true, Bool.and_eq_true, decide_eq_true_eq, Bool.or_false]
  rw [k1, k2, k3, k4, k5, k6, k7, k8, k9, k10, k11, k12, k13, k14, k15, k16, k17]
  omega

end StyluaModel.C04
