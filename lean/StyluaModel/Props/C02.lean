/-
C02 — Formatting never changes what the program means (the edit kinds that have a model).
Property theorems and non-vacuity examples only.
-/
import StyluaModel.Lemmas.Paren
import StyluaModel.Lemmas.StrLit
import StyluaModel.Lemmas.Parser
import StyluaModel.Lemmas.TypeParen
import StyluaModel.Lemmas.Block

namespace StyluaModel.C02
open StyluaModel StyluaModel.ParenRule StyluaModel.Prec StyluaModel.ParenLemmas Expr

/-- **expressions**: on both layout paths and for every oracle the formatted tree is faithful
(so the parser reads back exactly this tree) and has the meaning of the input tree: same
operators, operands and grouping; `(f())` / `(...)` truncation kept. -/
theorem C02_expr (o : Oracle) (e : Expr) (hf : faithful e = true) :
    (faithful (fmtS repaired .std e) = true ∧ sem (fmtS repaired .std e) = sem e) ∧
    (faithful (fmtH repaired o .std e) = true ∧ sem (fmtH repaired o .std e) = sem e) :=
  ⟨⟨(fmtS_good e .std .top rfl hf rfl).1, (fmtS_good e .std .top rfl hf rfl).2.2.1⟩,
   ⟨((hang_good e).1 o .std .top rfl hf rfl).1, ((hang_good e).1 o .std .top rfl hf rfl).2.2.1⟩⟩

/-- **meaning through the parser**: what the parser reads from the printed output means what it
reads from the printed input (both layout paths, every oracle, enough fuel) -/
theorem C02_expr_parsed (o : Oracle) (e : Expr) (hf : faithful e = true) :
    ∃ n, ∀ f, n ≤ f →
      (Parser.parse f (Parser.print (fmtS repaired .std e))).map sem = (Parser.parse f (Parser.print e)).map sem ∧
      (Parser.parse f (Parser.print (fmtH repaired o .std e))).map sem = (Parser.parse f (Parser.print e)).map sem := by
  obtain ⟨⟨hs1, hs2⟩, ⟨hh1, hh2⟩⟩ := C02_expr o e hf
  obtain ⟨n0, h0⟩ := ParserLemmas.parse_print e hf
  obtain ⟨n1, h1⟩ := ParserLemmas.parse_print _ hs1
  obtain ⟨n2, h2⟩ := ParserLemmas.parse_print _ hh1
  refine ⟨max n0 (max n1 n2), fun f hle => ?_⟩
  rw [h0 f (by omega), h1 f (by omega), h2 f (by omega)]
  simp [hs2, hh2]

/-- the same at operand positions (what `format_expression_internal` is called with) -/
theorem C02_expr_at (o : Oracle) (ctx : Ctx) (p : Pos) (e : Expr) (hd : dropOK ctx p = true)
    (hf : faithful e = true) (hok : okAt p e = true) :
    sem (fmtS repaired ctx e) = sem e ∧ sem (fmtH repaired o ctx e) = sem e :=
  ⟨(fmtS_good e ctx p hd hf hok).2.2.1, ((hang_good e).1 o ctx p hd hf hok).2.2.1⟩

/-- single value of an expression (conditions, operands): truncation is a no-op there -/
def semSingle : Sem → Sem
  | .trunc s => s
  | s => s

/-- **condition parentheses** (`if (x) then`): removing them keeps the single value -/
theorem C02_cond (e : Expr) : semSingle (sem (stripCond e)) = semSingle (sem e) := by
  cases e with
  | paren x => simp only [stripCond, sem]; cases sem x <;> rfl
  | _ => rfl

/-- **string literals** denote the same bytes (Lua 5.1 reading; total) -/
theorem C02_string_51 (style : StrLit.QuoteStyle) (b : List Char) :
    StrVal.decode51 (StrLit.rewrite style b).2 = StrVal.decode51 b :=
  (StyluaModel.C04.scan_sim51 _ b).1

/-- … and the same bytes in the Lua 5.2+ / Luau reading whenever the input has one -/
theorem C02_string_52 (style : StrLit.QuoteStyle) (b : List Char) (v : List Nat)
    (h : StrVal.decode52 b = some v) : StrVal.decode52 (StrLit.rewrite style b).2 = some v :=
  StyluaModel.C04.scan_sim52 _ b .norm rfl v h

/-- **numbers**: only a `0` is put in front of a leading `.` -/
theorem C02_number (t : List Char) :
    StrLit.rewriteNumber t = t ∨ StrLit.rewriteNumber t = '0' :: t ∨
    (∃ r, t = '-' :: '.' :: r ∧ StrLit.rewriteNumber t = '-' :: '0' :: '.' :: r) := by
  unfold StrLit.rewriteNumber
  split
  · exact Or.inr (Or.inl rfl)
  · exact Or.inr (Or.inr ⟨_, rfl, rfl⟩)
  · exact Or.inl rfl

/-- **Luau types keep their meaning**: whatever parentheses the type-parenthesis rule drops, in every
context and for every layout oracle (which parenthesised types go multi-line), the formatted
type denotes the type that was written - parentheses forgotten except a one-element pack as a
generic argument, unions of unions and intersections of intersections flattened -/
theorem C02_type_meaning (o : List Nat → Bool) (p : List Nat) (c : TypeParen.Ctx) (t : TypeParen.Ty) :
    TypeSpec.sem (TypeParen.fmtT TypeParen.current o p c t) = TypeSpec.sem t :=
  TypeLemmas.sem_fmtT o t p c

/-- … and it can still be read back: if the written type was well-formed at its position and the
context records at least what that position demands (it does: flags only accumulate on the
way down, `format_type_info` starts from the empty context at a delimited position), then so is
the formatted type, at every depth -/
theorem C02_type_reparses (o : List Nat → Bool) (p : List Nat) (c : TypeParen.Ctx) (pos : TypeSpec.Pos)
    (t : TypeParen.Ty) (hw : TypeSpec.wf pos t = true) (hc : TypeSpec.covers c pos = true) :
    TypeSpec.wf pos (TypeParen.fmtT TypeParen.current o p c t) = true :=
  (TypeLemmas.wf_fmtT o t pos p c hw hc).1

/-- the entry point: `format_type_info` (empty context, delimited position) -/
theorem C02_type_entry (o : List Nat → Bool) (t : TypeParen.Ty) (hw : TypeSpec.wf .top t = true) :
    TypeSpec.wf .top (TypeParen.fmtT TypeParen.current o [] TypeParen.Ctx.new t) = true ∧
    TypeSpec.sem (TypeParen.fmtT TypeParen.current o [] TypeParen.Ctx.new t) = TypeSpec.sem t :=
  ⟨(TypeLemmas.wf_fmtT o t .top [] _ hw rfl).1, TypeLemmas.sem_fmtT o t [] _⟩

/-- why the context must travel into a dropped parenthesis: formatting the content of `((() -> A))?`
in a fresh context (the seeded change C02b) yields `() -> A?`, a function returning an optional -/
theorem C02_type_fresh_context_violates :
    let t : TypeParen.Ty := .opt (.paren (.paren (.fn [] (.basic 0))))
    let bad := TypeParen.fmtT { ctxIntoParen := false } (fun _ => false) [] TypeParen.Ctx.new t
    let good := TypeParen.fmtT TypeParen.current (fun _ => false) [] TypeParen.Ctx.new t
    bad = .opt (.fn [] (.basic 0)) ∧ TypeSpec.wf .top bad = false ∧
    good = .opt (.paren (.fn [] (.basic 0))) ∧ TypeSpec.wf .top good = true := ⟨rfl, rfl, rfl, rfl⟩

/-! ## non-vacuity -/
example : TypeSpec.wf .top (.union [.basic 0, .paren (.union [.basic 1, .opt (.basic 2)])]) = true := by decide
example : TypeParen.fmtT TypeParen.current (fun _ => false) [] TypeParen.Ctx.new
    (.union [.basic 0, .paren (.union [.basic 1, .opt (.basic 2)])]) = .union [.basic 0, .union [.basic 1, .opt (.basic 2)]] := rfl
example : faithful (bin .star (paren (bin .plus (atom 0) (call 1))) (paren (atom 2))) = true := by decide
example : fmtS repaired .std (bin .star (paren (bin .plus (atom 0) (call 1))) (paren (atom 2)))
    = bin .star (paren (bin .plus (atom 0) (call 1))) (atom 2) := by decide

/-! ## statements -/

/-- **same statements in the same order**: format_block emits exactly one result per statement of the block, in
the order written - whatever the range, the ignore directives and the semicolons - for blocks of any length
(require sorting, the one mechanism that reorders, is C12) -/
theorem C02_stmt_order (r : Option Block.Range) (b : List Block.Stmt) :
    (Block.fmtBlock Block.repaired r b).map (·.id) = b.map (·.id) :=
  BlockLemmas.ids_preserved Block.repaired r false true b

end StyluaModel.C02
