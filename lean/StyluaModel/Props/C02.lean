/-
C02 — Formatting never changes what the program means (the edit kinds that have a model).
Property theorems and non-vacuity examples only.
-/
import StyluaModel.Lemmas.Paren
import StyluaModel.Lemmas.StrLit
import StyluaModel.Lemmas.Parser

namespace StyluaModel.C02
open StyluaModel StyluaModel.ParenRule StyluaModel.Prec StyluaModel.ParenLemmas Expr

/-- **expressions**: on both layout paths and for every oracle the formatted tree is faithful
(so the parser reads back exactly this tree) and has the meaning of the input tree: same
operators, operands and grouping; `(f())` / `(...)` truncation kept. -/
theorem C02_expr (o : Oracle) (e : Expr) (hf : faithful e = true) :
    (faithful (fmtS repaired .std e) = true ∧ sem (fmtS repaired .std e) = sem e) ∧
    (faithful (fmtH repaired o .std e) = true ∧ sem (fmtH repaired o .std e) = sem e) :=
  ⟨⟨(fmtS_good e .std .top rfl hf rfl).1, (fmtS_good e .std .top rfl hf rfl).2.2.1⟩,
   ⟨((hang_good e).1 o .std .top rfl hf rfl).1, ((hang_good e).1 o .std .top rfl hf rfl).2.2.1⟩⟩

/-- **meaning through the parser**: what the parser reads from the printed output means what it
reads from the printed input (both layout paths, every oracle, enough fuel) -/
theorem C02_expr_parsed (o : Oracle) (e : Expr) (hf : faithful e = true) :
    ∃ n, ∀ f, n ≤ f →
      (Parser.parse f (Parser.print (fmtS repaired .std e))).map sem = (Parser.parse f (Parser.print e)).map sem ∧
      (Parser.parse f (Parser.print (fmtH repaired o .std e))).map sem = (Parser.parse f (Parser.print e)).map sem := by
  obtain ⟨⟨hs1, hs2⟩, ⟨hh1, hh2⟩⟩ := C02_expr o e hf
  obtain ⟨n0, h0⟩ := ParserLemmas.parse_print e hf
  obtain ⟨n1, h1⟩ := ParserLemmas.parse_print _ hs1
  obtain ⟨n2, h2⟩ := ParserLemmas.parse_print _ hh1
  refine ⟨max n0 (max n1 n2), fun f hle => ?_⟩
  rw [h0 f (by omega), h1 f (by omega), h2 f (by omega)]
  simp [hs2, hh2]

/-- the same at operand positions (what `format_expression_internal` is called with) -/
theorem C02_expr_at (o : Oracle) (ctx : Ctx) (p : Pos) (e : Expr) (hd : dropOK ctx p = true)
    (hf : faithful e = true) (hok : okAt p e = true) :
    sem (fmtS repaired ctx e) = sem e ∧ sem (fmtH repaired o ctx e) = sem e :=
  ⟨(fmtS_good e ctx p hd hf hok).2.2.1, ((hang_good e).1 o ctx p hd hf hok).2.2.1⟩

/-- single value of an expression (conditions, operands): truncation is a no-op there -/
def semSingle : Sem → Sem
  | .trunc s => s
  | s => s

/-- **condition parentheses** (`if (x) then`): removing them keeps the single value -/
theorem C02_cond (e : Expr) : semSingle (sem (stripCond e)) = semSingle (sem e) := by
  cases e with
  | paren x => simp only [stripCond, sem]; cases sem x <;> rfl
  | _ => rfl

/-- **string literals** denote the same bytes (Lua 5.1 reading; total) -/
theorem C02_string_51 (style : StrLit.QuoteStyle) (b : List Char) :
    StrVal.decode51 (StrLit.rewrite style b).2 = StrVal.decode51 b :=
  (StyluaModel.C04.scan_sim51 _ b).1

/-- … and the same bytes in the Lua 5.2+ / Luau reading whenever the input has one -/
theorem C02_string_52 (style : StrLit.QuoteStyle) (b : List Char) (v : List Nat)
    (h : StrVal.decode52 b = some v) : StrVal.decode52 (StrLit.rewrite style b).2 = some v :=
  StyluaModel.C04.scan_sim52 _ b .norm rfl v h

/-- **numbers**: only a `0` is put in front of a leading `.` -/
theorem C02_number (t : List Char) :
    StrLit.rewriteNumber t = t ∨ StrLit.rewriteNumber t = '0' :: t ∨
    (∃ r, t = '-' :: '.' :: r ∧ StrLit.rewriteNumber t = '-' :: '0' :: '.' :: r) := by
  unfold StrLit.rewriteNumber
  split
  · exact Or.inr (Or.inl rfl)
  · exact Or.inr (Or.inr ⟨_, rfl, rfl⟩)
  · exact Or.inl rfl

/-! ## non-vacuity -/
example : faithful (bin .star (paren (bin .plus (atom 0) (call 1))) (paren (atom 2))) = true := by decide
example : fmtS repaired .std (bin .star (paren (bin .plus (atom 0) (call 1))) (paren (atom 2)))
    = bin .star (paren (bin .plus (atom 0) (call 1))) (atom 2) := by decide

end StyluaModel.C02
