/-
C17 — stdin mode writes the formatted text to stdout and nothing else.
Property theorems (decision logic stated outright) and non-vacuity examples only.
-/
import StyluaModel.Lemmas.Ignore
import StyluaModel.Model.Stdin

namespace StyluaModel.C17
open StyluaModel.Stdin

/-- **exactly the library's output** for input that parses (not check mode, not skipped) -/
theorem C17_formatted (fmt : List Nat → Option (List Nat)) (o : Opts) (input out : List Nat)
    (hc : o.check = false) (hs : (o.respectIgnores && o.stdinPathIgnored) = false) (hf : fmt input = some out) :
    run fmt o input = { stdout := .text out, exit := 0, writes := [] } := by
  simp [run, hc, hs, hf]

/-- **nothing on stdout and exit status 2 on a parse error** -/
theorem C17_parse_error (fmt : List Nat → Option (List Nat)) (o : Opts) (input : List Nat)
    (hs : (o.respectIgnores && o.stdinPathIgnored) = false) (hf : fmt input = none) :
    run fmt o input = { stdout := .nothing, exit := 2, writes := [] } := by
  simp [run, hs, hf]

/-- **an ignored --stdin-filepath under --respect-ignores passes the input through unchanged**
(even input that does not parse) -/
theorem C17_passthrough (fmt : List Nat → Option (List Nat)) (o : Opts) (input : List Nat)
    (hc : o.check = false) (hr : o.respectIgnores = true) (hi : o.stdinPathIgnored = true) :
    run fmt o input = { stdout := .text input, exit := 0, writes := [] } := by
  simp [run, hc, hr, hi]

/-- without --respect-ignores the ignore file plays no role -/
theorem C17_ignore_needs_flag (fmt : List Nat → Option (List Nat)) (o : Opts) (input : List Nat)
    (hr : o.respectIgnores = false) :
    run fmt o input = run fmt { o with stdinPathIgnored := false } input := by
  simp [run, hr]

/-- **never writes to the file system** -/
theorem C17_no_writes (fmt : List Nat → Option (List Nat)) (o : Opts) (input : List Nat) :
    (run fmt o input).writes = [] := by
  simp only [run]
  split
  · rfl
  · split
    · split <;> rfl
    · rfl

/-- check mode on stdin: a diff iff the text differs, exit 1 / 0 -/
theorem C17_check (fmt : List Nat → Option (List Nat)) (o : Opts) (input out : List Nat)
    (hc : o.check = true) (hs : (o.respectIgnores && o.stdinPathIgnored) = false) (hf : fmt input = some out) :
    run fmt o input = if out = input then { stdout := .nothing, exit := 0, writes := [] }
                      else { stdout := .diff, exit := 1, writes := [] } := by
  simp [run, hc, hs, hf]

/-- **`--respect-ignores` never aborts**: whatever ignore files exist and wherever the path named by
`--stdin-filepath` (or on the command line) lies - inside the current directory or not - the
question "is it ignored?" has an answer (after fix 8e8142f) -/
theorem C17_ignore_total (w : Ignore.World) (cwd : Ignore.Path) (spd : Bool) (p : Ignore.Path) :
    Ignore.pathIsIgnored Ignore.repaired w cwd spd p ≠ .panic := by
  unfold Ignore.pathIsIgnored
  split
  · simp
  · split
    · split <;> simp
    · simp [Ignore.repaired]

/-- the code as pinned aborted (exit status 101) for a path outside the current directory when only
the current directory has an ignore file -/
theorem C17_ignore_pinned_panics :
    let w : Ignore.World := { ignoreDirs := [[1]], matched := fun _ _ => false }
    Ignore.pathIsIgnored Ignore.pinned w [1] false [2, 3] = .panic ∧
    Ignore.pathIsIgnored Ignore.repaired w [1] false [2, 3] = .notIgnored := by decide

/-- **which ignore file is consulted**: the one of the path's own directory; with
`--search-parent-directories` the nearest one on the way up; failing both, the current directory's -/
theorem C17_ignore_consulted (w : Ignore.World) (cwd dir x : Ignore.Path) (spd : Bool)
    (h : Ignore.getIgnore w cwd dir spd = some x) :
    x ∈ w.ignoreDirs ∧
    ((x <+: dir ∧ (spd = false → x = dir) ∧
        (spd = true → ∀ d' ∈ w.ignoreDirs, d' <+: dir → d'.length ≤ x.length)) ∨
     (x = cwd ∧ Ignore.findIgnore w spd dir.length dir = none)) := by
  unfold Ignore.getIgnore at h
  split at h
  · rename_i d hd
    cases h
    obtain ⟨h1, h2⟩ := IgnoreLemmas.findIgnore_sound w spd _ _ _ hd
    refine ⟨h1, Or.inl ⟨h2, ?_, ?_⟩⟩
    · intro hs; subst hs; exact IgnoreLemmas.findIgnore_own w _ _ _ hd
    · intro hs; subst hs; exact IgnoreLemmas.findIgnore_nearest w _ _ _ (Nat.le_refl _) hd
  · rename_i hn
    obtain ⟨h1, _⟩ := IgnoreLemmas.findIgnore_sound w false _ _ _ h
    exact ⟨h1, Or.inr ⟨IgnoreLemmas.findIgnore_own w _ _ _ h, hn⟩⟩

/-! ## non-vacuity -/
example : run (fun i => if i = [9] then none else some (i ++ [0])) { check := false, respectIgnores := true, stdinPathIgnored := false } [1, 2]
    = { stdout := .text [1, 2, 0], exit := 0, writes := [] } := by decide

end StyluaModel.C17
