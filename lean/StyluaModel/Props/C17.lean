/-
C17 — stdin mode writes the formatted text to stdout and nothing else.
Property theorems (decision logic stated outright) and non-vacuity examples only.
-/
import StyluaModel.Model.Stdin

namespace StyluaModel.C17
open StyluaModel.Stdin

/-- **exactly the library's output** for input that parses (not check mode, not skipped) -/
theorem C17_formatted (fmt : List Nat → Option (List Nat)) (o : Opts) (input out : List Nat)
    (hc : o.check = false) (hs : (o.respectIgnores && o.stdinPathIgnored) = false) (hf : fmt input = some out) :
    run fmt o input = { stdout := .text out, exit := 0, writes := [] } := by
  simp [run, hc, hs, hf]

/-- **nothing on stdout and exit status 2 on a parse error** -/
theorem C17_parse_error (fmt : List Nat → Option (List Nat)) (o : Opts) (input : List Nat)
    (hs : (o.respectIgnores && o.stdinPathIgnored) = false) (hf : fmt input = none) :
    run fmt o input = { stdout := .nothing, exit := 2, writes := [] } := by
  simp [run, hs, hf]

/-- **an ignored --stdin-filepath under --respect-ignores passes the input through unchanged**
(even input that does not parse) -/
theorem C17_passthrough (fmt : List Nat → Option (List Nat)) (o : Opts) (input : List Nat)
    (hc : o.check = false) (hr : o.respectIgnores = true) (hi : o.stdinPathIgnored = true) :
    run fmt o input = { stdout := .text input, exit := 0, writes := [] } := by
  simp [run, hc, hr, hi]

/-- without --respect-ignores the ignore file plays no role -/
theorem C17_ignore_needs_flag (fmt : List Nat → Option (List Nat)) (o : Opts) (input : List Nat)
    (hr : o.respectIgnores = false) :
    run fmt o input = run fmt { o with stdinPathIgnored := false } input := by
  simp [run, hr]

/-- **never writes to the file system** -/
theorem C17_no_writes (fmt : List Nat → Option (List Nat)) (o : Opts) (input : List Nat) :
    (run fmt o input).writes = [] := by
  simp only [run]
  split
  · rfl
  · split
    · split <;> rfl
    · rfl

/-- check mode on stdin: a diff iff the text differs, exit 1 / 0 -/
theorem C17_check (fmt : List Nat → Option (List Nat)) (o : Opts) (input out : List Nat)
    (hc : o.check = true) (hs : (o.respectIgnores && o.stdinPathIgnored) = false) (hf : fmt input = some out) :
    run fmt o input = if out = input then { stdout := .nothing, exit := 0, writes := [] }
                      else { stdout := .diff, exit := 1, writes := [] } := by
  simp [run, hc, hs, hf]

/-! ## non-vacuity -/
example : run (fun i => if i = [9] then none else some (i ++ [0])) { check := false, respectIgnores := true, stdinPathIgnored := false } [1, 2]
    = { stdout := .text [1, 2, 0], exit := 0, writes := [] } := by decide

end StyluaModel.C17
