/-
C08 — `-- stylua: ignore` regions are reproduced verbatim.
Property theorems and non-vacuity examples only; helper lemmas are in Lemmas/Block.lean.
The model is Model/Block.lean (`repaired` = the code after fix 3b97511; `pinned` = before).
-/
import StyluaModel.Lemmas.Block

namespace StyluaModel.C08
open StyluaModel.Block StyluaModel.BlockLemmas

/-- **which statements are skipped**: exactly those whose block has an open
`ignore start` (the last start/end line seen so far, through the statement's own leading
comments, is a start) or that carry `stylua: ignore` themselves — for every range. -/
theorem C08_region (r : Option Range) (b : List Stmt) :
    (fmtBlock repaired r b).map (fun o => isSkip o.decision) = specSkip [] b :=
  decisions_skip repaired r [] true b

/-- the flag starts cleared in every block (it cannot leak in from an enclosing or a
preceding block: `format_block` works on a copy of the context) and a single directive
always skips its statement -/
theorem C08_single (r : Option Range) (dis first : Bool) (s : Stmt) (rest : List Stmt)
    (h : s.lines.contains .ignore = true) :
    ((fmtStmts repaired r dis first (s :: rest)).head?.map (·.decision)) = some .skip := by
  simp only [fmtStmts, List.head?_cons, Option.map_some, outOf_decision]
  have := isSkip_decide1 (toggle dis s.lines) r s
  rw [h, Bool.or_true] at this
  cases hd : decide1 (toggle dis s.lines) r s <;> simp_all [isSkip]

/-- **verbatim**: a statement that is not formatted keeps its semicolon exactly as written
and does not lose leading blank lines (its own tokens are returned untouched by
`format_stmt`: `stmt.to_owned()`). -/
theorem C08_verbatim (r : Option Range) (b : List Stmt) :
    ∀ p ∈ List.zip b (fmtBlock repaired r b),
      p.2.decision ≠ .normal → p.2.semi = p.1.semi ∧ p.2.stripped = false :=
  unformatted_kept r false true b

/-- **everything else is still formatted**: same statements in the same order, and a
formatted statement gets a semicolon exactly when the next one starts with `(`. -/
theorem C08_others_formatted (r : Option Range) (b : List Stmt) :
    (fmtBlock repaired r b).map (·.id) = b.map (·.id) ∧
    ∀ p ∈ List.zip b (fmtBlock repaired r b), isSkip p.2.decision = false → p.2.decision ≠ .skip := by
  refine ⟨ids_preserved repaired r false true b, ?_⟩
  intro p _ h hs
  rw [hs] at h
  cases h

/-- the code before the repair dropped the semicolon of an ignored statement (D3) -/
theorem C08_pinned_violates :
    let s : Stmt := { id := 0, kind := .localAssignment, startsParen := false, semi := true,
                      lines := [.ignore], start := 18, stop := 35 }
    (fmtBlock pinned none [s]).map (fun o => (o.decision, o.semi)) = [(.skip, false)] ∧
    (fmtBlock repaired none [s]).map (fun o => (o.decision, o.semi)) = [(.skip, true)] := by
  decide

/-! ## non-vacuity -/
example :
    let a : Stmt := { id := 0, kind := .call, startsParen := false, semi := false, lines := [.other, .ignoreStart], start := 0, stop := 5 }
    let b : Stmt := { id := 1, kind := .other, startsParen := false, semi := true, lines := [], start := 6, stop := 9 }
    let c : Stmt := { id := 2, kind := .call, startsParen := true, semi := false, lines := [.ignoreEnd], start := 10, stop := 15 }
    (fmtBlock repaired none [a, b, c]).map (fun o => (o.decision, o.semi))
      = [(.skip, false), (.skip, true), (.normal, false)] := by decide

end StyluaModel.C08
