/-
C01 — Formatted output is always syntactically valid (the mechanisms that have a model).
Property theorems and non-vacuity examples only.

Decomposition (DESIGN.md §3/C01): the output re-parses if (i) the printed text re-lexes to
the token sequence the formatter holds and (ii) that sequence differs from the input's
only by grammar-preserving edits. The theorems here cover, for expressions of any size and
every layout oracle: the operator texts (regenerated from the compiled code on every run)
keep operands apart; no `--` is ever produced from two minus signs; every parenthesis
edit yields a tree that re-parses to itself.
-/
import StyluaModel.Generated.OpTables
import StyluaModel.Lemmas.Paren
import StyluaModel.Lemmas.StrLit
import StyluaModel.Lemmas.ParserMono
import StyluaModel.Lemmas.TypeParen
import StyluaModel.Model.Block
import StyluaModel.Generated.Decisions

namespace StyluaModel.C01
open StyluaModel StyluaModel.ParenRule StyluaModel.Prec StyluaModel.ParenLemmas StyluaModel.Generated Expr

/-- every binary operator is emitted with a space on both sides, so it can never glue to an
operand, to another operator, or form `--`, `..`+digit, `//`… with its neighbours -/
theorem C01_binops_spaced :
    ∀ nt ∈ binOpTexts, nt.2.head? = some ' ' ∧ nt.2.getLast? = some ' ' ∧ 3 ≤ nt.2.length := by
  decide

/-- the model's operator list and the generated table name the same 21 operators -/
theorem C01_binop_table_complete :
    binOpTexts.map (·.1) =
      ["caret", "percent", "slash", "star", "dslash", "minus", "plus", "concat", "shl", "shr", "band",
       "bxor", "bor", "gt", "ge", "lt", "le", "ne", "eq", "and", "or"] := by
  decide

/-- unary operators: the word operator `not` is followed by a space; the symbolic ones are a
single character and none of them is emitted with a trailing `-` -/
theorem C01_unops_shape :
    unOpTexts = [("m", ['-']), ("n", ['n', 'o', 't', ' ']), ("h", ['#']), ("t", ['~'])] := by
  decide

/-- **no `--` from two minus signs**, on both paths and for every layout oracle: the only
unspaced operator that can precede a `-` is the unary minus itself. -/
theorem C01_no_minus_minus (o : Oracle) (e : Expr) (hf : faithful e = true) :
    faithful (fmtS repaired .std e) = true ∧ faithful (fmtH repaired o .std e) = true :=
  ⟨(fmtS_good e .std .top rfl hf rfl).1, ((hang_good e).1 o .std .top rfl hf rfl).1⟩

/-- **edit closure for expressions**: whatever parentheses were dropped or added, the
result is a tree that prints and re-parses to itself (`faithful`), at every position it can
be placed in, on both paths, for every oracle. -/
theorem C01_expr_reparses (o : Oracle) (ctx : Ctx) (p : Pos) (e : Expr) (hd : dropOK ctx p = true)
    (hf : faithful e = true) (hok : okAt p e = true) :
    (faithful (fmtS repaired ctx e) = true ∧ okAt p (fmtS repaired ctx e) = true) ∧
    (faithful (fmtH repaired o ctx e) = true ∧ okAt p (fmtH repaired o ctx e) = true) :=
  ⟨⟨(fmtS_good e ctx p hd hf hok).1, (fmtS_good e ctx p hd hf hok).2.1⟩,
   ⟨((hang_good e).1 o ctx p hd hf hok).1, ((hang_good e).1 o ctx p hd hf hok).2.1⟩⟩

/-- **the parser reads the formatted expression back as exactly the formatted tree**: `faithful`
is not an assumption about parsing but a theorem about the token-level mirror of full_moon's
precedence-climbing parser (`Spec/Parser.lean`, compared with full_moon on every run): for every
input tree, position, layout oracle and both paths, parsing the printed output - with any
sufficiently large fuel - yields the output tree itself, all tokens consumed. -/
theorem C01_expr_parses_back (o : Oracle) (ctx : Ctx) (p : Pos) (e : Expr) (hd : dropOK ctx p = true)
    (hf : faithful e = true) (hok : okAt p e = true) :
    (∃ n, ∀ f, n ≤ f → Parser.parse f (Parser.print (fmtS repaired ctx e)) = some (fmtS repaired ctx e)) ∧
    (∃ n, ∀ f, n ≤ f → Parser.parse f (Parser.print (fmtH repaired o ctx e)) = some (fmtH repaired o ctx e)) :=
  ⟨ParserLemmas.parse_print _ (fmtS_good e ctx p hd hf hok).1,
   ParserLemmas.parse_print _ ((hang_good e).1 o ctx p hd hf hok).1⟩

/-- the hypothesis on the input is the same statement about the input: a tree that the parser
produced from its own printed form -/
theorem C01_faithful_parses (e : Expr) (hf : faithful e = true) :
    ∃ n, ∀ f, n ≤ f → Parser.parse f (Parser.print e) = some e :=
  ParserLemmas.parse_print e hf

/-- … and the executable parser (the one `modeld` runs against full_moon) never answers anything
else: with whatever fuel it returns a tree for the printed output, it is the output tree -/
theorem C01_parser_answers_right (ctx : Ctx) (p : Pos) (e e' : Expr) (hd : dropOK ctx p = true)
    (hf : faithful e = true) (hok : okAt p e = true) (f : Nat)
    (h : Parser.parse f (Parser.print (fmtS repaired ctx e)) = some e') : e' = fmtS repaired ctx e :=
  ParserLemmas.parse_print_any_fuel _ _ (fmtS_good e ctx p hd hf hok).1 f h

/-- **Luau types stay readable**: the type-parenthesis rule never leaves a compound type bare where
full_moon's type parser would read it differently or reject it (`(A | B)?`, `A & (B | C)`,
`(() -> A) | B`, …), at every depth, in every context, for every layout oracle -/
theorem C01_type_wellformed (o : List Nat → Bool) (p : List Nat) (c : TypeParen.Ctx) (pos : TypeSpec.Pos)
    (t : TypeParen.Ty) (hw : TypeSpec.wf pos t = true) (hc : TypeSpec.covers c pos = true) :
    TypeSpec.wf pos (TypeParen.fmtT TypeParen.current o p c t) = true :=
  (TypeLemmas.wf_fmtT o t pos p c hw hc).1

/-- **string tokens stay one token**: the rewritten body is accepted between the chosen
quotes by the tokenizer rule, in every dialect mode -/
theorem C01_string_token (style : StrLit.QuoteStyle) (q : Char) (b : List Char) (v52 zf : Bool)
    (h : StrVal.lexOK false false q b = true) :
    StrVal.lexOK v52 zf (StrLit.qchar (StrLit.rewrite style b).1) (StrLit.rewrite style b).2 = true :=
  StyluaModel.C04.lex_mono v52 zf _ _ false false (StyluaModel.C04.scan_lex51 _ q b h)

/-! ## non-vacuity -/
example : (" ^ ".toList, " .. ".toList) = ([' ', '^', ' '], [' ', '.', '.', ' ']) := by decide
example : faithful (un .minus (paren (un .minus (atom 0)))) = true := by decide
example : Parser.parse 20 (Parser.print (bin .plus (atom 0) (bin .star (atom 1) (atom 2)))) =
    some (bin .plus (atom 0) (bin .star (atom 1) (atom 2))) := by decide
/-- an unfaithful tree is *not* read back as itself: `(a + b) * c` printed without its parentheses -/
example : Parser.parse 20 (Parser.print (bin .star (bin .plus (atom 0) (atom 1)) (atom 2))) =
    some (bin .plus (atom 0) (bin .star (atom 1) (atom 2))) := by decide

/-! ## the semicolon that keeps `a = b ; (f)()` two statements -/

/-- name of a statement kind in the source (`full_moon::ast::Stmt`) -/
def kindNames : Block.Kind → List String
  | .assignment => ["Assignment"]
  | .localAssignment => ["LocalAssignment"]
  | .call => ["FunctionCall"]
  | .repeatB => ["Repeat"]
  | .other => []

/-- **a statement that can end in an expression keeps (or gets) a semicolon in front of a statement
that begins with `(`**, and the statement kinds for which the model says so are the ones
`check_stmt_requires_semicolon` lists in the source, as the translator reads them on every run
(removing `Stmt::Repeat(_)` from that match breaks this obligation) -/
theorem C01_semicolon_kinds (s n : Block.Stmt) :
    (Block.requiresSemi s (some n) = (n.startsParen && (kindNames s.kind).any Generated.semiStmtKinds.contains)) ∧
    Block.requiresSemi s none = false ∧
    Generated.semiNextKinds = ["FunctionCall", "Assignment", "CompoundAssignment"] := by
  refine ⟨?_, ?_, by decide⟩
  · cases hk : s.kind <;> simp [Block.requiresSemi, hk, kindNames, Generated.semiStmtKinds]
  · cases hk : s.kind <;> simp [Block.requiresSemi, hk]

end StyluaModel.C01
