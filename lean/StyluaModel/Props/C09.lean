/-
C09 — Range formatting touches only statements inside the range.
Property theorems and non-vacuity examples only; helper lemmas are in Lemmas/Block.lean.
-/
import StyluaModel.Lemmas.Block
import StyluaModel.Model.Eof

namespace StyluaModel.C09
open StyluaModel.Block StyluaModel.BlockLemmas

/-- **which statements are formatted**: a statement without directives, in a block without
an open ignore region, is formatted iff it lies wholly inside the range -/
theorem C09_decide (r : Option Range) (s : Stmt) (h : s.lines.contains .ignore = false) :
    (decide1 false r s = .normal ↔ inRange r s = true) ∧
    (decide1 false r s = .notInRange ↔ inRange r s = false) := by
  unfold decide1
  simp only [Bool.false_eq_true, if_false, h]
  cases inRange r s <;> simp

/-- `inRange` is the documented test: start and end byte both within the bounds given -/
theorem C09_inRange (a b : Nat) (s : Stmt) :
    inRange (some { start := some a, stop := some b }) s = true ↔ a ≤ s.start ∧ s.stop ≤ b := by
  simp [inRange]

/-- **statements not wholly inside keep their semicolon and blank lines** (their tokens are
returned untouched by `format_stmt`; only nested blocks are visited) -/
theorem C09_outside_verbatim (r : Option Range) (b : List Stmt) :
    ∀ p ∈ List.zip b (fmtBlock repaired r b),
      p.2.decision = .notInRange → p.2.semi = p.1.semi ∧ p.2.stripped = false := by
  intro p hp h
  exact unformatted_kept r false true b p hp (by rw [h]; simp)

/-- **statements wholly inside come out exactly as when the whole file is formatted**
(same semicolon decision, same blank-line stripping) -/
theorem C09_inside_same (r : Range) (b : List Stmt) :
    ∀ p ∈ List.zip (fmtBlock repaired (some r) b) (fmtBlock repaired none b),
      p.1.decision = .normal → p.1 = p.2 :=
  inside_same r false true b

/-- order and number of statements never change -/
theorem C09_order (r : Option Range) (b : List Stmt) :
    (fmtBlock repaired r b).map (·.id) = b.map (·.id) :=
  ids_preserved repaired r false true b

/-- the code before the repair: D4 (semicolon of an out-of-range statement dropped) and D19
(a formatted first statement keeps leading blank lines only under a range) -/
theorem C09_pinned_violates :
    let s1 : Stmt := { id := 0, kind := .localAssignment, startsParen := false, semi := true, lines := [], start := 0, stop := 16 }
    let s2 : Stmt := { id := 1, kind := .localAssignment, startsParen := false, semi := false, lines := [], start := 18, stop := 30 }
    let r : Range := { start := some 17, stop := none }
    (fmtBlock pinned (some r) [s1, s2]).map (fun o => (o.decision, o.semi)) = [(.notInRange, false), (.normal, false)] ∧
    (fmtBlock pinned (some r) [s2]).map (·.stripped) = [false] ∧
    (fmtBlock pinned none [s2]).map (·.stripped) = [true] ∧
    (fmtBlock repaired (some r) [s2]).map (·.stripped) = [true] := by
  decide

/-- **blank lines above a statement**: only the first statement of a block has its leading blank lines
removed, and only when it is itself formatted; every later statement - in particular the first
statement *of the range* - keeps (one of) them, as whole-file formatting would -/
theorem C09_only_first_stripped (r : Option Range) (d : Bool) (ss : List Stmt) :
    ∀ o ∈ fmtStmts repaired r d false ss, o.stripped = false := by
  induction ss generalizing d with
  | nil => intro o ho; simp [fmtStmts] at ho
  | cons s rest ih =>
    intro o ho
    simp only [fmtStmts, List.mem_cons] at ho
    rcases ho with h | h
    · subst h; simp [outOf, repaired]
    · exact ih _ o h

theorem C09_first_stripped_iff (r : Option Range) (s : Stmt) (rest : List Stmt) :
    ((fmtBlock repaired r (s :: rest)).head?.map (·.stripped)) = some (decide (decide1 (toggle false s.lines) r s = .normal)) := by
  simp [fmtBlock, fmtStmts, outOf, repaired]

/-- **the end of the file outside the range is left alone**: blank lines, indentation and comments
after the last statement come back untouched -/
theorem C09_eof_untouched (eol : List Char) (lead : List Trivia.Triv) : Eof.fmtEof eol false lead = none := rfl

/-! ## non-vacuity -/
example :
    let s1 : Stmt := { id := 0, kind := .call, startsParen := false, semi := true, lines := [], start := 0, stop := 10 }
    let s2 : Stmt := { id := 1, kind := .call, startsParen := false, semi := true, lines := [], start := 12, stop := 20 }
    (fmtBlock repaired (some { start := some 11, stop := some 25 }) [s1, s2]).map (fun o => (o.decision, o.semi))
      = [(.notInRange, true), (.normal, false)] := by decide

end StyluaModel.C09
