/-
C16 — Exactly the selected files are processed, each once (StyLua's glue around the walker).
Property theorems and non-vacuity examples only.
-/
import StyluaModel.Model.Select

namespace StyluaModel.C16
open StyluaModel.Select

/-- what "selected" means for a yielded entry: it is a file, and either was named explicitly
without --respect-ignores, or matches the globs (the default one when no --glob is given) and -
if explicit - is not excluded by `.styluaignore` -/
def Selected (o : Opts) (e : Entry) : Prop :=
  e.isFile = true ∧
    ((e.explicit = true ∧ o.respectIgnores = false) ∨
     ((o.globGiven = true ∨ e.luaName = true) ∧ (e.explicit = false ∨ e.styluaIgnored = false)))

theorem accepted_iff_selected (o : Opts) (e : Entry) : accepted o e = true ↔ Selected o e := by
  unfold accepted respects Selected
  cases e.isFile <;> cases e.explicit <;> cases o.respectIgnores <;> cases o.globGiven <;>
    cases e.luaName <;> cases e.styluaIgnored <;> simp

/-- **only selected entries are processed** (both generations of the code) -/
theorem C16_only_selected (v : Variant) (o : Opts) (seen : List Nat) (es : List Entry) :
    ∀ e ∈ process v o seen es, e ∈ es ∧ Selected o e := by
  induction es generalizing seen with
  | nil => intro e he; simp [process] at he
  | cons x rest ih =>
    intro e he
    have lift : ∀ s, e ∈ process v o s rest → e ∈ x :: rest ∧ Selected o e := fun s h =>
      ⟨List.mem_cons_of_mem _ (ih s e h).1, (ih s e h).2⟩
    simp only [process] at he
    split at he
    · split at he
      · rename_i hacc
        split at he
        · exact lift _ he
        · rcases List.mem_cons.mp he with h | h
          · subst h; exact ⟨by simp, (accepted_iff_selected o e).mp hacc⟩
          · exact lift _ h
      · exact lift _ he
    · split at he
      · exact lift _ he
      · split at he
        · rename_i hacc
          rcases List.mem_cons.mp he with h | h
          · subst h; exact ⟨by simp, (accepted_iff_selected o e).mp hacc⟩
          · exact lift _ h
        · exact lift _ he

/-- **every selected file is processed**: an entry the rules select has its file among the
processed ones (unless it had already been processed before this run of the loop) -/
theorem C16_all_selected (o : Opts) (es : List Entry) : ∀ seen, ∀ e ∈ es, Selected o e →
    e.file ∈ seen ∨ e.file ∈ (process repaired o seen es).map (·.file) := by
  induction es with
  | nil => intro seen e he; simp at he
  | cons x rest ih =>
    intro seen e he hsel
    simp only [process, repaired, if_true]
    rcases List.mem_cons.mp he with h | h
    · subst h
      rw [(accepted_iff_selected o e).mpr hsel]
      simp only [if_true]
      split
      · rename_i hc; left; simpa using hc
      · right; simp
    · split
      · split
        · exact ih seen e h hsel
        · rcases ih (x.file :: seen) e h hsel with h' | h'
          · rcases List.mem_cons.mp h' with h'' | h''
            · right; simp [h'']
            · left; exact h''
          · right; simp only [List.map_cons, List.mem_cons]; right; exact h'
      · exact ih seen e h hsel

/-- **a file named explicitly is formatted regardless** (unless --respect-ignores): it is
processed, whatever its name and whatever `.styluaignore` says -/
theorem C16_explicit (o : Opts) (seen : List Nat) (e : Entry) (es : List Entry) (hm : e ∈ es)
    (hf : e.isFile = true) (hx : e.explicit = true) (hr : o.respectIgnores = false)
    (hs : e.file ∉ seen) :
    e.file ∈ (process repaired o seen es).map (·.file) := by
  rcases C16_all_selected o es seen e hm ⟨hf, Or.inl ⟨hx, hr⟩⟩ with h | h
  · exact absurd h hs
  · exact h

/-- **each file is processed at most once**, however many arguments reach it and however its
path is spelled -/
theorem C16_once_per_file (o : Opts) (es : List Entry) : ∀ seen,
    ((process repaired o seen es).map (·.file)).Nodup ∧ ∀ e ∈ process repaired o seen es, e.file ∉ seen := by
  induction es with
  | nil => intro seen; simp [process]
  | cons x rest ih =>
    intro seen
    simp only [process, repaired, if_true]
    split
    · split
      · exact ih seen
      · rename_i hns
        have hns' : x.file ∉ seen := by simpa using hns
        obtain ⟨h1, h2⟩ := ih (x.file :: seen)
        refine ⟨?_, ?_⟩
        · simp only [List.map_cons, List.nodup_cons]
          refine ⟨?_, h1⟩
          intro hm
          obtain ⟨e, he, hes⟩ := List.mem_map.mp hm
          exact h2 e he (by simp [hes])
        · intro e he
          rcases List.mem_cons.mp he with h | h
          · subst h; exact hns'
          · intro hc; exact h2 e h (by simp [hc])
    · exact ih seen

/-- the code before fix 325a42a: the "once" was per spelling, not per file - the same file
reached as `./a.lua` (through `.`) and as `a.lua` (named) was processed twice (D16) -/
theorem C16_pinned_twice :
    let o : Opts := { globGiven := false, respectIgnores := false }
    let viaDir : Entry := { file := 7, spelling := 1, isFile := true, explicit := false, luaName := true, styluaIgnored := false }
    let named : Entry := { file := 7, spelling := 2, isFile := true, explicit := true, luaName := true, styluaIgnored := false }
    (process pinned o [] [viaDir, named]).map (·.file) = [7, 7] ∧
    (process repaired o [] [viaDir, named]).map (·.file) = [7] := by decide

/-- remembering *rejected* entries by file would be wrong: `stylua . c.txt` must still format
the explicitly named c.txt although `./c.txt` was rejected by the default glob first -/
theorem C16_rejected_does_not_shadow :
    let o : Opts := { globGiven := false, respectIgnores := false }
    let viaDir : Entry := { file := 3, spelling := 1, isFile := true, explicit := false, luaName := false, styluaIgnored := false }
    let named : Entry := { file := 3, spelling := 2, isFile := true, explicit := true, luaName := false, styluaIgnored := false }
    (process repaired o [] [viaDir, named]).map (·.spelling) = [2] := by decide

/-! ## non-vacuity -/
example :
    let o : Opts := { globGiven := false, respectIgnores := true }
    let e1 : Entry := { file := 1, spelling := 1, isFile := true, explicit := true, luaName := false, styluaIgnored := false }
    let e2 : Entry := { file := 2, spelling := 2, isFile := true, explicit := true, luaName := true, styluaIgnored := true }
    let e3 : Entry := { file := 3, spelling := 3, isFile := true, explicit := false, luaName := true, styluaIgnored := false }
    (process repaired o [] [e1, e2, e3, e3]).map (·.file) = [3] := by decide

end StyluaModel.C16
