/-
C07 — The formatter is total (the parts a model can carry: the inventory of panic-capable
sites, and the cost recurrences of nested inputs).
Property theorems and non-vacuity examples only.
-/
import StyluaModel.Generated.PanicSites
import StyluaModel.Model.PanicClass
import StyluaModel.Model.Cost
import StyluaModel.Model.ParenRule
import StyluaModel.Model.Block
import StyluaModel.Model.Trivia

namespace StyluaModel.C07
open StyluaModel

/-- **every panic-capable site is accounted for**: the sites found in the current source that
are neither `unknown node` catch-alls nor constant unwraps are exactly the classified ones
(same functions, same kinds, same multiplicities). A new `unwrap`, `panic!`, `assert!` … in
the library breaks this theorem. -/
theorem C07_sites_classified : Generated.manualSites = PanicClass.classified.map (·.1) := by rfl

/-- the sites whose guard is a property of their callers (run on the real code by ring 3) -/
theorem C07_open_sites : PanicClass.openSites.length = 7 := by decide

/-- **nested method chains cost exponentially many formatter entries** (known finding D20):
`chain d = (d-1)·2^d + 1` for d ≥ 1, hence at least 2^d -/
theorem C07_chain_closed (d : Nat) : Cost.chain (d + 1) = d * 2 ^ (d + 1) + 1 := by
  induction d with
  | zero => rfl
  | succ n ih =>
    rw [Cost.chain, ih]
    have h : 2 ^ (n + 1 + 1) = 2 * 2 ^ (n + 1) := by rw [Nat.pow_succ]; omega
    have hp : 0 < 2 ^ (n + 1) := Nat.pow_pos (by omega)
    rw [h]
    have : (n + 1) * (2 * 2 ^ (n + 1)) = 2 * (n * 2 ^ (n + 1)) + 2 * 2 ^ (n + 1) := by
      rw [Nat.add_mul, Nat.mul_left_comm]; omega
    omega

theorem C07_cost_exp (d : Nat) : 2 ^ d ≤ Cost.chain d + 1 := by
  cases d with
  | zero => decide
  | succ n =>
    rw [C07_chain_closed]
    cases n with
    | zero => decide
    | succ m =>
      have hp : 0 < 2 ^ (m + 1 + 1) := Nat.pow_pos (by omega)
      have : 2 ^ (m + 1 + 1) ≤ (m + 1) * 2 ^ (m + 1 + 1) := Nat.le_mul_of_pos_left _ (by omega)
      omega

/-- **plain nested calls stay polynomial**: d(d+1)/2 entries -/
theorem C07_poly_calls (d : Nat) : 2 * Cost.call d = d * (d + 1) := by
  induction d with
  | zero => rfl
  | succ n ih =>
    rw [Cost.call, Nat.mul_add, ih]
    have : (n + 1) * (n + 1 + 1) = n * (n + 1) + 2 * (n + 1) := by
      rw [Nat.mul_add, Nat.add_mul]; omega
    omega

/-- **the models are total functions**: the decision procedures mirrored from the code are
accepted by Lean without `partial` and without fuel (structural recursion on the syntax tree /
statement list / trivia list), e.g. they evaluate on arbitrary inputs -/
theorem C07_models_total :
    (∀ v ctx e, ∃ r, ParenRule.fmtS v ctx e = r) ∧ (∀ v o ctx e, ∃ r, ParenRule.fmtH v o ctx e = r) ∧
    (∀ v r b, ∃ o, Block.fmtBlock v r b = o) ∧ (∀ eol p t, ∃ o, Trivia.load eol p t = o) :=
  ⟨fun _ _ _ => ⟨_, rfl⟩, fun _ _ _ _ => ⟨_, rfl⟩, fun _ _ _ => ⟨_, rfl⟩, fun _ _ _ => ⟨_, rfl⟩⟩

/-! ## non-vacuity -/
example : Cost.chain 11 = 20481 ∧ Cost.call 11 = 66 := by decide

end StyluaModel.C07
