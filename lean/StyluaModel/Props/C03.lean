/-
C03 — No comment is lost, duplicated or altered (the mechanisms that have a model).
Property theorems and non-vacuity examples only; helper lemmas are in Lemmas/Trivia.lean.
-/
import StyluaModel.Lemmas.Trivia
import StyluaModel.Lemmas.SortReq
import StyluaModel.Lemmas.Eof

namespace StyluaModel.C03
open StyluaModel.Trivia StyluaModel.TriviaLemmas StyluaModel.StrLit

/-- **load_token_trivia** (every token's leading and trailing trivia goes through it): every
comment of the input list appears exactly once, in the same order, with the same kind and
long-bracket level, and its text only normalised by `fmtText`; no comment is created. -/
theorem C03_load (eol : List Char) (p : Pos) (t : List Triv) :
    commentsOut (load eol p t) = (commentsIn t).map (fun c => (c.1, fmtText eol c.1 c.2)) :=
  load_comments eol p t 0 false

/-- **line comments and the shebang**: only trailing whitespace may change -/
theorem C03_text_line (eol : List Char) (t : List Char) :
    trimEnd (fmtText eol .line t) = trimEnd t ∧ trimEnd (fmtText eol .shebang t) = trimEnd t :=
  ⟨trimEnd_idem t, trimEnd_idem t⟩

/-- **block comments**: only the newline convention may change — for text whose carriage
returns all belong to CRLF pairs, normalising CRLF to LF gives the same text before and after,
for both configurable line endings -/
theorem C03_text_block (lvl : Nat) (t : List Char) (h : noLoneCR t = true) :
    crlfToLf (fmtText ['\n'] (.block lvl) t) = crlfToLf t ∧
    crlfToLf (fmtText ['\r', '\n'] (.block lvl) t) = crlfToLf t := by
  have hn := noCR_crlfToLf t h
  constructor
  · simp only [fmtText, rewriteLong, lfToEol_lf]
    exact crlfToLf_noCR _ hn
  · simp only [fmtText, rewriteLong]
    exact crlf_roundtrip _ hn

/-- **parenthesis removal carries the comments it looks at**: what it re-attaches is a
sub-multiset of the comments around the parentheses, in order; and when nothing sits directly
after `(` or directly before `)`, nothing is lost -/
theorem C03_paren_partial (s : ParenSlots) :
    (dropParens s).Sublist (allComments s) ∧
    (s.openTrail = [] → s.closeLead = [] → dropParens s = allComments s) := by
  constructor
  · simp only [dropParens, allComments, List.append_assoc]
    apply List.Sublist.append (List.Sublist.refl _)
    apply List.Sublist.trans _ (List.sublist_append_right s.openTrail _)
    apply List.Sublist.append (List.Sublist.refl _)
    exact List.sublist_append_right _ _
  · intro h1 h2
    simp [dropParens, allComments, h1, h2]

/-- the full statement is false of the code: a comment directly after `(` is dropped (D5-D7,
recorded as known findings of the comment-slot enumeration) -/
theorem C03_paren_loses_inner_slots :
    let s : ParenSlots := { openLead := [], openTrail := [(.block 0, ['c'])], closeLead := [], closeTrail := [], inner := [] }
    dropParens s = [] ∧ allComments s = [(.block 0, ['c'])] := by decide

/-- require sorting keeps every statement (and with it its trivia) -/
theorem C03_sort_perm (v : SortReq.Variant) (enabled : Bool) (items : List SortReq.Item) :
    (SortReq.sortRequires v enabled items).Perm items := by
  unfold SortReq.sortRequires
  split
  · have := SortLemmas.sortParts_perm v false (SortReq.partition items)
    rwa [SortLemmas.partition_flat] at this
  · exact List.Perm.refl _

/-- **comments at the end of the file** all survive, in order, each with its formatted text -/
theorem C03_eof_comments (eol : List Char) (lead : List Triv) (o : List Out)
    (h : Eof.fmtEof eol true lead = some o) :
    commentsOut o = (commentsIn lead).map (fun c => (c.1, fmtText eol c.1 c.2)) := by
  simp only [Eof.fmtEof, Bool.not_true, Bool.false_eq_true, if_false, Option.some.injEq] at h
  rw [← C03_load eol .leading lead]
  split at h
  · rename_i hall
    rw [← h, EofLemmas.commentsOut_of_allWs _ hall]; rfl
  · rw [← h, EofLemmas.commentsOut_append, EofLemmas.commentsOut_popWs]; simp [commentsOut]

/-! ## non-vacuity -/
example : commentsOut (load ['\n'] .leading
    [.ws true, .ws true, .comment .line "a  ".toList, .ws true, .comment (.block 1) "b\r\nc".toList, .ws true])
    = [(.line, ['a']), (.block 1, "b\nc".toList)] := by decide
example : noLoneCR "x\r\ny\nz".toList = true := by decide

end StyluaModel.C03
