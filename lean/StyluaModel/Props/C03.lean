/-
C03 — No comment is lost, duplicated or altered (the mechanisms that have a model).
Property theorems and non-vacuity examples only; helper lemmas are in Lemmas/Trivia.lean.
-/
import StyluaModel.Lemmas.Trivia
import StyluaModel.Lemmas.SortReq
import StyluaModel.Lemmas.Eof
import StyluaModel.Lemmas.Semi
import StyluaModel.Lemmas.HangOp
import StyluaModel.Lemmas.EndToken

namespace StyluaModel.C03
open StyluaModel.Trivia StyluaModel.TriviaLemmas StyluaModel.StrLit

/-- **load_token_trivia** (every token's leading and trailing trivia goes through it): every
comment of the input list appears exactly once, in the same order, with the same kind and
long-bracket level, and its text only normalised by `fmtText`; no comment is created. -/
theorem C03_load (eol : List Char) (p : Pos) (t : List Triv) :
    commentsOut (load eol p t) = (commentsIn t).map (fun c => (c.1, fmtText eol c.1 c.2)) :=
  load_comments eol p t 0 false

/-- **line comments and the shebang**: only trailing whitespace may change -/
theorem C03_text_line (eol : List Char) (t : List Char) :
    trimEnd (fmtText eol .line t) = trimEnd t ∧ trimEnd (fmtText eol .shebang t) = trimEnd t :=
  ⟨trimEnd_idem t, trimEnd_idem t⟩

/-- **block comments**: only the newline convention may change — for text whose carriage
returns all belong to CRLF pairs, normalising CRLF to LF gives the same text before and after,
for both configurable line endings -/
theorem C03_text_block (lvl : Nat) (t : List Char) (h : noLoneCR t = true) :
    crlfToLf (fmtText ['\n'] (.block lvl) t) = crlfToLf t ∧
    crlfToLf (fmtText ['\r', '\n'] (.block lvl) t) = crlfToLf t := by
  have hn := noCR_crlfToLf t h
  constructor
  · simp only [fmtText, rewriteLong, lfToEol_lf]
    exact crlfToLf_noCR _ hn
  · simp only [fmtText, rewriteLong]
    exact crlf_roundtrip _ hn

/-- **parenthesis removal carries the comments it looks at**: what it re-attaches is a
sub-multiset of the comments around the parentheses, in order; and when nothing sits directly
after `(` or directly before `)`, nothing is lost -/
theorem C03_paren_partial (s : ParenSlots) :
    (dropParens s).Sublist (allComments s) ∧
    (s.openTrail = [] → s.closeLead = [] → dropParens s = allComments s) := by
  constructor
  · simp only [dropParens, allComments, List.append_assoc]
    apply List.Sublist.append (List.Sublist.refl _)
    apply List.Sublist.trans _ (List.sublist_append_right s.openTrail _)
    apply List.Sublist.append (List.Sublist.refl _)
    exact List.sublist_append_right _ _
  · intro h1 h2
    simp [dropParens, allComments, h1, h2]

/-- the full statement is false of the code: a comment directly after `(` is dropped (D5-D7,
recorded as known findings of the comment-slot enumeration) -/
theorem C03_paren_loses_inner_slots :
    let s : ParenSlots := { openLead := [], openTrail := [(.block 0, ['c'])], closeLead := [], closeTrail := [], inner := [] }
    dropParens s = [] ∧ allComments s = [(.block 0, ['c'])] := by decide

/-- require sorting keeps every statement (and with it its trivia) -/
theorem C03_sort_perm (v : SortReq.Variant) (enabled : Bool) (items : List SortReq.Item) :
    (SortReq.sortRequires v enabled items).Perm items := by
  unfold SortReq.sortRequires
  split
  · have := SortLemmas.sortParts_perm v false (SortReq.partition items)
    rwa [SortLemmas.partition_flat] at this
  · exact List.Perm.refl _

/-- **comments at the end of the file** all survive, in order, each with its formatted text -/
theorem C03_eof_comments (eol : List Char) (lead : List Triv) (o : List Out)
    (h : Eof.fmtEof eol true lead = some o) :
    commentsOut o = (commentsIn lead).map (fun c => (c.1, fmtText eol c.1 c.2)) := by
  simp only [Eof.fmtEof, Bool.not_true, Bool.false_eq_true, if_false, Option.some.injEq] at h
  rw [← C03_load eol .leading lead]
  split at h
  · rename_i hall
    rw [← h, EofLemmas.commentsOut_of_allWs _ hall]; rfl
  · rw [← h, EofLemmas.commentsOut_append, EofLemmas.commentsOut_popWs]; simp [commentsOut]

/-! ## no code ends up inside a comment: leading trivia -/

/-- **the leading trivia of every formatted token is line-safe**: load_token_trivia puts each leading comment on a
line of its own, so no line comment in front of a token can swallow that token - for trivia lists of any length. (The
known swallowing cases, D23, all come from *trailing* comments that a later step joins with what follows.) -/
theorem C03_leading_line_safe (eol : List Char) (t : List Triv) :
    Semi.lineSafe (load eol .leading t) = true :=
  LineSafe.load_leading_safe eol t

/-- ... and so is the leading trivia of a block's closing token after format_end_token has removed the blank lines:
`end` / `}` / `)` is never swallowed by a comment in front of it -/
theorem C03_end_token_line_safe (eol : List Char) (lead : List Triv) :
    Semi.lineSafe (EndToken.endLeading eol lead) = true :=
  LineSafe.endLeading_safe eol lead

/-- the comments moved in front of a table field's key cannot swallow the key (each gets a line of its own), and with
no comment *behind* a hung binary operator its rebuilt leading trivia cannot swallow the operator - the positive
counterparts of the swallowing witnesses below -/
theorem C03_moved_comments_line_safe (eol : List Char) (m s : Bool) (kl kt el et a b c : List Triv)
    (hb : Semi.rawComments b = []) :
    Semi.lineSafe (FieldKey.keyLeading eol m s kl kt el et) = true ∧ Semi.lineSafe (HangOp.hangBinop a b c).1 = true :=
  ⟨LineSafe.keyLeading_safe eol m s kl kt el et, LineSafe.hang_safe a b c hb⟩

/-! ## the semicolon: kept, added or removed (format_block) -/

open StyluaModel.Semi in
/-- **a semicolon that stays or is added**: the comments of its own leading and trailing trivia (through
load_token_trivia, so with normalised text) and those of the statement's trailing trivia, which is moved
behind it, all appear once and in order - for trivia lists of any length -/
theorem C03_semi_required (eol : List Char) (written : Bool) (T : List Out) (sl st : List Triv) :
    commentsOut (outs (fmtSemi eol true written T sl st)) =
      (if written then SemiLemmas.norm eol (commentsIn sl) ++ SemiLemmas.norm eol (commentsIn st) else []) ++ commentsOut T :=
  SemiLemmas.semi_required eol written T sl st

open StyluaModel.Semi in
/-- **a semicolon that is dropped**: given that the statement's trailing trivia ends with the newline the
statement formatters put there, every comment of the statement and of the semicolon survives, once, in order,
with its text untouched -/
theorem C03_semi_removed (eol : List Char) (T' : List Out) (sl st : List Triv) :
    commentsOut (outs (fmtSemi eol false true (T' ++ [Out.newline]) sl st)) =
      commentsOut T' ++ commentsIn sl ++ commentsIn st :=
  SemiLemmas.semi_removed eol T' sl st

open StyluaModel.Semi in
/-- the hypothesis is needed: the code drops the *last element* of the trailing trivia, whatever it is -/
theorem C03_semi_removed_needs_newline :
    commentsOut (outs (fmtSemi ['\n'] false true [Out.space, Out.comment (.block 0) ['a']] [] [])) = [] := by decide

open StyluaModel.Semi in
/-- ... and although no comment token is lost, the comments of a dropped semicolon are appended *behind* a
trailing line comment of the statement, on the same line: in the printed text they become part of that comment
(`local x = 1 -- a⏎; --[[b]]` comes out as `local x = 1 -- a --[[b]]`; reproduced on the binary, one of the
D23 family of known findings) -/
theorem C03_semi_swallow_witness :
    let out := outs (fmtSemi ['\n'] false true [Out.space, Out.comment .line ['a'], Out.newline] []
      [.ws false, .comment (.block 0) ['b'], .ws true])
    out = [Out.space, Out.comment .line ['a'], Out.space, Out.comment (.block 0) ['b'], Out.newline] ∧
    lineSafe out = false := by decide

/-! ## a binary operator pushed onto a new line (hang_binop) -/

open StyluaModel.HangOp in
/-- **hang_binop**: the comments in front of the operator, behind it, and in front of its right operand all end
up in the operator's new leading trivia - each once, in that order, text untouched; the new trailing trivia holds
none - for trivia lists of any length -/
theorem C03_hang_binop (opLead opTrail rhsLead : List Triv) :
    commentsOut (hangBinop opLead opTrail rhsLead).1 = commentsIn opLead ++ commentsIn opTrail ++ commentsIn rhsLead ∧
    commentsOut (hangBinop opLead opTrail rhsLead).2 = [] :=
  HangOpLemmas.hang_comments opLead opTrail rhsLead

open StyluaModel.HangOp StyluaModel.Semi in
/-- ... but the operator's trailing comments are appended on the line of its last leading comment: behind a
*line* comment they become part of it in the printed text (`a⏎-- x⏎+ -- y⏎b` comes out as `a⏎-- x -- y⏎+ b`;
reproduced on the binary; D23 family) -/
theorem C03_hang_binop_fuses_witness :
    let lead := (hangBinop [.comment .line ['x'], .ws true] [.ws false, .comment .line ['y']] []).1
    lead = [Out.newline, Out.indent, Out.comment .line ['x'], Out.space, Out.comment .line ['y'], Out.newline, Out.indent] ∧
    lineSafe lead = false := by decide

/-! ## a named table field: comments around the key and the equals sign -/

open StyluaModel.FieldKey in
/-- **handle_field_key_equals_comments, bracketed key** (`["k"] = v`): the comments in front of the key, behind it,
and on either side of `=` all end up in front of the key, once and in that order (those of the key with the text
format_token gives them, those of `=` untouched) - for trivia lists of any length; `=` itself is replaced by a
fresh token without trivia -/
theorem C03_field_key (eol : List Char) (multiline : Bool) (kl kt el et : List Triv) :
    commentsOut (keyLeading eol multiline false kl kt el et) =
      SemiLemmas.norm eol (commentsIn kl) ++ SemiLemmas.norm eol (commentsIn kt) ++ commentsIn el ++ commentsIn et := by
  simpa using FieldKeyLemmas.key_comments eol multiline false kl kt el et

open StyluaModel.FieldKey in
/-- **... name key** (`k = v`), the statement that holds of the code: everything except the comments *behind the
key* is carried over -/
theorem C03_field_key_name_partial (eol : List Char) (multiline : Bool) (kl kt el et : List Triv) :
    commentsOut (keyLeading eol multiline true kl kt el et) =
      SemiLemmas.norm eol (commentsIn kl) ++ commentsIn el ++ commentsIn et := by
  simpa using FieldKeyLemmas.key_comments eol multiline true kl kt el et

open StyluaModel.FieldKey in
/-- the full statement is false for a name key: `{ k --[[c]] = 1 }` loses `c` (D29, reproduced on the binary; the
mechanism - `Node::surrounding_trivia` on a one-token node - was found when the `fieldkey` correspondence
disagreed with the first version of this model) -/
theorem C03_field_key_name_loses_key_trailing :
    commentsOut (keyLeading ['\n'] true true [] [.ws false, .comment (.block 0) ['c'], .ws false] [] []) = [] := by
  decide

/-! ## the token that closes a block (format_end_token) -/

/-- **format_end_token** (`end`, `until`, a closing brace or parenthesis on its own line): every comment in front of
the closing token survives the removal of blank lines - once, in order, with the text format_token gives it - for
trivia lists of any length -/
theorem C03_end_token (eol : List Char) (lead : List Triv) :
    commentsOut (EndToken.endLeading eol lead) = (commentsIn lead).map (fun c => (c.1, fmtText eol c.1 c.2)) :=
  EndTokenLemmas.end_comments eol lead

/-! ## a value list laid out one value per line (format_punctuated_multiline) -/

open StyluaModel.Punct StyluaModel.Semi in
/-- **format_punctuated_multiline**: the comments in front of the comma stay in front of it, those behind the value
move behind the comma, in front of the comma's own trailing comments - each once; and the comments in front of a
later value get a line each (prepend_newline_indent) - for trivia lists of any length -/
theorem C03_punct_comma (eol : List Char) (vTrail vLead : List Out) (pl pt : List Triv) :
    commentsOut (outs (afterValue eol vTrail pl pt)) =
      SemiLemmas.norm eol (commentsIn pl) ++ commentsOut vTrail ++ SemiLemmas.norm eol (commentsIn pt) ∧
    commentsOut (prependNewlineIndent vLead) = commentsOut vLead :=
  ⟨PunctLemmas.after_comments eol vTrail pl pt, PunctLemmas.prepend_comments vLead⟩

/-! ## call sugar: parentheses dropped or added around a single string argument (format_function_args) -/

/-- **parentheses added** (`f "x"` → `f("x")`): the comments in front of and behind the argument are all kept, those
behind it moved behind the new `)` -/
theorem C03_sugar_add (eol : List Char) (al at' : List Triv) :
    commentsOut (Sugar.addParens eol al at').1 ++ commentsOut (Sugar.addParens eol al at').2 =
      SemiLemmas.norm eol (commentsIn al) ++ SemiLemmas.norm eol (commentsIn at') :=
  SugarLemmas.add_comments eol al at'

/-- **parentheses dropped** (`f("x")` → `f "x"`), the statement that holds of the code: the comments of the argument
itself and those behind `)` are kept ... -/
theorem C03_sugar_drop_partial (eol : List Char) (ol ot al at' cl ct : List Triv) :
    commentsOut (Sugar.dropParens eol ol ot al at' cl ct).1 ++ commentsOut (Sugar.dropParens eol ol ot al at' cl ct).2 =
      SemiLemmas.norm eol (commentsIn al) ++ SemiLemmas.norm eol (commentsIn at') ++ SemiLemmas.norm eol (commentsIn ct) :=
  SugarLemmas.drop_comments eol ol ot al at' cl ct

/-- ... and those in front of `(`, behind `(` and in front of `)` are not (`f( --[[c]] "x")` under
call_parentheses = None loses `c`: D5, reproduced on the binary, listed among the generated findings) -/
theorem C03_sugar_drop_loses_paren_comments :
    let c : List Triv := [.comment (.block 0) ['c']]
    commentsOut (Sugar.dropParens ['\n'] c c [] [] c []).1 ++ commentsOut (Sugar.dropParens ['\n'] c c [] [] c []).2 = [] := by
  decide

/-! ## behind the value of a multi-line table field (format_field / format_multiline_table) -/

open StyluaModel.TableField in
/-- **the comments behind a field's value**: block comments stay behind the value, the separator keeps its own
comments, line comments are moved behind the separator - every comment of the value and of the separator appears
once (in that order), whether the separator was written or is added - for trivia lists of any length -/
theorem C03_table_field (eol : List Char) (vt : List Triv) (sep : Option (List Triv × List Triv)) :
    commentsOut (Semi.outs (afterField eol vt sep)) =
      TableFieldLemmas.blocksOf vt ++ (match sep with
        | some (pl, pt) => SemiLemmas.norm eol (commentsIn pl) ++ SemiLemmas.norm eol (commentsIn pt)
        | none => []) ++ TableFieldLemmas.linesOf eol vt :=
  TableFieldLemmas.field_comments eol vt sep

/-! ## behind an argument of a multi-line argument list (format_contained_punctuated_multiline) -/

open StyluaModel.CallArg in
/-- **the comments behind a call argument**: block comments stay behind the argument, the comma's trailing and (moved
behind it) leading comments follow the comma, then the argument's line comments - every comment once, for lists of any
length, with or without a comma (last argument) -/
theorem C03_call_arg (eol : List Char) (aTrail : List Out) (sep : Option (List Triv × List Triv)) :
    commentsOut (Semi.outs (afterArg eol aTrail sep)) =
      (commentsOut aTrail).filter CallArgLemmas.isBlockC ++ (match sep with
        | some (pl, pt) => SemiLemmas.norm eol (commentsIn pt) ++ SemiLemmas.norm eol (commentsIn pl)
        | none => []) ++ (commentsOut aTrail).filter CallArgLemmas.isLineC :=
  CallArgLemmas.arg_comments eol aTrail sep

/-! ## non-vacuity -/
example : commentsOut (load ['\n'] .leading
    [.ws true, .ws true, .comment .line "a  ".toList, .ws true, .comment (.block 1) "b\r\nc".toList, .ws true])
    = [(.line, ['a']), (.block 1, "b\nc".toList)] := by decide
example : noLoneCR "x\r\ny\nz".toList = true := by decide

end StyluaModel.C03
