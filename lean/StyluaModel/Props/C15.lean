/-
C15 — Each file is formatted with the configuration the documented search finds.
Property theorems and non-vacuity examples only (model: Model/Config.lean).
-/
import StyluaModel.Model.Config

namespace StyluaModel.C15
open StyluaModel.Config

/-! ## the cache is transparent -/

def Coherent (w : World) (cache : Cache) : Prop := ∀ d r, cache.get d = some r → r = walk w d

theorem get_cons (cache : Cache) (k d : RDir) (v : Option Source) :
    Cache.get ((k, v) :: cache) d = if k == d then some v else cache.get d := by
  unfold Cache.get
  simp only [List.find?_cons]
  split <;> simp_all

theorem coherent_cons (w : World) (cache : Cache) (k : RDir) (v : Option Source)
    (h : Coherent w cache) (hv : v = walk w k) : Coherent w ((k, v) :: cache) := by
  intro d r hd
  rw [get_cons] at hd
  split at hd
  · rename_i hk
    have : k = d := by simpa using hk
    subst this
    simp at hd; subst hd; exact hv
  · exact h d r hd

/-- **memoisation changes nothing**: with a coherent cache, the cached search returns what the
uncached walk returns and leaves a coherent cache — so for any sequence of files, in any
order, each gets the configuration the walk from its own directory finds -/
theorem C15_memo (w : World) (d : RDir) : ∀ cache, Coherent w cache →
    (walkCached w cache d).1 = walk w d ∧ Coherent w (walkCached w cache d).2 := by
  induction d with
  | nil =>
    intro cache hc
    simp only [walkCached, walk]
    cases hg : cache.get [] with
    | some r => exact ⟨by simpa [walk] using hc [] r hg, hc⟩
    | none =>
      cases ht : w.toml [] with
      | some id => exact ⟨rfl, coherent_cons w cache [] _ hc (by simp [walk, ht])⟩
      | none =>
        cases hs : w.searchParents with
        | false => exact ⟨by simp, coherent_cons w cache [] _ hc (by simp [walk, ht, hs])⟩
        | true =>
          cases hu : w.userConfig with
          | some u => exact ⟨by simp, hc⟩
          | none => exact ⟨by simp, coherent_cons w cache [] _ hc (by simp [walk, ht, hs, hu])⟩
  | cons c rest ih =>
    intro cache hc
    simp only [walkCached, walk]
    cases hg : cache.get (c :: rest) with
    | some r => exact ⟨by simpa [walk] using hc (c :: rest) r hg, hc⟩
    | none =>
      cases ht : w.toml (norm (c :: rest)) with
      | some id => exact ⟨rfl, coherent_cons w cache _ _ hc (by simp [walk, ht])⟩
      | none =>
        simp only
        split
        · rename_i hstop
          exact ⟨rfl, coherent_cons w cache _ _ hc (by simp [walk, ht, hstop])⟩
        · rename_i hstop
          obtain ⟨h1, h2⟩ := ih cache hc
          have hw : walk w (c :: rest) = walk w rest := by simp [walk, ht, hstop]
          cases hr : (walkCached w cache rest).1 with
          | none =>
            simp only [hr] at h1 ⊢
            exact ⟨h1, coherent_cons w _ _ _ h2 (by rw [hw]; exact h1)⟩
          | some s =>
            cases s with
            | user u => simp only [hr] at h1 ⊢; exact ⟨h1, h2⟩
            | forced i => simp only [hr] at h1 ⊢; exact ⟨h1, coherent_cons w _ _ _ h2 (by rw [hw]; exact h1)⟩
            | toml i => simp only [hr] at h1 ⊢; exact ⟨h1, coherent_cons w _ _ _ h2 (by rw [hw]; exact h1)⟩
            | editorconfig i => simp only [hr] at h1 ⊢; exact ⟨h1, coherent_cons w _ _ _ h2 (by rw [hw]; exact h1)⟩
            | default => simp only [hr] at h1 ⊢; exact ⟨h1, coherent_cons w _ _ _ h2 (by rw [hw]; exact h1)⟩

theorem C15_empty_cache_coherent (w : World) : Coherent w [] := by
  intro d r h; simp [Cache.get] at h

/-! ## the walk is the documented search -/

def noDots (d : RDir) : Prop := ∀ c ∈ d, c ≠ ".." ∧ c ≠ "."

theorem norm_noDots (d : RDir) (h : noDots d) : norm d = d := by
  induction d with
  | nil => rfl
  | cons c rest ih =>
    have hc := h c (by simp)
    have hr : noDots rest := fun x hx => h x (by simp [hx])
    simp [norm, hc.1, hc.2, ih hr]

/-- **nearest config file walking up from the file's directory, stopping at the working
directory** (without --search-parent-directories, for a path written without `.` / `..`) -/
theorem C15_walk (w : World) (hs : w.searchParents = false) (d : RDir) (hd : noDots d) :
    walk w d = (nearest w d).map .toml := by
  unfold nearest
  induction d with
  | nil => simp [walk, nearest.go, hs]; cases w.toml [] <;> rfl
  | cons c rest ih =>
    have hr : noDots rest := fun x hx => hd x (by simp [hx])
    simp only [walk, nearest.go, norm_noDots _ hd, hs]
    cases w.toml (c :: rest) with
    | some id => rfl
    | none =>
      simp only [Bool.not_false, Bool.true_and]
      split
      · rfl
      · exact ih hr

/-- `--config-path` wins over everything -/
theorem C15_forced (w : World) (id : Nat) (h : w.forced = some id) (d : RDir) : resolve w d = .forced id := by
  simp [resolve, h]

/-- precedence below that: a found `stylua.toml` / `.stylua.toml` (or, with
--search-parent-directories, a user-level one) > `.editorconfig` (unless disabled) > defaults -/
theorem C15_precedence (w : World) (h : w.forced = none) (d : RDir) :
    (∀ s, walk w d = some s → resolve w d = s) ∧
    (walk w d = none → w.noEditorconfig = true → resolve w d = .default) ∧
    (walk w d = none → w.noEditorconfig = false → ∀ id, w.editorconfig d = some id → resolve w d = .editorconfig id) ∧
    (walk w d = none → w.editorconfig d = none → resolve w d = .default) := by
  refine ⟨?_, ?_, ?_, ?_⟩
  · intro s hw; simp [resolve, h, hw]
  · intro hw hn; simp [resolve, h, hw, hn]
  · intro hw hn id he; simp [resolve, h, hw, hn, he]
  · intro hw he; simp [resolve, h, hw, he]

/-- **command-line format options override whichever configuration was found** -/
theorem C15_overrides_last (c : Cfg) (o : Overrides) :
    (∀ v, o.columnWidth = some v → (loadOverrides c o).columnWidth = v) ∧
    (o.columnWidth = none → (loadOverrides c o).columnWidth = c.columnWidth) ∧
    (∀ v, o.indentWidth = some v → (loadOverrides c o).indentWidth = v) ∧
    (∀ v, o.indentType = some v → (loadOverrides c o).indentType = v) ∧
    (∀ v, o.quoteStyle = some v → (loadOverrides c o).quoteStyle = v) ∧
    (∀ v, o.callParentheses = some v → (loadOverrides c o).callParentheses = v) ∧
    (∀ v, o.lineEndings = some v → (loadOverrides c o).lineEndings = v) ∧
    (∀ v, o.syntaxV = some v → (loadOverrides c o).syntaxV = v) ∧
    (∀ v, o.spaceAfterFunctionNames = some v → (loadOverrides c o).spaceAfterFunctionNames = v) ∧
    (∀ v, o.collapseSimpleStatement = some v → (loadOverrides c o).collapseSimpleStatement = v) ∧
    (o.sortRequires = true → (loadOverrides c o).sortRequires = true) ∧
    (loadOverrides c {} = c) := by
  refine ⟨?_, ?_, ?_, ?_, ?_, ?_, ?_, ?_, ?_, ?_, ?_, ?_⟩ <;> intros <;> simp_all [loadOverrides]

/-- the lexical walk can pass through the working directory for a file that is *not* inside
it (`../x/f.lua`): the cwd configuration is applied although the documented rule does not
say so, while the absolute spelling of the same file does not get it (known finding D17) -/
theorem C15_lexical_walk_witness :
    let w : World := { toml := fun d => if d = ["cwd", "a"] then some 1 else none, cwd := ["cwd", "a"],
                       searchParents := false, userConfig := none, forced := none, noEditorconfig := true,
                       editorconfig := fun _ => none }
    resolve w ["x", "..", "cwd", "a"] = .toml 1 ∧ resolve w ["x", "a"] = .default := by
  decide

/-! ## non-vacuity -/
example :
    let w : World := { toml := fun d => if d = ["b", "cwd", "a"] then some 4 else if d = ["a"] then some 9 else none,
                       cwd := ["cwd", "a"], searchParents := false, userConfig := none, forced := none,
                       noEditorconfig := true, editorconfig := fun _ => none }
    resolve w ["c", "b", "cwd", "a"] = .toml 4 ∧ resolve w ["cwd", "a"] = .default ∧
    (walkCached w [] ["c", "b", "cwd", "a"]).1 = some (.toml 4) := by decide

end StyluaModel.C15
