/-
C18 — Diffs printed by `--check` reconstruct the formatted file: the JSON producer (StyLua's own
code, Model/Diff.lean) and the unified format (the grouping, hunk-header and hunk-body code of the
`similar` crate that `output_diff_unified` calls, Model/Unified.lean). The edit script itself
(Myers + compaction inside `similar`) is a parameter of both models.
Property theorems and non-vacuity examples only; helper lemmas are in Lemmas/Diff.lean.
-/
import StyluaModel.Lemmas.Diff
import StyluaModel.Lemmas.Unified

namespace StyluaModel.C18
open StyluaModel.Diff StyluaModel.DiffLemmas StyluaModel.Unified

/-- **the JSON mismatches, applied as line-range replacements, yield exactly the formatted
text** — for every valid edit script, over files of any length, in which every pure insertion
is one line long (`pinned` = the code as it is: an Insert records only its first line; a
multi-line pure insertion has never been observed between a file and its formatted form, where
new lines come with changed neighbours, i.e. as Replace) -/
theorem C18_json_partial (ops : List Op) (old new : List Nat) (h : Valid ops old new = true)
    (hi : insertsOK pinned ops = true) :
    apply 0 old (mismatches pinned 0 0 ops old new) = new :=
  DiffLemmas.main pinned ops 0 0 old new h hi

/-- the full statement, for a producer that records every inserted line -/
theorem C18_json (ops : List Op) (old new : List Nat) (h : Valid ops old new = true) :
    apply 0 old (mismatches repaired 0 0 ops old new) = new := by
  refine DiffLemmas.main repaired ops 0 0 old new h ?_
  clear h
  induction ops with
  | nil => rfl
  | cons op rest ih => cases op <;> simp [insertsOK, repaired, ih] <;> exact ih

/-- **… as the code computes them**: `output_diff_json` does not count lines itself, it copies the
`old_index` / `new_index` fields of `similar`'s operations. Whenever those fields are the running
positions the result is the one above. (`similar`'s compaction pass can leave an insertion that it
shifted across a run of *identical* lines with its former index - `tests/inputs/table-6.lua` is an
instance; the reported ranges then describe an equivalent script, and the reconstruction is
checked on the real pairs rather than proved.) -/
theorem C18_json_as_indexed (xs : List IOp) (old new : List Nat)
    (hs : InOrder 0 0 xs = true) (h : Valid (xs.map (·.op)) old new = true) :
    apply 0 old (mismatchesI repaired xs old new) = new := by
  rw [DiffLemmas.mismatchesI_seq repaired xs 0 0 old new hs]
  exact C18_json _ old new h

/-- **no mismatch is reported iff the file is already formatted** -/
theorem C18_none_iff (v : Variant) (ops : List Op) (old new : List Nat) (h : Valid ops old new = true) :
    (mismatches v 0 0 ops old new = [] → old = new) ∧
    (ops.all isEqualOp = true → mismatches v 0 0 ops old new = []) :=
  ⟨fun hm => equal_script_same ops old new h ((none_iff v ops 0 0 old new).mp hm),
   fun ha => (none_iff v ops 0 0 old new).mpr ha⟩

/-- reported line ranges are the script's ranges: a mismatch produced at old index `oi` for
a deletion / replacement of `n` lines covers `oi .. oi+n-1` -/
theorem C18_ranges (v : Variant) (oi ni n m : Nat) (rest : List Op) (old new : List Nat) :
    ((mismatches v oi ni (.replace n m :: rest) old new).head?.map fun x =>
        (x.originalStart, x.originalEnd, x.expectedStart, x.expectedEnd)) = some (oi, oi + n - 1, ni, ni + m - 1) ∧
    ((mismatches v oi ni (.delete n :: rest) old new).head?.map fun x => (x.originalStart, x.originalEnd)) = some (oi, oi + n - 1) ∧
    ((mismatches v oi ni (.insert n :: rest) old new).head?.map fun x => (x.expectedStart, x.expectedEnd)) = some (ni, ni + n - 1) := by
  simp [mismatches]

/-- the hypothesis of `C18_json_partial` is needed: the code records only the first line of a
multi-line pure insertion, from which the file cannot be reconstructed (latent defect D10) -/
theorem C18_pinned_violates :
    let old := [1, 5]
    let new := [1, 2, 3, 5]
    let ops := [Op.equal 1, .insert 2, .equal 1]
    Valid ops old new = true ∧ apply 0 old (mismatches pinned 0 0 ops old new) = [1, 2, 5] ∧
    apply 0 old (mismatches repaired 0 0 ops old new) = new := by decide


/-! ## the unified format -/

/-- **applying the printed unified diff to the file yields exactly the formatted text** - with a
*strict* applier (every context and deleted line must be present where the header says, all four
header numbers must agree with the hunk body and with the position of the output, no fuzz): for
every valid edit script whose index fields are the running positions, over files of any length,
and for every context radius (`similar` uses 3). This is the statement for `text_diff.unified_diff()` as the pinned code
called it; `C18_unified_fixed` below removes the hypothesis for the code as it is now. -/
theorem C18_unified (n : Nat) (xs : List IOp) (old new : List Nat)
    (hs : InOrder 0 0 xs = true) (hv : Valid (xs.map (·.op)) old new = true) :
    applyU 0 0 old (hunks n xs old new) = some new :=
  UnifiedLemmas.unified_main n xs old new hs hv

/-- **nothing is printed only if the file is already formatted**: `output_diff_unified` returns
`None` iff `ratio() == 1.0`; with exact arithmetic that is the case iff the script has no
Delete / Insert / Replace, and then the two files are equal (the `f32` rounding of the quotient -
exact below 2^24 lines - and the converse, which needs the script to be minimal, are not modelled) -/
theorem C18_unified_none (ops : List Op) (old new : List Nat) (h : Valid ops old new = true) :
    (ratioIsOne ops old.length new.length = true ↔ ops.all isEqualOp = true) ∧
    (ratioIsOne ops old.length new.length = true → old = new) :=
  ⟨UnifiedLemmas.ratio_iff ops old new h,
   fun hr => equal_script_same ops old new h ((UnifiedLemmas.ratio_iff ops old new h).mp hr)⟩

/-- **a diff is printed whenever the script has a change**: a script with a Delete, Insert or Replace yields at
least one hunk, and the rendered text starts with the `--- old` / `+++ new` header - together with `C18_unified_none`
and `C18_unified`: nothing printed iff nothing differs, and what is printed reconstructs the file -/
theorem C18_unified_printed (n : Nat) (xs : List IOp) (old new : List Nat) (text : Nat → String)
    (h : UnifiedLemmas.hasChange xs = true) :
    hunks n xs old new ≠ [] ∧ (render text (hunks n xs old new)).length ≠ 0 :=
  ⟨UnifiedLemmas.hunks_nonempty n xs old new h,
   UnifiedLemmas.render_nonempty text _ (UnifiedLemmas.hunks_nonempty n xs old new h)⟩

/-- the numbers of a hunk header (`UnifiedDiffHunkRange::fmt`: a length of 1 is omitted, an empty
range is written with the line *before* it) are read back by a patch tool as the range they came from -/
theorem C18_header_roundtrip (s e : Nat) (h : s ≤ e) : decodeRange (encodeRange s e) = (s, e - s) :=
  UnifiedLemmas.range_roundtrip s e h

/-- **... and for the code as it is now** (`renumber_ops`, fix a2545ec): no hypothesis on the index fields is left -
whatever `similar`'s compaction did to them, the printed hunks are accepted by the strict applier and reproduce the
formatted file, for every valid script -/
theorem C18_unified_fixed (n : Nat) (xs : List IOp) (old new : List Nat)
    (hv : Valid (xs.map (·.op)) old new = true) :
    applyU 0 0 old (hunksFixed n xs old new) = some new :=
  UnifiedLemmas.unified_fixed n xs old new hv

/-- the repair is conservative: where the index fields were right (218 of the 220 formattable repository inputs)
the renumbered script is the script, so the printed diff is byte for byte what it was -/
theorem C18_unified_fix_conservative (n : Nat) (xs : List IOp) (old new : List Nat) (h : InOrder 0 0 xs = true) :
    hunksFixed n xs old new = hunks n xs old new :=
  UnifiedLemmas.fixed_eq_pinned n xs old new h

/-- the code as pinned violated the property: on the script `similar` really produces for `tests/inputs/table-6.lua`
(found by the thorough tier of the `diffuni` correspondence, whose model-side applier rejected it; GNU `patch` calls
the printed diff malformed) the header is `-1,2` over a body with three old-side lines. Line ids: the inserted line
has the text of the line it was shifted across. -/
theorem C18_unified_pinned_violates :
    let old := [0, 1, 2]
    let new := [0, 2, 2]
    let xs : List IOp := [⟨.equal 1, 0, 0⟩, ⟨.delete 1, 1, 2⟩, ⟨.equal 1, 2, 1⟩, ⟨.insert 1, 2, 2⟩]
    Valid (xs.map (·.op)) old new = true ∧
    applyU 0 0 old (hunks 3 xs old new) = none ∧
    applyU 0 0 old (hunksFixed 3 xs old new) = some new := by decide

/-! ## non-vacuity -/
example : Valid [.equal 1, .replace 1 2, .delete 1, .equal 1, .insert 1] [1, 2, 3, 4] [1, 7, 8, 4, 9] = true ∧
    apply 0 [1, 2, 3, 4] (mismatches repaired 0 0 [.equal 1, .replace 1 2, .delete 1, .equal 1, .insert 1] [1, 2, 3, 4] [1, 7, 8, 4, 9])
      = [1, 7, 8, 4, 9] := by decide

/-- two hunks at radius 1: the gap between them is copied, both headers are accepted -/
example :
    let old := [1, 2, 3, 4, 5, 6, 7, 8]
    let new := [1, 20, 3, 4, 5, 6, 8]
    let xs : List IOp := [⟨.equal 1, 0, 0⟩, ⟨.replace 1 1, 1, 1⟩, ⟨.equal 4, 2, 2⟩, ⟨.delete 1, 6, 6⟩, ⟨.equal 1, 7, 6⟩]
    InOrder 0 0 xs = true ∧ Valid (xs.map (·.op)) old new = true ∧ (hunks 1 xs old new).length = 2 ∧
    applyU 0 0 old (hunks 1 xs old new) = some new := by decide

end StyluaModel.C18
