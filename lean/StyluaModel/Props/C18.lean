/-
C18 — Diffs printed by `--check` reconstruct the formatted file (the JSON producer, which is
StyLua's own code; the unified format is produced inside the `similar` crate and is only
applied, not modelled).
Property theorems and non-vacuity examples only; helper lemmas are in Lemmas/Diff.lean.
-/
import StyluaModel.Lemmas.Diff

namespace StyluaModel.C18
open StyluaModel.Diff StyluaModel.DiffLemmas

/-- **the JSON mismatches, applied as line-range replacements, yield exactly the formatted
text** — for every valid edit script, over files of any length, in which every pure insertion
is one line long (`pinned` = the code as it is: an Insert records only its first line; a
multi-line pure insertion has never been observed between a file and its formatted form, where
new lines come with changed neighbours, i.e. as Replace) -/
theorem C18_json_partial (ops : List Op) (old new : List Nat) (h : Valid ops old new = true)
    (hi : insertsOK pinned ops = true) :
    apply 0 old (mismatches pinned 0 0 ops old new) = new :=
  DiffLemmas.main pinned ops 0 0 old new h hi

/-- the full statement, for a producer that records every inserted line -/
theorem C18_json (ops : List Op) (old new : List Nat) (h : Valid ops old new = true) :
    apply 0 old (mismatches repaired 0 0 ops old new) = new := by
  refine DiffLemmas.main repaired ops 0 0 old new h ?_
  clear h
  induction ops with
  | nil => rfl
  | cons op rest ih => cases op <;> simp [insertsOK, repaired, ih] <;> exact ih

/-- **… as the code computes them**: `output_diff_json` does not count lines itself, it copies the
`old_index` / `new_index` fields of `similar`'s operations. Whenever those fields are the running
positions the result is the one above. (`similar`'s compaction pass can leave an insertion that it
shifted across a run of *identical* lines with its former index - `tests/inputs/table-6.lua` is an
instance; the reported ranges then describe an equivalent script, and the reconstruction is
checked on the real pairs rather than proved.) -/
theorem C18_json_as_indexed (xs : List IOp) (old new : List Nat)
    (hs : InOrder 0 0 xs = true) (h : Valid (xs.map (·.op)) old new = true) :
    apply 0 old (mismatchesI repaired xs old new) = new := by
  rw [DiffLemmas.mismatchesI_seq repaired xs 0 0 old new hs]
  exact C18_json _ old new h

/-- **no mismatch is reported iff the file is already formatted** -/
theorem C18_none_iff (v : Variant) (ops : List Op) (old new : List Nat) (h : Valid ops old new = true) :
    (mismatches v 0 0 ops old new = [] → old = new) ∧
    (ops.all isEqualOp = true → mismatches v 0 0 ops old new = []) :=
  ⟨fun hm => equal_script_same ops old new h ((none_iff v ops 0 0 old new).mp hm),
   fun ha => (none_iff v ops 0 0 old new).mpr ha⟩

/-- reported line ranges are the script's ranges: a mismatch produced at old index `oi` for
a deletion / replacement of `n` lines covers `oi .. oi+n-1` -/
theorem C18_ranges (v : Variant) (oi ni n m : Nat) (rest : List Op) (old new : List Nat) :
    ((mismatches v oi ni (.replace n m :: rest) old new).head?.map fun x =>
        (x.originalStart, x.originalEnd, x.expectedStart, x.expectedEnd)) = some (oi, oi + n - 1, ni, ni + m - 1) ∧
    ((mismatches v oi ni (.delete n :: rest) old new).head?.map fun x => (x.originalStart, x.originalEnd)) = some (oi, oi + n - 1) ∧
    ((mismatches v oi ni (.insert n :: rest) old new).head?.map fun x => (x.expectedStart, x.expectedEnd)) = some (ni, ni + n - 1) := by
  simp [mismatches]

/-- the hypothesis of `C18_json_partial` is needed: the code records only the first line of a
multi-line pure insertion, from which the file cannot be reconstructed (latent defect D10) -/
theorem C18_pinned_violates :
    let old := [1, 5]
    let new := [1, 2, 3, 5]
    let ops := [Op.equal 1, .insert 2, .equal 1]
    Valid ops old new = true ∧ apply 0 old (mismatches pinned 0 0 ops old new) = [1, 2, 5] ∧
    apply 0 old (mismatches repaired 0 0 ops old new) = new := by decide

/-! ## non-vacuity -/
example : Valid [.equal 1, .replace 1 2, .delete 1, .equal 1, .insert 1] [1, 2, 3, 4] [1, 7, 8, 4, 9] = true ∧
    apply 0 [1, 2, 3, 4] (mismatches repaired 0 0 [.equal 1, .replace 1 2, .delete 1, .equal 1, .insert 1] [1, 2, 3, 4] [1, 7, 8, 4, 9])
      = [1, 7, 8, 4, 9] := by decide

end StyluaModel.C18
