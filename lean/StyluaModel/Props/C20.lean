/-
C20 — An option means the same thing wherever it is written (the option tables of the four
carriers, re-extracted from the source on every run by tools/translate.py).
Property theorems (all by computation over the generated tables) and examples only.
-/
import StyluaModel.Generated.Options

namespace StyluaModel.C20
open StyluaModel.Generated

/-- **flag = library**: every command-line option enum has exactly the variants of the library
enum it converts into, in the same order (the conversion is by name) -/
theorem C20_cli_eq_lib : ∀ e ∈ cliEnums, libEnums.lookup e.1 = some e.2 := by decide

/-- … and every library option enum has a command-line mirror -/
theorem C20_lib_has_cli : ∀ e ∈ libEnums, (cliEnums.lookup e.1).isSome = true := by decide

/-- **every `Config` field can be overridden from the command line** (except the deprecated
`no_call_parentheses`, superseded by `call_parentheses`) -/
theorem C20_overrides_total : ∀ f ∈ configFields, f = "no_call_parentheses" ∨ f ∈ overrideFields := by decide

/-- the .editorconfig loader covers every field but `syntax` (and the deprecated one) -/
theorem C20_editorconfig_fields :
    ∀ f ∈ configFields, f = "no_call_parentheses" ∨ f = "syntax" ∨ f ∈ editorconfigFields := by decide

/-- **.editorconfig spellings are the lower-cased variant names** -/
theorem C20_ec_names : ∀ k ∈ ecChoices, ∀ p ∈ k.2, p.1.map Char.toLower = p.2 := by decide

/-- … and, where the key names a library enum, the variants are variants of that enum -/
theorem C20_ec_variants :
    (∀ p ∈ (ecChoices.lookup "call_parentheses").getD [], String.ofList p.1 ∈ (libEnums.lookup "CallParenType").getD []) ∧
    (∀ p ∈ (ecChoices.lookup "space_after_function_names").getD [], String.ofList p.1 ∈ (libEnums.lookup "SpaceAfterFunctionNames").getD []) ∧
    (∀ p ∈ (ecChoices.lookup "collapse_simple_statement").getD [], String.ofList p.1 ∈ (libEnums.lookup "CollapseSimpleStatement").getD []) := by
  decide

/-- **unknown keys are rejected**: the configuration structs deny unknown fields -/
theorem C20_deny_unknown : denyUnknownFields = true := by decide

/-! ## non-vacuity -/
example : cliEnums.length = 7 ∧ configFields.length = 11 ∧ ecChoices.length = 5 := by decide

end StyluaModel.C20
