/-
C06 — Formatting is idempotent (every mechanism that has a model; the layout engine's own
stability is not modelled — DESIGN.md §3/C06).
Property theorems and non-vacuity examples only.
-/
import StyluaModel.Lemmas.StrLit
import StyluaModel.Lemmas.Block
import StyluaModel.Lemmas.SortReq
import StyluaModel.Lemmas.Paren
import StyluaModel.Lemmas.Trivia
import StyluaModel.Lemmas.TriviaIdem
import StyluaModel.Lemmas.EndToken
import StyluaModel.Lemmas.ParenIdem
import StyluaModel.Model.Table

namespace StyluaModel.C06
open StyluaModel

/-- string literals: rewriting the rewritten literal changes neither the quote nor the body -/
theorem C06_strlit (style : StrLit.QuoteStyle) (b : List Char) :
    StrLit.rewrite style (StrLit.rewrite style b).2 = StrLit.rewrite style b :=
  C04.rewrite_idem style b

/-- numbers -/
theorem C06_number (t : List Char) : StrLit.rewriteNumber (StrLit.rewriteNumber t) = StrLit.rewriteNumber t := by
  match t with
  | '.' :: tail => rfl
  | '-' :: '.' :: rest => rfl
  | [] => rfl
  | c :: rest =>
    by_cases h1 : c = '.'
    · subst h1; rfl
    · by_cases h2 : c = '-'
      · subst h2
        cases rest with
        | nil => rfl
        | cons d r =>
          by_cases h3 : d = '.'
          · subst h3; rfl
          · have : StrLit.rewriteNumber ('-' :: d :: r) = '-' :: d :: r := by
              unfold StrLit.rewriteNumber
              split
              · rename_i heq; cases heq
              · rename_i heq; cases heq; exact absurd rfl h3
              · rfl
            rw [this, this]
      · have : StrLit.rewriteNumber (c :: rest) = c :: rest := by
          unfold StrLit.rewriteNumber
          split
          · rename_i heq; cases heq; exact absurd rfl h1
          · rename_i heq; cases heq; exact absurd rfl h2
          · rfl
        rw [this, this]

/-- semicolons: writing the decided semicolons back and formatting the block again decides the same -/
theorem C06_semicolon (r : Option Block.Range) (b : List Block.Stmt) :
    (Block.fmtBlock Block.repaired r (BlockLemmas.applySemis b (Block.fmtBlock Block.repaired r b))).map (·.semi)
      = (Block.fmtBlock Block.repaired r b).map (·.semi) :=
  BlockLemmas.semis_idempotent r false true b

/-- require groups: sorting a sorted group is the identity -/
theorem C06_sort (is : List SortReq.Item) :
    (is.mergeSort SortReq.keyLe).mergeSort SortReq.keyLe = is.mergeSort SortReq.keyLe :=
  List.mergeSort_of_pairwise (List.pairwise_mergeSort SortLemmas.keyLe_trans SortLemmas.keyLe_total is)

/-- comment text: trimming / newline conversion is stable -/
theorem C06_comment_text (t : List Char) (h : TriviaLemmas.noLoneCR t = true) :
    Trivia.fmtText ['\n'] .line (Trivia.fmtText ['\n'] .line t) = Trivia.fmtText ['\n'] .line t ∧
    Trivia.fmtText ['\n'] (.block 0) (Trivia.fmtText ['\n'] (.block 0) t) = Trivia.fmtText ['\n'] (.block 0) t := by
  refine ⟨TriviaLemmas.trimEnd_idem t, ?_⟩
  simp only [Trivia.fmtText, StrLit.rewriteLong, TriviaLemmas.lfToEol_lf]
  exact TriviaLemmas.crlfToLf_noCR _ (TriviaLemmas.noCR_crlfToLf t h)

/-- **leading trivia**: `load_token_trivia` applied to its own output (as the tokenizer reads it back: a line
ending is whitespace with a newline, indentation whitespace without one) returns that output - runs of blank
lines collapse to one and stay one, a comment's own line ending is not counted as a blank line the second time,
nothing accumulates; for trivia lists of any length whose comment texts are already normalised (which the
first pass ensures: `C06_comment_text`) -/
theorem C06_trivia (eol : List Char) (t : List Trivia.Triv) (h : TriviaIdem.FixTexts eol t) :
    Trivia.load eol .leading (TriviaIdem.relex (Trivia.load eol .leading t)) = Trivia.load eol .leading t :=
  TriviaIdem.load_idem eol t h

/-- **trailing trivia** likewise: the comments behind a token, with the single blank a block comment gets, come out
of a second pass unchanged -/
theorem C06_trivia_trailing (eol : List Char) (t : List Trivia.Triv) (h : TriviaIdem.FixTexts eol t) :
    Trivia.load eol .trailing (TriviaIdem.relex (Trivia.load eol .trailing t)) = Trivia.load eol .trailing t :=
  TriviaIdem.load_trailing_idem eol t h

/-- **the blank-line removal in front of a closing token is stable**: applied to its own result, the scan of
format_end_token removes nothing more (whatever the state of its `stop_removal` flag) -/
theorem C06_end_token_scan (stop : Bool) (l : List Trivia.Out) :
    EndToken.scan stop (EndToken.scan stop l) = EndToken.scan stop l :=
  EndTokenLemmas.scan_idem l stop

example : TriviaIdem.FixTexts ['\n'] [.ws true, .ws true, .ws true, .comment .line ['c'], .ws true, .ws true,
      .comment (.block 0) ['b'], .ws false] ∧
    Trivia.load ['\n'] .leading [.ws true, .ws true, .ws true, .comment .line ['c'], .ws true, .ws true,
      .comment (.block 0) ['b'], .ws false] =
      [.newline, .indent, .comment .line ['c'], .newline, .newline, .indent, .comment (.block 0) ['b'], .newline] := by
  refine ⟨?_, by decide⟩
  simp only [TriviaIdem.FixTexts]
  decide

/-- **tables: a multi-line table stays multi-line** (its `{` is followed by a newline), whatever the
width, the position and the size of its content -/
theorem C06_table_multi_stable (width col span : Nat) (expand : Bool) :
    Table.decide width col (Table.multiLineOutput span expand) = .multi := by
  simp [Table.decide, Table.multiLineOutput]

/-- **tables: a single-line table stays single-line provided formatting did not lengthen its
content** beyond what the first decision budgeted for (`span + additional` of the input) -/
theorem C06_table_single_stable (width col content : Nat) (t : Table.TableIn)
    (h1 : Table.decide width col t = .single) (hgrow : content + 2 ≤ t.span + Table.additional t) :
    Table.decide width col (Table.singleLineOutput content) = .single := by
  unfold Table.decide at h1 ⊢
  simp only [Table.singleLineOutput, Table.additional]
  split at h1
  · split at h1 <;> cases h1
  · split at h1
    · cases h1
    · split at h1
      · cases h1
      · rename_i hfit
        have : ¬ (col + (content + 2) + 0 + 1 > width) := by omega
        simp [this]

/-- **… and the proviso is needed: the decision is taken on the input's width, the output's may be
larger** - `local x = { a,b,c,d,e,f,g,h,i,j }` at width 34 (known finding, D14): 21 bytes
between the braces fit (10 + 21 + 0 + 1 = 32), the formatted content is 28 + 2 and does not -/
theorem C06_table_growth_witness :
    let input : Table.TableIn := { hasFields := true, nlAfterOpen := false, span := 21, wsAfterOpen := true, wsBeforeClose := true, expand := false }
    Table.decide 34 10 input = .single ∧ Table.decide 34 10 (Table.singleLineOutput 28) = .multi := by decide

/-- **the parenthesis rule is idempotent** on every expression without a `- -` pair, in every
context: formatting the formatted tree again drops and adds nothing. (All sizes; the single-line
path, which is also what the second pass runs on an output that fitted.) -/
theorem C06_paren_idem (ctx : ParenRule.Ctx) (e : Expr) (h : ParenIdem.noMM e = true) :
    ParenRule.fmtS ParenRule.repaired ctx (ParenRule.fmtS ParenRule.repaired ctx e)
      = ParenRule.fmtS ParenRule.repaired ctx e :=
  ParenIdem.fmtS_idem e h ctx

/-- in particular on every tree that is read back as itself from its own tight printing -/
theorem C06_paren_idem_faithful (ctx : ParenRule.Ctx) (e : Expr) (h : Prec.faithful e = true) :
    ParenRule.fmtS ParenRule.repaired ctx (ParenRule.fmtS ParenRule.repaired ctx e)
      = ParenRule.fmtS ParenRule.repaired ctx e :=
  ParenIdem.fmtS_idem e (ParenIdem.noMM_of_faithful e h) ctx

/-- **the hypothesis is needed: with a source `- -` pair parentheses are NOT idempotent** — found by evaluating the model, confirmed on
the real code: `(- -f())` → `(-(-f()))` → `-((-f()))`. The first pass keeps the outer pair
(its content hides a call), adds the `- -` guard pair inside; the second pass then sees
"parentheses inside parentheses" and drops the outer pair. (Known finding D32.) -/
theorem C06_paren_not_idempotent :
    let e := Expr.paren (.un .minus (.un .minus (.call 0)))
    let e1 := ParenRule.fmtS ParenRule.repaired .std e
    e1 = .paren (.un .minus (.paren (.un .minus (.call 0)))) ∧
    ParenRule.fmtS ParenRule.repaired .std e1 = .un .minus (.paren (.paren (.un .minus (.call 0)))) ∧
    ParenRule.fmtS ParenRule.repaired .std (ParenRule.fmtS ParenRule.repaired .std e1)
      = ParenRule.fmtS ParenRule.repaired .std e1 := by decide

/-- on expressions without parentheses the single-line rule changes nothing unless a `- -`
guard is needed; in particular it is the identity on atoms and binary trees of atoms -/
theorem C06_paren_free_example :
    let e := Expr.bin .plus (.atom 0) (.bin .caret (.atom 1) (.un .minus (.atom 2)))
    ParenRule.fmtS ParenRule.repaired .std e = e := by decide

end StyluaModel.C06
