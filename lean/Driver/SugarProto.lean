import StyluaModel.Model.HangOp
import Driver.SemiProto
/- `sugar drop <lf|crlf> <argument text hex> <openLead> <openTrail> <argLead> <argTrail> <closeLead> <closeTrail>` /
   `sugar add <lf|crlf> <argument text hex> <argLead> <argTrail>`: hex of what is printed between the callee and the end of the call,
   the argument token written as `"x"` -/
namespace Driver.SugarProto
open StyluaModel.Trivia StyluaModel.Sugar Driver.TriviaProto Driver.SemiProto

def rr (e : List Char) (l : List Out) : List Char := l.flatMap (renderOut e)

def handleDrop (eol arg a b c d f g : String) : String :=
  let e := if eol == "crlf" then ['\r', '\n'] else ['\n']
  match items parseItem a, items parseItem b, items parseItem c, items parseItem d, items parseItem f, items parseItem g, Driver.stringOfHex arg with
  | some A, some B, some C, some D, some F, some G, some argText =>
      let (lead, trail) := dropParens e A B C D F G
      Driver.hexOfChars (rr e lead ++ argText.toList ++ rr e trail)
  | _, _, _, _, _, _, _ => "bad-op"

def handleAdd (eol arg c d : String) : String :=
  let e := if eol == "crlf" then ['\r', '\n'] else ['\n']
  match items parseItem c, items parseItem d, Driver.stringOfHex arg with
  | some C, some D, some argText =>
      let (lead, trail) := addParens e C D
      Driver.hexOfChars (['('] ++ rr e lead ++ argText.toList ++ [')'] ++ rr e trail)
  | _, _, _ => "bad-op"

end Driver.SugarProto
