import StyluaModel.Model.HangOp
import Driver.SemiProto
/- `tablefield <lf|crlf> <field indent hex> <value trailing items> <sep 0|1> <sep leading> <sep trailing>`
   answer: hex of what a multi-line table prints between a field's (simple) value and the next line -/
namespace Driver.TableFieldProto
open StyluaModel.Trivia StyluaModel.TableField Driver.TriviaProto Driver.SemiProto

def handle (eol ind vt hasSep pl pt : String) : String :=
  let e := if eol == "crlf" then ['\r', '\n'] else ['\n']
  match items parseItem vt, items parseItem pl, items parseItem pt, Driver.stringOfHex ind with
  | some VT, some PL, some PT, some indent =>
      let out := afterField e VT (if hasSep == "1" then some (PL, PT) else none)
      Driver.hexOfChars (out.flatMap fun
        | none => [',']
        | some .indent => indent.toList
        | some o => renderOut e o)
  | _, _, _, _ => "bad-op"

end Driver.TableFieldProto
