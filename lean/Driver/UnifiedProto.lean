import StyluaModel.Model.Unified
import Driver.DiffProto
import Driver.Util
/- `diffuni <ops with indices> <old ids> <new ids> <hex texts by id, comma separated>`
   answer: `<hex of the rendered unified diff> <ok|rejected>` - the bytes `similar` must have printed for this
   script, and whether the strict applier (`applyU`) accepts the hunks and reproduces the new file -/
namespace Driver.UnifiedProto
open StyluaModel.Diff StyluaModel.Unified Driver.DiffProto

def handle (ops old new texts : String) : String :=
  let osI := if ops == "-" then [] else (ops.splitOn ",").map parseIOp
  if osI.any (·.isNone) then "bad-op" else
  let xs := osI.filterMap id
  let tx : Array String := ((texts.splitOn ",").map fun h => (Driver.stringOfHex h).getD "?").toArray
  let text := fun (i : Nat) => tx.getD i "?"
  let o := ids old
  let n := ids new
  let hs := hunksFixed 3 xs o n
  let applied := if applyU 0 0 o hs == some n then "ok" else "rejected"
  Driver.hexOfString (render text hs) ++ " " ++ applied

end Driver.UnifiedProto
