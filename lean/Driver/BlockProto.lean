import StyluaModel.Model.Block
/- `block <variant> <rs|-> <re|-> <stmt,stmt,...>` with stmt = id:kind:startsParen:semi:lines:start:stop[:blank]
   answer: per statement `V|F` (verbatim / formatted), the semicolon bit and - where the input has blank lines
   directly above the statement (`blank` = 1) - whether they were removed (`s`) or kept (`k`); `-` otherwise -/
namespace Driver.BlockProto
open StyluaModel.Block

def kindOf : String → Option Kind
  | "assignment" => some .assignment
  | "localAssignment" => some .localAssignment
  | "call" => some .call
  | "repeatB" => some .repeatB
  | "other" => some .other
  | _ => none

def lineOf : String → Line
  | "ignore" => .ignore
  | "ignoreStart" => .ignoreStart
  | "ignoreEnd" => .ignoreEnd
  | _ => .other

def parseStmt (s : String) : Option Stmt :=
  match (s.splitOn ":").take 7 with
  | [id, k, sp, semi, ls, a, b] => do
      let id ← id.toNat?
      let k ← kindOf k
      let a ← a.toNat?
      let b ← b.toNat?
      let lines := if ls == "-" then [] else (ls.splitOn "+").map lineOf
      some { id := id, kind := k, startsParen := sp == "1", semi := semi == "1", lines := lines, start := a, stop := b }
  | _ => none

def parseAll (ss : List String) : Option (List Stmt) :=
  ss.foldr (fun s acc => match parseStmt s, acc with
    | some x, some xs => some (x :: xs)
    | _, _ => none) (some [])

def optNat (s : String) : Option (Option Nat) :=
  if s == "-" then some none else s.toNat?.map some

def handle (v rs re body : String) : String :=
  match parseAll (body.splitOn ","), optNat rs, optNat re with
  | some stmts, some a, some b =>
      let variant := if v == "pinned" then pinned else repaired
      let range : Option Range := if a.isNone && b.isNone then none else some { start := a, stop := b }
      let outs := fmtBlock variant range stmts
      let blanks := (body.splitOn ",").map fun st => (st.splitOn ":").getD 7 "0" == "1"
      ",".intercalate ((outs.zip blanks).map fun (o, bl) =>
        (if o.decision == .normal then "F" else "V") ++ (if o.semi then "1" else "0") ++
        (if bl then (if o.stripped then "s" else "k") else "-"))
  | _, _, _ => "bad-op"

end Driver.BlockProto
