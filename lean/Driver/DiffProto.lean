import StyluaModel.Model.Diff
/- `diffjson <variant> <ops> <old ids> <new ids>`: ops E<n> D<n> I<n> R<n>.<m>, comma separated
   answer: mismatches `os-oe:es-ee:orig:exp` joined by `;` (ids joined by `.`), or `-` -/
namespace Driver.DiffProto
open StyluaModel.Diff

def parseOp (s : String) : Option Op :=
  match s.toList with
  | 'E' :: r => (String.ofList r).toNat?.map .equal
  | 'D' :: r => (String.ofList r).toNat?.map .delete
  | 'I' :: r => (String.ofList r).toNat?.map .insert
  | 'R' :: r =>
      match (String.ofList r).splitOn "." with
      | [a, b] => do some (.replace (← a.toNat?) (← b.toNat?))
      | _ => none
  | _ => none

/-- `E1@0:0`: the operation with similar's old_index / new_index -/
def parseIOp (s : String) : Option IOp :=
  match s.splitOn "@" with
  | [o, idx] =>
      match idx.splitOn ":" with
      | [a, b] => do some { op := (← parseOp o), oi := (← a.toNat?), ni := (← b.toNat?) }
      | _ => none
  | _ => none

def ids (s : String) : List Nat := if s == "-" then [] else (s.splitOn ",").filterMap (·.toNat?)

def showIds (l : List Nat) : String := if l.isEmpty then "-" else ".".intercalate (l.map toString)

def handle (v ops old new : String) : String :=
  let variant := if v == "pinned" then pinned else repaired
  let indexed := ops.contains '@'
  let osI := if ops == "-" || !indexed then [] else (ops.splitOn ",").map parseIOp
  let os := if ops == "-" || indexed then [] else (ops.splitOn ",").map parseOp
  if os.any (·.isNone) || osI.any (·.isNone) then "bad-op" else
  let ms := if indexed then mismatchesI variant (osI.filterMap id) (ids old) (ids new)
            else mismatches variant 0 0 (os.filterMap id) (ids old) (ids new)
  if ms.isEmpty then "-" else
  ";".intercalate (ms.map fun m =>
    s!"{m.originalStart}-{m.originalEnd}:{m.expectedStart}-{m.expectedEnd}:{showIds m.original}:{showIds m.expected}")

end Driver.DiffProto
