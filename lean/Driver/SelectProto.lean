import StyluaModel.Model.Select
/- `select <globGiven 0|1> <respect 0|1> <entry,entry,...>` entry = file:spelling:isFile:explicit:lua:ignored
   answer: processed file ids in order, comma separated (or `-`) -/
namespace Driver.SelectProto
open StyluaModel.Select

def parseEntry (s : String) : Option Entry :=
  match s.splitOn ":" with
  | [f, sp, isf, ex, lua, ig] => do
      some { file := (← f.toNat?), spelling := (← sp.toNat?), isFile := isf == "1", explicit := ex == "1", luaName := lua == "1", styluaIgnored := ig == "1" }
  | _ => none

def handle (g r body : String) : String :=
  let es := if body == "-" then [] else (body.splitOn ",").map parseEntry
  if es.any (·.isNone) then "bad-op" else
  let out := process repaired { globGiven := g == "1", respectIgnores := r == "1" } [] (es.filterMap id)
  if out.isEmpty then "-" else ",".intercalate (out.map fun e => toString e.file)

end Driver.SelectProto
