import StyluaModel.Model.Ignore
/- `ignore <variant> <cwd> <spd 0|1> <path> <dirs with an ignore file> <dirs whose file matches the path>`
   paths: components joined by `.` (`-` = the root), lists joined by `,` (`-` = empty) -/
namespace Driver.IgnoreProto
open StyluaModel.Ignore

def parsePath (s : String) : Option Path :=
  if s == "-" then some [] else (s.splitOn ".").mapM String.toNat?

def parseList (s : String) : Option (List Path) :=
  if s == "-" then some [] else (s.splitOn ",").mapM parsePath

def handle (v cwd spd p dirs ms : String) : String :=
  match parsePath cwd, parsePath p, parseList dirs, parseList ms with
  | some cwd, some p, some dirs, some ms =>
      let w : World := { ignoreDirs := dirs, matched := fun d _ => ms.contains d }
      let var := if v == "pinned" then pinned else repaired
      match pathIsIgnored var w cwd (spd == "1") p with
      | .ignored => "ignored" | .notIgnored => "notIgnored" | .panic => "panic"
  | _, _, _, _ => "bad-op"

end Driver.IgnoreProto
