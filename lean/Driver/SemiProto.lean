import StyluaModel.Model.Semi
import Driver.TriviaProto
import Driver.Util
/- `semi <lf|crlf> <required 0|1> <written 0|1> <T items> <SL items> <ST items>`
   T: output trivia of the statement (n | s | i | L<hex> | B<level>.<hex>), SL / ST: the semicolon's input trivia
   (w0 | w1 | L | B). Answer: hex of what is printed between the statement's last token and the next statement. -/
namespace Driver.SemiProto
open StyluaModel.Trivia StyluaModel.Semi Driver.TriviaProto

def parseOut (s : String) : Option Out :=
  match s with
  | "n" => some .newline
  | "s" => some .space
  | "i" => some .indent
  | _ =>
    match parseItem s with
    | some (.comment k t) => some (.comment k t)
    | _ => none

def items {α} (f : String → Option α) (s : String) : Option (List α) :=
  if s == "-" then some [] else (s.splitOn ";").mapM f

def handle (eol req wr t sl st : String) : String :=
  let e := if eol == "crlf" then ['\r', '\n'] else ['\n']
  match items parseOut t, items parseItem sl, items parseItem st with
  | some T, some SL, some ST =>
      let out := fmtSemi e (req == "1") (wr == "1") T SL ST
      let text := out.flatMap fun
        | none => [';']
        | some o => renderOut e o
      Driver.hexOfChars text
  | _, _, _ => "bad-op"

end Driver.SemiProto
