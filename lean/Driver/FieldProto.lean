import StyluaModel.Model.HangOp
import Driver.SemiProto
/- `fieldkey <lf|crlf> <indent hex> <name|bracket> <keyLead> <keyTrail> <eqLead> <eqTrail>`
   answer: hex of what a multi-line table prints in front of a named field's key -/
namespace Driver.FieldProto
open StyluaModel.Trivia StyluaModel.FieldKey Driver.TriviaProto Driver.SemiProto

def handle (eol ind kind a b c d : String) : String :=
  let e := if eol == "crlf" then ['\r', '\n'] else ['\n']
  match items parseItem a, items parseItem b, items parseItem c, items parseItem d, Driver.stringOfHex ind with
  | some A, some B, some C, some D, some indent =>
      let r := fun (o : Out) => match o with
        | .indent => indent.toList
        | o => renderOut e o
      Driver.hexOfChars ((keyLeading e true (kind == "name") A B C D).flatMap r)
  | _, _, _, _, _ => "bad-op"

end Driver.FieldProto
