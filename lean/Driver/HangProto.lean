import StyluaModel.Model.HangOp
import Driver.SemiProto
/- `hangop <lf|crlf> <indent hex> <op hex> <opLead items> <opTrail items> <rhsLead items>`
   answer: hex of what is printed between the left operand and the right operand of a hung operator -/
namespace Driver.HangProto
open StyluaModel.Trivia StyluaModel.HangOp Driver.TriviaProto Driver.SemiProto

def handle (eol ind op a b c : String) : String :=
  let e := if eol == "crlf" then ['\r', '\n'] else ['\n']
  match items parseItem a, items parseItem b, items parseItem c, Driver.stringOfHex ind, Driver.stringOfHex op with
  | some A, some B, some C, some indent, some opText =>
      let (lead, trail) := hangBinop A B C
      let r := fun (o : Out) => match o with
        | .indent => indent.toList
        | o => renderOut e o
      Driver.hexOfChars (lead.flatMap r ++ opText.toList ++ trail.flatMap r)
  | _, _, _, _, _ => "bad-op"

end Driver.HangProto
