import StyluaModel.Model.HangOp
import Driver.SemiProto
/- `punct <lf|crlf> <statement indent hex> <value indent hex> <value trailing items> <comma leading> <comma trailing> <next value leading>`
   answer: hex of what a one-value-per-line list prints between a (simple) value and the next one -/
namespace Driver.PunctProto
open StyluaModel.Trivia StyluaModel.Punct Driver.TriviaProto Driver.SemiProto

def handle (eol ind0 ind vt pl pt nl : String) : String :=
  let e := if eol == "crlf" then ['\r', '\n'] else ['\n']
  match items parseItem vt, items parseItem pl, items parseItem pt, items parseItem nl, Driver.stringOfHex ind, Driver.stringOfHex ind0 with
  | some VT, some PL, some PT, some NL, some indent, some indent0 =>
      let r := fun (o : Out) => match o with
        | .indent => indent.toList
        | o => renderOut e o
      -- the comma is formatted with the shape of the statement (first value), the values with the hanging shape
      let r0 := fun (o : Out) => match o with
        | .indent => indent0.toList
        | o => renderOut e o
      -- a simple value (a name): its trivia are formatted by format_token_reference, i.e. by load_token_trivia
      let out := afterValue e (load e .trailing VT) PL PT
      let text := out.flatMap fun
        | none => [',']
        | some o => r0 o
      Driver.hexOfChars (text ++ (prependNewlineIndent (load e .leading NL)).flatMap r)
  | _, _, _, _, _, _ => "bad-op"

end Driver.PunctProto
