import StyluaModel.Model.CallArgs
/- `callform <mode> <obscure 0|1> <form>` form = P<n><s|t|o> | S | T ; answer parens|sugar
   `fnspace <mode>` answer "<call> <def>" -/
namespace Driver.CallProto
open StyluaModel.CallArgs

def modeOf : String → Option Mode
  | "Always" => some .always | "NoSingleString" => some .noSingleString
  | "NoSingleTable" => some .noSingleTable | "None" => some .none | "Input" => some .input | _ => none

def formOf (s : String) : Option Form :=
  match s.toList with
  | ['S'] => some .stringSugar
  | ['T'] => some .tableSugar
  | ['P', n, k] =>
      let kind := if k == 's' then ArgKind.string else if k == 't' then ArgKind.table else ArgKind.other
      some (.parens (n.toNat - 48) kind)
  | _ => none

def handle (m o f : String) : String :=
  match modeOf m, formOf f with
  | some m, some f => match callForm m (o == "1") f with | .parens => "parens" | .sugar => "sugar"
  | _, _ => "bad-op"

def handleSpace (m : String) : String :=
  let sm : Option SpaceMode := match m with
    | "Never" => some .never | "Definitions" => some .definitions | "Calls" => some .calls | "Always" => some .always | _ => none
  match sm with
  | some sm => s!"{callSpace sm} {defSpace sm}"
  | none => "bad-op"

end Driver.CallProto
