import StyluaModel.Model.HangOp
import Driver.SemiProto
/- `callarg <lf|crlf> <indent hex> <argument trailing items> <sep 0|1> <sep leading> <sep trailing>`
   answer: hex of what a multi-line argument list prints between a (simple) argument and the next line -/
namespace Driver.CallArgProto
open StyluaModel.Trivia StyluaModel.CallArg Driver.TriviaProto Driver.SemiProto

def handle (eol ind at' hasSep pl pt : String) : String :=
  let e := if eol == "crlf" then ['\r', '\n'] else ['\n']
  match items parseItem at', items parseItem pl, items parseItem pt, Driver.stringOfHex ind with
  | some AT, some PL, some PT, some indent =>
      -- a simple argument (a name): its trailing trivia is formatted by load_token_trivia
      let out := afterArg e (load e .trailing AT) (if hasSep == "1" then some (PL, PT) else none)
      Driver.hexOfChars (out.flatMap fun
        | none => [',']
        | some .indent => indent.toList
        | some o => renderOut e o)
  | _, _, _, _ => "bad-op"

end Driver.CallArgProto
