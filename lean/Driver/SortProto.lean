import StyluaModel.Model.SortReq
import Driver.Util
import Driver.BlockProto
/- `sortreq <variant> <enabled 0|1> <item,item,...>` with item = id:kind(r|g|-):keyhex:nameLine:endLine:lines:inRange
   answer: ids in output order -/
namespace Driver.SortProto
open StyluaModel.SortReq

def parseItem (s : String) : Option Item :=
  match s.splitOn ":" with
  | [id, k, key, nl, el, ls, ir] => do
      let id ← id.toNat?
      let nl ← nl.toNat?
      let el ← el.toNat?
      let kind : Option GKind := if k == "r" then some .require else if k == "g" then some .getService else none
      let bytes ← if key == "-" then some [] else (Driver.bytesOfHex key.toList).map (·.map (·.toNat))
      let lines := if ls == "-" then [] else (ls.splitOn "+").map Driver.BlockProto.lineOf
      some { id := id, kind := kind, key := bytes, nameLine := nl, endLine := el, lines := lines, inRange := ir == "1" }
  | _ => none

def handle (v en body : String) : String :=
  let items := (body.splitOn ",").map parseItem
  if items.any (·.isNone) then "bad-op" else
  let items := items.filterMap id
  let variant := if v == "pinned" then pinned else repaired
  ",".intercalate ((sortRequires variant (en == "1") items).map fun i => toString i.id)

end Driver.SortProto
