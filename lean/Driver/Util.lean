/- shared helpers for the line-protocol driver (import-free) -/
namespace Driver

def hexDigit (n : Nat) : Char := if n < 10 then Char.ofNat (48 + n) else Char.ofNat (87 + n)

def hexOfBytes (bs : List UInt8) : String :=
  String.ofList (bs.flatMap fun b => [hexDigit (b.toNat / 16), hexDigit (b.toNat % 16)])

def hexOfString (s : String) : String :=
  if s.isEmpty then "-" else hexOfBytes s.toUTF8.toList

def hexOfChars (cs : List Char) : String := hexOfString (String.ofList cs)

def hexVal? (c : Char) : Option Nat :=
  if c.isDigit then some (c.toNat - 48)
  else if 'a' ≤ c ∧ c ≤ 'f' then some (c.toNat - 87)
  else if 'A' ≤ c ∧ c ≤ 'F' then some (c.toNat - 55)
  else none

def bytesOfHex : List Char → Option (List UInt8)
  | [] => some []
  | a :: b :: rest => do
      let x ← hexVal? a
      let y ← hexVal? b
      let r ← bytesOfHex rest
      pure (UInt8.ofNat (x * 16 + y) :: r)
  | _ => none

/-- "-" denotes the empty string -/
def stringOfHex (h : String) : Option String :=
  if h == "-" then some "" else
  match bytesOfHex h.toList with
  | some bs => String.fromUTF8? (ByteArray.mk bs.toArray)
  | none => none

def natList (l : List Nat) : String := ",".intercalate (l.map toString)

end Driver
