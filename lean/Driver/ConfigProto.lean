import StyluaModel.Model.Config
/- `config cwd=/a/b;spd=0;forced=-;user=-;noec=0;tomls=/a:1,/a/b:2;ecs=/a:11;dir=/a/b/../x`
   answer: forced:<id> | toml:<id> | user:<id> | ec:<id> | default -/
namespace Driver.ConfigProto
open StyluaModel.Config

def rdirOf (p : String) : RDir := ((p.splitOn "/").filter (· ≠ "")).reverse

def kv (s : String) : List (String × String) :=
  (s.splitOn ";").filterMap fun item =>
    match item.splitOn "=" with
    | [k, v] => some (k, v)
    | _ => none

def lookupKV (l : List (String × String)) (k : String) : String := ((l.find? (·.1 == k)).map (·.2)).getD "-"

def pairs (s : String) : List (RDir × Nat) :=
  if s == "-" then [] else
  (s.splitOn ",").filterMap fun item =>
    match item.splitOn ":" with
    | [p, id] => id.toNat?.map fun n => (rdirOf p, n)
    | _ => none

/-- nearest `.editorconfig` at or above a directory, walking the *lexical* ancestors (each of them
denotes the directory `norm` gives) -/
def nearestEc (ecs : List (RDir × Nat)) : RDir → Option Nat
  | [] => (ecs.find? (·.1 == [])).map (·.2)
  | c :: rest => match ecs.find? (·.1 == norm (c :: rest)) with
      | some e => some e.2
      | none => nearestEc ecs rest

def handle (req : String) : String :=
  let m := kv req
  let tomls := pairs (lookupKV m "tomls")
  let ecs := pairs (lookupKV m "ecs")
  let w : World := {
    toml := fun d => (tomls.find? (·.1 == d)).map (·.2)
    cwd := rdirOf (lookupKV m "cwd")
    searchParents := lookupKV m "spd" == "1"
    userConfig := (lookupKV m "user").toNat?
    forced := (lookupKV m "forced").toNat?
    noEditorconfig := lookupKV m "noec" == "1"
    editorconfig := nearestEc ecs }
  match resolve w (rdirOf (lookupKV m "dir")) with
  | .forced id => s!"forced:{id}"
  | .toml id => s!"toml:{id}"
  | .user id => s!"user:{id}"
  | .editorconfig id => s!"ec:{id}"
  | .default => "default"

end Driver.ConfigProto
