import StyluaModel.Model.StrLit
import StyluaModel.Spec.StrVal
import Driver.Util
import Driver.ExprProto
import Driver.BlockProto
import Driver.SortProto
import Driver.TriviaProto
import Driver.CallProto
import StyluaModel.Model.Cost
import StyluaModel.Generated.ExitOps
import StyluaModel.Model.Run
import Driver.DiffProto
import Driver.UnifiedProto
import Driver.SemiProto
import Driver.HangProto
import Driver.FieldProto
import Driver.EndProto
import Driver.PunctProto
import Driver.SugarProto
import Driver.TableFieldProto
import Driver.CallArgProto
import Driver.ConfigProto
import Driver.SelectProto
import Driver.TypeProto
import Driver.IgnoreProto
import StyluaModel.Model.Table
import StyluaModel.Model.Stdin
/-
`modeld`: one request per line on stdin, one answer per line on stdout.
The harness runs the real code on the same requests and diffs the answers.
-/
open Driver
open StyluaModel

def parseStyle : String → Option StrLit.QuoteStyle
  | "AutoPreferDouble" => some .autoPreferDouble
  | "AutoPreferSingle" => some .autoPreferSingle
  | "ForceDouble" => some .forceDouble
  | "ForceSingle" => some .forceSingle
  | _ => none

def qName : StrLit.Q → String
  | .single => "Single"
  | .double => "Double"

def optNatList : Option (List Nat) → String
  | none => "none"
  | some l => "some:" ++ natList l

def handle (line : String) : String :=
  match line.trimAscii.toString.splitOn " " with
  | ["strlit", style, hex] =>
      match parseStyle style, stringOfHex hex with
      | some st, some s =>
          let (q, body) := StrLit.rewrite st s.toList
          s!"{qName q} {hexOfChars body}"
      | _, _ => "bad-op"
  | ["strval", hex] =>
      match stringOfHex hex with
      | some s => s!"{natList (StrVal.decode51 s.toList)} {optNatList (StrVal.decode52 s.toList)}"
      | none => "bad-op"
  | ["lexok", v52, zf, q, hex] =>
      match stringOfHex hex, q.toList with
      | some s, [qc] => toString (StrVal.lexOK (v52 == "1") (zf == "1") qc s.toList)
      | _, _ => "bad-op"
  | ["long", eol, hex] =>
      match stringOfHex hex with
      | some s =>
          let e := if eol == "crlf" then ['\r', '\n'] else ['\n']
          hexOfChars (StrLit.rewriteLong e s.toList)
      | none => "bad-op"
  | ["longval", hex] =>
      match stringOfHex hex with
      | some s => natList (StrVal.decodeLong s.toList)
      | none => "bad-op"
  | ["num", hex] =>
      match stringOfHex hex with
      | some s => hexOfChars (StrLit.rewriteNumber s.toList)
      | none => "bad-op"
  | ["expr", v, entry, i, o] => Driver.ExprProto.handleExpr v entry i o
  | ["block", v, rs, re, body] => Driver.BlockProto.handle v rs re body
  | ["sortreq", v, en, body] => Driver.SortProto.handle v en body
  | ["trivia", eol, body] => Driver.TriviaProto.handle eol body
  | ["callform", m, o, f] => Driver.CallProto.handle m o f
  | ["fnspace", m] => Driver.CallProto.handleSpace m
  | ["cost", kind, d] =>
      match d.toNat? with
      | some n => if kind == "chain" then toString (StyluaModel.Cost.chain n) else if kind == "call" then toString (StyluaModel.Cost.call n) else "bad-op"
      | none => "bad-op"
  | ["exit", sched] =>
      -- H = next operation of the diff handler, L = next operation of the logger (ops from Generated/ExitOps.lean)
      let ts : List StyluaModel.Sched.Thread := [{ ops := StyluaModel.Generated.diffHandlerOps }, { ops := StyluaModel.Generated.loggerOps }]
      let order := sched.toList.map fun c => if c == 'H' then 0 else 1
      toString (StyluaModel.Sched.exec 0 ts order)
  | ["run", mode, outcomes] =>
      -- outcomes: one letter per file (s same, d differs, p parse error, u unreadable, v verify failure, m missing path)
      let oc : Char → Option StyluaModel.Run.Outcome := fun c =>
        if c == 's' then some .same else if c == 'd' then some .differs else if c == 'p' then some .parseError
        else if c == 'u' then some .unreadable else if c == 'v' then some .verifyFail else if c == 'm' then some .missing else none
      let os := outcomes.toList.map oc
      if os.any (·.isNone) then "bad-op" else
      let idx : List Nat := List.range os.length
      let files : List StyluaModel.Run.File := (idx.zip (os.filterMap id)).map fun p => { id := p.1, outcome := p.2 }
      let m := if mode == "check" then StyluaModel.Run.Mode.check else StyluaModel.Run.Mode.write
      let r := StyluaModel.Run.run m files files
      s!"{r.exit} w:{",".intercalate (r.written.map toString)} d:{",".intercalate (r.diffs.map toString)}"
  | ["diffjson", v, ops, o, n] => Driver.DiffProto.handle v ops o n
  | ["diffuni", ops, o, n, tx] => Driver.UnifiedProto.handle ops o n tx
  | ["semi", eol, req, wr, t, sl, st] => Driver.SemiProto.handle eol req wr t sl st
  | ["hangop", eol, ind, op, a, b, c] => Driver.HangProto.handle eol ind op a b c
  | ["fieldkey", eol, ind, kind, a, b, c, d] => Driver.FieldProto.handle eol ind kind a b c d
  | ["endtoken", eol, ind, a] => Driver.EndProto.handle eol ind a
  | ["punct", eol, ind0, ind, vt, pl, pt, nl] => Driver.PunctProto.handle eol ind0 ind vt pl pt nl
  | ["sugar", "drop", eol, arg, a, b, c, d, f, g] => Driver.SugarProto.handleDrop eol arg a b c d f g
  | ["sugar", "add", eol, arg, c, d] => Driver.SugarProto.handleAdd eol arg c d
  | ["tablefield", eol, ind, vt, hs, pl, pt] => Driver.TableFieldProto.handle eol ind vt hs pl pt
  | ["callarg", eol, ind, vt, hs, pl, pt] => Driver.CallArgProto.handle eol ind vt hs pl pt
  | ["config", req] => Driver.ConfigProto.handle req
  | ["stdin", check, respect, ignored, parses, same] =>
      -- abstract run: the formatter is a parameter (parses? formatted = input?)
      let o : StyluaModel.Stdin.Opts := { check := check == "1", respectIgnores := respect == "1", stdinPathIgnored := ignored == "1" }
      let fmt : List Nat → Option (List Nat) := fun i => if parses == "1" then some (if same == "1" then i else i ++ [0]) else none
      let r := StyluaModel.Stdin.run fmt o [1]
      let out := match r.stdout with | .text t => (if t == [1] then "input" else "formatted") | .diff => "diff" | .nothing => "nothing"
      s!"{out} {r.exit}"
  | ["optiontables"] => "ok"
  | ["select", g, r, body] => Driver.SelectProto.handle g r body
  | ["tabledec", w, col, hf, nl, span, wo, wc, ex] =>
      match w.toNat?, col.toNat?, span.toNat? with
      | some w, some col, some span =>
          match StyluaModel.Table.decide w col { hasFields := hf == "1", nlAfterOpen := nl == "1", span := span, wsAfterOpen := wo == "1", wsBeforeClose := wc == "1", expand := ex == "1" } with
          | .empty => "empty" | .single => "single" | .multi => "multi"
      | _, _, _ => "bad-op"
  | ["ignore", v, cwd, spd, p, dirs, ms] => Driver.IgnoreProto.handle v cwd spd p dirs ms
  | ["eof", eol, f, body] => Driver.TriviaProto.handleEof eol f body
  | ["tyfmt", i, o] => Driver.TypeProto.handleFmt i o
  | ["tywf", t, r] => Driver.TypeProto.handleWf t r
  | ["parse", i] => Driver.ExprProto.handleParse i
  | ["faithful", i] => Driver.ExprProto.handleFaithful i
  | ["semeq", i, o] => Driver.ExprProto.handleSem i o
  | _ => "bad-op"

partial def loop (h : IO.FS.Stream) (out : IO.FS.Stream) : IO Unit := do
  let line ← h.getLine
  if line.isEmpty then return ()
  out.putStrLn (handle line)
  loop h out

def main : IO Unit := do
  let out ← IO.getStdout
  loop (← IO.getStdin) out
  out.flush
