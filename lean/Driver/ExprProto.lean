import StyluaModel.Model.ParenRule
import StyluaModel.Spec.Prec
import StyluaModel.Spec.Parser
/- `expr` / `faithful` protocols: compact S-expressions, membership of the real output in
the set of outputs the model admits (over all layout oracles). -/
namespace Driver.ExprProto
open StyluaModel StyluaModel.ParenRule Expr

def unName : UnOp → String
  | .minus => "m" | .not => "n" | .hash => "h" | .tilde => "t"
def unOfName : String → Option UnOp
  | "m" => some .minus | "n" => some .not | "h" => some .hash | "t" => some .tilde | _ => none

def binNames : List (String × BinOp) :=
  [("caret", .caret), ("percent", .percent), ("slash", .slash), ("star", .star), ("dslash", .dslash),
   ("minus", .minus), ("plus", .plus), ("concat", .concat), ("shl", .shl), ("shr", .shr),
   ("band", .band), ("bxor", .bxor), ("bor", .bor), ("gt", .gt), ("ge", .ge), ("lt", .lt),
   ("le", .le), ("ne", .ne), ("eq", .eq), ("and", .and), ("or", .or)]
def binOfName (s : String) : Option BinOp := (binNames.find? (·.1 == s)).map (·.2)
def binName (o : BinOp) : String := ((binNames.find? (·.2 == o)).map (·.1)).getD "?"

partial def render : Expr → String
  | atom n => s!"a{n}"
  | call n => s!"c{n}"
  | varargs => "v"
  | paren e => s!"P({render e})"
  | un op e => s!"U{unName op}({render e})"
  | bin op l r => s!"B{binName op}({render l},{render r})"
  | assert e => s!"A({render e})"
  | ifx n => s!"i{n}"

def takeWhileC (p : Char → Bool) : List Char → List Char × List Char
  | [] => ([], [])
  | c :: cs => if p c then let (a, b) := takeWhileC p cs; (c :: a, b) else ([], c :: cs)

mutual
partial def parseE : List Char → Option (Expr × List Char)
  | 'a' :: cs => let (d, r) := takeWhileC Char.isDigit cs; (String.ofList d).toNat?.map fun n => (atom n, r)
  | 'c' :: cs => let (d, r) := takeWhileC Char.isDigit cs; (String.ofList d).toNat?.map fun n => (call n, r)
  | 'v' :: cs => some (varargs, cs)
  | 'P' :: '(' :: cs => do
      let (e, r) ← parseE cs
      match r with | ')' :: r' => some (paren e, r') | _ => none
  | 'A' :: '(' :: cs => do
      let (e, r) ← parseE cs
      match r with | ')' :: r' => some (assert e, r') | _ => none
  | 'U' :: o :: '(' :: cs => do
      let op ← unOfName (String.singleton o)
      let (e, r) ← parseE cs
      match r with | ')' :: r' => some (un op e, r') | _ => none
  | 'B' :: cs => do
      let (nm, r) := takeWhileC Char.isAlpha cs
      let op ← binOfName (String.ofList nm)
      match r with
      | '(' :: r1 => do
          let (l, r2) ← parseE r1
          match r2 with
          | ',' :: r3 => do
              let (rr, r4) ← parseE r3
              match r4 with | ')' :: r5 => some (bin op l rr, r5) | _ => none
          | _ => none
      | _ => none
  | 'i' :: cs => let (d, r) := takeWhileC Char.isDigit cs; (String.ofList d).toNat?.map fun n => (ifx n, r)
  | _ => none
end

/-- the token sequence (parentheses included): what is compared, because an unfaithful
tree re-parses into a different tree with the same tokens -/
partial def flat : Expr → String
  | atom n => s!"a{n}"
  | call n => s!"c{n}"
  | varargs => "v"
  | ifx n => s!"i{n}"
  | paren e => s!"({flat e})"
  | un op e => s!"{unName op}~{flat e}"
  | bin op l r => s!"{flat l} {binName op} {flat r}"
  | assert e => s!"{flat e}::"

def parse (s : String) : Option Expr :=
  match parseE s.toList with
  | some (e, []) => some e
  | _ => none

def dedup (l : List Expr) : List Expr := l.eraseDups

-- all results `fmtH v o ctx e` over all oracles `o` (set semantics)
mutual
partial def allH (v : Variant) (ctx : Ctx) : Expr → List Expr
  | assert e => dedup ((allH v .tassert e).map assert)
  | paren e =>
      if checkExcess e ctx ∧ ¬ keepParens ctx then allH v ctx e
      else dedup (paren (fmtS v .std e) :: (allH v .std e).map paren)
  | un op e =>
      dedup ((allH v .unOrBin e).map fun e' =>
        if v.hangMinusGuard ∧ op = .minus ∧ isUnMinus e' then un op (paren e') else un op e')
  | bin op l r =>
      let ls := allB v (if v.hangLhsExp ∧ op = .caret then .binLhsExp else .unOrBin) l
      let rs := allB v (if v.hangRhsOperand then .unOrBin else .std) r
      dedup (ls.flatMap fun l' => rs.map fun r' => bin op l' r')
  | e => [fmtS v ctx e]
partial def allB (v : Variant) (ctx : Ctx) : Expr → List Expr
  | bin op l r =>
      let hl := allB v (if v.hangLhsExp ∧ op = .caret then .binLhsExp else ctx) l
      let hr := allB v ctx r
      let sl := fmtS v (lhsCtx op) l
      let sr := fmtS v .unOrBin r
      -- hang: (rassoc: (hl|sl, hr)) (else: (hl, hr|sr)); no hang: (hl|sl, hr|sr)
      let ls := dedup (sl :: hl)
      let rs := dedup (sr :: hr)
      dedup (ls.flatMap fun l' => rs.map fun r' => bin op l' r')
  | e => allH v ctx e
end

def variantOf : String → Option Variant
  | "pinned" => some pinned
  | "repaired" => some repaired
  | s =>
    match s.toList with
    | [a, b, c, d] => some { ctxThroughDrop := a == '1', hangMinusGuard := b == '1', hangLhsExp := c == '1', hangRhsOperand := d == '1' }
    | _ => none

/-- entry points: `std` (format_expression | hang_expression), `prefix`, `cond`
(remove_condition_parentheses first) -/
def admitted (v : Variant) (entry : String) (e : Expr) : List (String × Expr) :=
  let (ctx, e) := match entry with
    | "prefix" => (Ctx.prefix, e)
    | "cond" => (Ctx.std, stripCond e)
    | _ => (Ctx.std, e)
  ("single", fmtS v ctx e) :: (allH v ctx e).map fun r => ("hang", r)

def handleExpr (v entry i o : String) : String :=
  match variantOf v, parse i, parse o with
  | some v, some ei, some eo =>
      match (admitted v entry ei).find? (fun p => flat p.2 == flat eo) with
      | some (path, _) => s!"ok {path}"
      | none => s!"no single={render (fmtS v (if entry == "prefix" then .prefix else .std) (if entry == "cond" then stripCond ei else ei))}"
  | _, _, _ => "bad-op"

/-- `parse <tree>`: print the tree to tokens, run the parser mirror, render what it reads -/
def handleParse (i : String) : String :=
  match parse i with
  | some e =>
      match StyluaModel.Parser.parse 100000 (StyluaModel.Parser.print e) with
      | some e' => render e'
      | none => "none"
  | none => "bad-op"

def handleFaithful (i : String) : String :=
  match parse i with
  | some e => toString (Prec.faithful e)
  | none => "bad-op"

def handleSem (i o : String) : String :=
  match parse i, parse o with
  | some a, some b => toString (Prec.sem a == Prec.sem b)
  | _, _ => "bad-op"

end Driver.ExprProto
