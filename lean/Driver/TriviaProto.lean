import StyluaModel.Model.Trivia
import StyluaModel.Model.Eof
import Driver.Util
/- `trivia <lf|crlf> <item;item;...>`: leading trivia of the first token of a file, rendered.
   items: w0 | w1 | L<hex> | B<level>.<hex> | S<hex> -/
namespace Driver.TriviaProto
open StyluaModel.Trivia

def parseItem (s : String) : Option Triv :=
  match s.toList with
  | ['w', '0'] => some (.ws false)
  | ['w', '1'] => some (.ws true)
  | 'L' :: h => (Driver.stringOfHex (String.ofList h)).map fun t => .comment .line t.toList
  | 'S' :: h => (Driver.stringOfHex (String.ofList h)).map fun t => .comment .shebang t.toList
  | 'B' :: rest =>
      match (String.ofList rest).splitOn "." with
      | [lvl, h] => do
          let l ← lvl.toNat?
          let t ← Driver.stringOfHex h
          some (.comment (.block l) t.toList)
      | _ => none
  | _ => none

def renderOut (eol : List Char) : Out → List Char
  | .newline => eol
  | .indent => []
  | .space => [' ']
  | .comment .line t => '-' :: '-' :: t
  | .comment .shebang t => t
  | .comment (.block l) t =>
      let eqs := List.replicate l '='
      ['-', '-', '['] ++ eqs ++ ['['] ++ t ++ [']'] ++ eqs ++ [']']

def handle (eol body : String) : String :=
  let items := (body.splitOn ";").map parseItem
  if items.any (·.isNone) then "bad-op" else
  let e := if eol == "crlf" then ['\r', '\n'] else ['\n']
  let outs := load e .leading (items.filterMap id)
  Driver.hexOfChars (outs.flatMap (renderOut e))

/-- `eof <lf|crlf> <format 0|1> <items>`: the trivia in front of the end-of-file token -/
def handleEof (eol fmt body : String) : String :=
  let items := if body == "-" then [] else (body.splitOn ";").map parseItem
  if items.any (·.isNone) then "bad-op" else
  let e := if eol == "crlf" then ['\r', '\n'] else ['\n']
  match StyluaModel.Eof.fmtEof e (fmt == "1") (items.filterMap id) with
  | none => "untouched"
  | some outs => "x" ++ Driver.hexOfChars (outs.flatMap (renderOut e))

end Driver.TriviaProto
