import StyluaModel.Model.EndToken
import Driver.SemiProto
/- `endtoken <lf|crlf> <indent hex> <items>`: the leading trivia of a block's closing token, rendered
   (comments are indented one level deeper than the token; the token's own indentation is not part of it) -/
namespace Driver.EndProto
open StyluaModel.Trivia StyluaModel.EndToken Driver.TriviaProto Driver.SemiProto

def handle (eol ind a : String) : String :=
  let e := if eol == "crlf" then ['\r', '\n'] else ['\n']
  match items parseItem a, Driver.stringOfHex ind with
  | some A, some indent =>
      let r := fun (o : Out) => match o with
        | .indent => indent.toList
        | o => renderOut e o
      Driver.hexOfChars ((endLeading e A).flatMap r)
  | _, _ => "bad-op"

end Driver.EndProto
