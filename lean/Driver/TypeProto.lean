import StyluaModel.Spec.TypeSpec
/- `tyfmt <in> <out>`  : is the real output one of the model's results (over all layout oracles)?
   `tywf <tree> <read>` : spec validation - if `wf top tree` then the parser's reading `read` of the
                          bare printing of `tree` must have the same meaning. -/
namespace Driver.TypeProto
open StyluaModel.TypeParen StyluaModel.TypeSpec

def takeDigits : List Char → List Char × List Char
  | [] => ([], [])
  | c :: cs => if c.isDigit then let (a, b) := takeDigits cs; (c :: a, b) else ([], c :: cs)

mutual
partial def parseT : List Char → Option (Ty × List Char)
  | 'N' :: cs => let (d, r) := takeDigits cs; (String.ofList d).toNat?.map fun n => (.basic n, r)
  | 'O' :: '(' :: cs => do let (t, r) ← parseT cs; match r with | ')' :: r' => some (.opt t, r') | _ => none
  | 'P' :: '(' :: cs => do let (t, r) ← parseT cs; match r with | ')' :: r' => some (.paren t, r') | _ => none
  | 'V' :: '(' :: cs => do let (t, r) ← parseT cs; match r with | ')' :: r' => some (.variadic t, r') | _ => none
  | 'U' :: '(' :: cs => do let (ts, r) ← parseList cs; some (.union ts, r)
  | 'I' :: '(' :: cs => do let (ts, r) ← parseList cs; some (.inter ts, r)
  | 'K' :: '(' :: cs => do let (ts, r) ← parseList cs; some (.pack ts, r)
  | 'T' :: '(' :: cs => do let (ts, r) ← parseList cs; some (.tbl ts, r)
  | 'G' :: cs =>
      let (d, r) := takeDigits cs
      match (String.ofList d).toNat?, r with
      | some n, '(' :: r' => do let (ts, r2) ← parseList r'; some (.generic n ts, r2)
      | _, _ => none
  | 'F' :: '(' :: cs => do
      let (args, r) ← parseList cs
      match r with
      | '>' :: r' => do let (ret, r2) ← parseT r'; some (.fn args ret, r2)
      | _ => none
  | 'X' :: '(' :: cs => do
      let (k, r) ← parseT cs
      match r with
      | ';' :: r' => do
          let (w, r2) ← parseT r'
          match r2 with | ')' :: r3 => some (.indexer k w, r3) | _ => none
      | _ => none
  | _ => none
/-- comma separated, closed by `)` -/
partial def parseList : List Char → Option (List Ty × List Char)
  | ')' :: cs => some ([], cs)
  | cs => do
      let (t, r) ← parseT cs
      match r with
      | ',' :: r' => do let (ts, r2) ← parseList r'; some (t :: ts, r2)
      | ')' :: r' => some ([t], r')
      | _ => none
end

def parse (s : String) : Option Ty :=
  match parseT s.toList with
  | some (t, []) => some t
  | _ => none

mutual
/-- paths of the nodes where the oracle is consulted -/
partial def oraclePaths (p : List Nat) : Ty → List (List Nat)
  | .basic _ => []
  | .opt t => oraclePaths (0 :: p) t
  | .union ts => oraclePathsL p 0 ts
  | .inter ts => oraclePathsL p 0 ts
  | .fn args ret => oraclePathsL (0 :: p) 0 args ++ oraclePaths (1 :: p) ret
  | .paren t => p :: oraclePaths (0 :: p) t
  | .pack ts => p :: oraclePathsL p 0 ts
  | .variadic t => oraclePaths (0 :: p) t
  | .generic _ ts => oraclePathsL p 0 ts
  | .tbl ts => oraclePathsL p 0 ts
  | .indexer k w => oraclePaths (0 :: p) k ++ oraclePaths (1 :: p) w
partial def oraclePathsL (p : List Nat) (i : Nat) : List Ty → List (List Nat)
  | [] => []
  | t :: ts => oraclePaths (i :: p) t ++ oraclePathsL p (i + 1) ts
end

mutual
/-- what the parser makes of a printed tree: a union directly inside a union is the same token list -/
partial def flat : Ty → Ty
  | .basic n => .basic n
  | .opt t => .opt (flat t)
  | .union ts => .union (flatU (flatL ts))
  | .inter ts => .inter (flatI (flatL ts))
  | .fn args ret => .fn (flatL args) (flat ret)
  | .paren t => .paren (flat t)
  | .pack ts => .pack (flatL ts)
  | .variadic t => .variadic (flat t)
  | .generic n ts => .generic n (flatL ts)
  | .tbl ts => .tbl (flatL ts)
  | .indexer k w => .indexer (flat k) (flat w)
partial def flatL : List Ty → List Ty
  | [] => []
  | t :: ts => flat t :: flatL ts
end

mutual
partial def render : Ty → String
  | .basic n => s!"N{n}"
  | .opt t => s!"O({render t})"
  | .union ts => s!"U({renderL ts}"
  | .inter ts => s!"I({renderL ts}"
  | .fn args ret => s!"F({renderL args}>{render ret}"
  | .paren t => s!"P({render t})"
  | .pack ts => s!"K({renderL ts}"
  | .variadic t => s!"V({render t})"
  | .generic n ts => s!"G{n}({renderL ts}"
  | .tbl ts => s!"T({renderL ts}"
  | .indexer k w => s!"X({render k};{render w})"
partial def renderL : List Ty → String
  | [] => ")"
  | [t] => render t ++ ")"
  | t :: ts => render t ++ "," ++ renderL ts
end

def subsets : List α → List (List α)
  | [] => [[]]
  | x :: xs => let r := subsets xs; r ++ r.map (x :: ·)

def handleFmt (i o : String) : String :=
  match parse i, parse o with
  | some a, some b =>
      let paths := (oraclePaths [] a).take 10
      let results := (subsets paths).map fun on => fmtT current (fun p => on.contains p) [] Ctx.new a
      if results.any (fun r => flat r == flat b) then "ok"
      else s!"no {render (fmtT current (fun _ => false) [] Ctx.new a)}"
  | _, _ => "bad-op"

def handleWf (t r : String) : String :=
  match parse t with
  | some a =>
      if wf .top a then
        match parse r with
        | some b => if sem a == sem b then "ok" else "bad"
        | none => "bad"
      else "ok"
  | none => "bad-op"

end Driver.TypeProto
