"""Per-property configuration of ./check (what to build, which runners, what is trusted)."""

COMMON_TRUSTED = [
    "Lean 4.33.0 kernel (theorems re-checked by `lake build`; thorough tier adds leanchecker)",
    "axioms allowed in property theorems: propext, Classical.choice, Quot.sound (audited by #print axioms on every run)",
    "tools/vlib.py + harness/ (correspondence check: runs /repo's code in-process or as the built CLI and diffs with the model driver `modeld`)",
    "hand-written Lean models under lean/StyluaModel/Model mirror the Rust functions named in DESIGN.md; only the correspondence ties them to the code",
]


def answers_agree(request, impl, model):
    """ring-2 comparison; protocols with a membership/ok answer override equality"""
    proto = request.split(" ", 1)[0]
    if proto in MEMBERSHIP:
        return model.startswith("ok")
    return impl == model


# protocols whose model answer is "ok ..." / "no ..." (the implementation's answer is part of the request)
MEMBERSHIP = set()


def nontrivial(request, impl):
    """distinct_nontrivial rule: the request exercises a rewriting decision (not the identity)"""
    parts = request.split(" ")
    proto = parts[0]
    if proto == "strlit":
        # non-trivial: body contains a quote or a backslash
        h = parts[2]
        return any(x in h for x in ("27", "22", "5c"))
    if proto in ("long",):
        return "0a" in parts[2] or "0d" in parts[2]
    if proto == "num":
        return parts[1].startswith("2e")
    return True


PROPS = {}
HOOK_COMMITS = []

PROPS["C04"] = {
    "lean_modules": ["StyluaModel.Props.C04"],
    "theorem_prefix": "C04_",
    "required_theorems": ["C04_value_51", "C04_value_52", "C04_wf", "C04_num_id", "C04_num_dot"],
    "hx": [["c04"]],
    "level": "proof",
    "level_text": "Proof: Lean theorems (unbounded body length, all quote styles) that the modelled quoted-string rewrite preserves the Lua 5.1 value, the Lua 5.2+ value when defined, and lexability as one string token; number rewrite only adds a leading 0. The model is tied to general.rs by an exhaustive small-scope byte-for-byte correspondence on every run.",
    "level_note": "Trusted: Lean kernel; hand-written model of get_quote_to_use/format_token (tied by correspondence, ~9e5 requests per quick run); spec decoders validated against independent Rust decoders and full_moon's tokenizer; regex crate semantics. Long-bracket value equality is checked by the oracle only (no theorem yet).",
    "technique": "Lean 4 simulation proof (scanner vs decoder state machines) + exhaustive model/implementation correspondence",
    "exhaustive": True,
    "rule": "ring 2: every string body over an 18-symbol escape alphabet up to length 4 (quick) / 5 (thorough), in single- and double-quoted form, as expression / sugar-call argument / table key / index, x 4 quote styles x {All, Lua51[, Luau, LuaJIT]}; long-bracket form x 2 levels x 2 line endings; 767 number spellings x 7 syntaxes. The output token of the real format_code must equal modeld's answer byte for byte. distinct_nontrivial = distinct requests whose body contains a quote, backslash or newline (i.e. a rewriting decision is taken). ring 3: independent Lua 5.1 / 5.2 decoders on input vs output token.",
    "trusted_base": [
        "Spec.StrVal.decode51/decode52/lexOK are Lean definitions validated (not proven) against the harness decoders and full_moon's tokenizer on the same exhaustive enumeration",
        "the `regex` crate implements leftmost-first alternation for \\\\?([\"'])|\\\\([\\S\\s]) (checked by the exhaustive correspondence)",
    ],
    "assumptions": [
        "string bodies are compared as Unicode scalar sequences (the unit the regex matches on)",
        "long-bracket value theorem excludes bodies with a lone CR (reported separately)",
    ],
}
