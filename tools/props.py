"""Per-property configuration of ./check (what to build, which runners, what is trusted)."""

COMMON_TRUSTED = [
    "Lean 4.33.0 kernel (theorems re-checked by `lake build`; thorough tier adds leanchecker)",
    "axioms allowed in property theorems: propext, Classical.choice, Quot.sound (audited by #print axioms on every run)",
    "tools/vlib.py + harness/ (correspondence check: runs /repo's code in-process or as the built CLI and diffs with the model driver `modeld`)",
    "hand-written Lean models under lean/StyluaModel/Model mirror the Rust functions named in DESIGN.md; only the correspondence ties them to the code",
]


def answers_agree(request, impl, model):
    """ring-2 comparison; protocols with a membership/ok answer override equality"""
    proto = request.split(" ", 1)[0]
    if proto in MEMBERSHIP:
        return model.startswith("ok")
    if proto == "cost":
        # one-sided: doing *less* work than the model says is not a violation of totality
        try:
            return int(impl) <= int(model)
        except ValueError:
            return False
    if proto == "parse":
        # the mirror answers `none` where an opaque token (if-expression, type) swallows what follows:
        # then the real parser must not read the printed tree back either
        if model == "none":
            return impl != request.split(" ", 1)[1]
        return impl == model
    if proto == "select":
        # the thread pool reports in completion order: compare as multisets
        canon = "-" if model == "-" else ",".join(sorted(model.split(","), key=int))
        return impl == "sorted:" + canon
    return impl == model


# protocols whose model answer is "ok ..." / "no ..." (the implementation's answer is part of the request)
MEMBERSHIP = {"expr"}


def nontrivial(request, impl):
    """distinct_nontrivial rule: the request exercises a rewriting decision (not the identity)"""
    parts = request.split(" ")
    proto = parts[0]
    if proto == "strlit":
        # non-trivial: body contains a quote or a backslash
        h = parts[2]
        return any(x in h for x in ("27", "22", "5c"))
    if proto in ("long",):
        return "0a" in parts[2] or "0d" in parts[2]
    if proto == "num":
        return parts[1].startswith("2e")
    if proto == "cost":
        return int(parts[2]) >= 2
    if proto == "callform":
        return parts[3] in ("P1s", "P1t", "S", "T")
    if proto == "trivia":
        # non-trivial: at least one comment token
        return any(x[0] in "LBS" for x in parts[2].split(";"))
    if proto == "semi":
        # non-trivial: a semicolon was written
        return parts[3] == "1"
    if proto in ("hangop", "fieldkey", "punct", "sugar", "tablefield", "callarg"):
        return True
    if proto == "endtoken":
        return any(x[0] in "LB" for x in parts[3].split(";"))
    if proto == "sortreq":
        # non-trivial: sorting enabled and at least two require/GetService items
        return parts[2] == "1" and (parts[3].count(":r:") + parts[3].count(":g:")) >= 2
    if proto == "block":
        # non-trivial: a directive, a range or a semicolon is involved
        return parts[2] != "-" or parts[3] != "-" or "ignore" in parts[4] or ":1:" in parts[4]
    if proto == "expr":
        # non-trivial: the output tree differs from the input tree (some parenthesis decision taken)
        return parts[3] != parts[4]
    if proto == "tyfmt":
        return parts[1] != parts[2]
    return True


import cli  # noqa: E402  (CLI-level runners)

PROPS = {}
HOOK_COMMITS = ["fb76d1e verif hook: call counters behind --cfg stylua_verif", "schedule points in src/cli/main.rs (two commits: `verif hook: named schedule points...`, `verif hook: schedule point in front of the walker's error report`)"]

PROPS["C04"] = {
    "lean_modules": ["StyluaModel.Props.C04"],
    "theorem_prefix": "C04_",
    "required_theorems": ["C04_value_51", "C04_value_52", "C04_wf", "C04_num_id", "C04_num_dot", "C04_long", "C04_long_lone_cr_witness", "C04_regex_pinned", "C04_escape_class"],
    "hx": [["c04"]],
    "level": "proof",
    "level_text": "Proof: Lean theorems (unbounded body length, all quote styles) that the modelled quoted-string rewrite preserves the Lua 5.1 value, the Lua 5.2+ value when defined, and lexability as one string token; a long-bracket body keeps its value under both line_endings settings whenever every carriage return is followed by a line feed (the excluded case is a proven counterexample and a known finding); number rewrite only adds a leading 0. The model is tied to general.rs by an exhaustive small-scope byte-for-byte correspondence on every run.",
    "level_note": "Trusted: Lean kernel; hand-written model of get_quote_to_use/format_token (tied by correspondence, ~9e5 requests per quick run); spec decoders validated against independent Rust decoders and full_moon's tokenizer; regex crate semantics; the long-bracket conversion is tied by the `long` protocol (every body x 3 levels x 4 positions x 2 endings).",
    "technique": "Lean 4 simulation proof (scanner vs decoder state machines) + exhaustive model/implementation correspondence",
    "exhaustive": True,
    "rule": "ring 2: every string body over an 18-symbol escape alphabet up to length 4 (quick) / 5 (thorough), in single- and double-quoted form, as expression / sugar-call argument / table key / index, x 4 quote styles x {All, Lua51[, Luau, LuaJIT]}; long-bracket form x 2 levels x 2 line endings; 767 number spellings x 7 syntaxes. The output token of the real format_code must equal modeld's answer byte for byte. distinct_nontrivial = distinct requests whose body contains a quote, backslash or newline (i.e. a rewriting decision is taken). ring 3: independent Lua 5.1 / 5.2 decoders on input vs output token.",
    "trusted_base": [
        "Spec.StrVal.decode51/decode52/lexOK are Lean definitions validated (not proven) against the harness decoders and full_moon's tokenizer on the same exhaustive enumeration",
        "the `regex` crate implements leftmost-first alternation for \\\\?([\"'])|\\\\([\\S\\s]) (checked by the exhaustive correspondence)",
    ],
    "assumptions": [
        "string bodies are compared as Unicode scalar sequences (the unit the regex matches on)",
        "C04_long excludes bodies with a lone CR; the oracle does not: such bodies whose value changes are reported under the known-finding signature long-value-changed:lone-cr",
    ],
}

PROPS["C05"] = {
    "lean_modules": ["StyluaModel.Props.C05"],
    "theorem_prefix": "C05_",
    "required_theorems": ["C05_single", "C05_hang", "C05_tokens_determine_tree", "C05_parses_back", "C05_prec_table"],
    "hx": [["c05"]],
    "level": "proof",
    "level_text": "Proof: for the Lean model of check_excess_parentheses / format_expression_internal / hang_binop_expression / format_hanging_expression_ (all layout answers universally quantified as an oracle), every result is faithful, is read back as exactly itself by the Lean mirror of full_moon's precedence-climbing parser (proved: `faithful e -> parse (print e) = e`, any fuel) and has the same meaning as the input, on the single-line and on the hanging path, for expressions of any size. The model is tied to expression.rs by a correspondence over all depth-2 trees x 12 syntactic contexts x 3 width classes plus seeded deeper trees.",
    "level_note": "Trusted: Lean kernel; hand-written model (ParenRule.lean) tied by ~7e4 distinct membership requests per run; `faithful` proved sufficient for the round trip through the Lean mirror of full_moon's expression parser (Spec/Parser.lean), the mirror compared with full_moon on the same trees (protocol `parse`); if-expressions are opaque in the model (their parts are separate entries).",
    "technique": "Lean 4 structural-induction proof over an oracle-parameterised model + exhaustive small-scope model/implementation correspondence",
    "rule": "ring 2: all expression trees of depth <= 2 over {or, <, .., +, ^} x {-, not} x {name, call, ...} with parentheses at every position (16 419 trees) + Luau assertion trees + seeded random trees of depth 3-5 over all 21 binary operators; each placed in 12 contexts (local, assignment, return, if/while/repeat condition, last/middle call argument, positional/named table field, index, prefix) at widths {120, 40, 10} (thorough adds 20, 1, 60); real output re-parsed with full_moon and its token sequence must be one the model admits (single-line result or hanging result for some oracle). distinct_nontrivial = distinct requests where the output tree differs from the input tree. ring 3: independent position-aware normal form (parentheses forgotten except truncation in multi-value positions) of input vs output.",
    "trusted_base": [
        "Spec/Parser.lean is a hand-written token-level mirror of full_moon's expression parser (parsers.rs 1644-1928: primary, `::` suffix, unary at precedence 11, precedence climbing); it is compared with full_moon on every run (protocol `parse`), not derived from it. `Spec.Prec.faithful` is PROVED sufficient for `parse (print e) = e` through that mirror (Lemmas/Parser.lean, ParserMono.lean); that it is also necessary is validated (protocol `faithful`, and exhaustively on 122 628 trees of depth <= 2 against the mirror), not proven. The lexical clause (`- -` printed as `--`) is below the token level.",
        "layout (Shape arithmetic, ~40 heuristics) is abstracted as a universally quantified oracle; which oracle the real run corresponds to is not modelled",
    ],
    "assumptions": ["if-expressions are opaque leaves of the expression model (right-open, never unparenthesised)"],
}

SLOT_RULE = ("comment-slot enumeration: 60 constructs (every statement kind, expression kinds, call chains, Luau/5.2/5.4 forms) x every token gap x 8 slot kinds (block, multi-line block, line comment + newline, their twins in CRLF, a bare line break, a blank line) x 6 configurations = 34 848 cases, all oracles; closed and seed-independent. ")

PROGEN_RULE = ("ring 3 (seeded): `hx progen` - 2 500 (thorough 10 000) random programs from a grammar of the whole language (every statement kind, nested blocks, tables, functions, call sugar, strings, numbers; comments and blank lines only between statements) x 2 random configurations each, judged by the re-parse, normal-form, comment-census and panic oracles. ")

PIPE_RULE = ("ring 3 (closed set): the repository's 367 test inputs (+ committed catalogue) x a fixed grid of 79 configurations "
             "(column widths 1..usize::MAX, both indent types, widths 1-16, both line endings, every value of every enum option), "
             "plus a width sweep (every column width 1..130) of every one-line catalogue program; each case checked by independent oracles (re-parse, normal form, comment census, idempotence, whitespace scan, option rules, panic/time). ")

PROPS["C01"] = {
    "lean_modules": ["StyluaModel.Props.C01"],
    "theorem_prefix": "C01_",
    "required_theorems": ["C01_binops_spaced", "C01_binop_table_complete", "C01_unops_shape", "C01_no_minus_minus", "C01_expr_reparses", "C01_expr_parses_back", "C01_faithful_parses", "C01_parser_answers_right", "C01_type_wellformed", "C01_string_token", "C01_semicolon_kinds"],
    "hx": [["c05"], ["c02t"], ["c08"], ["pipe"], ["slots"], ["progen"]],
    "level": "proof",
    "level_text": "Proof, partial: theorems cover the expression-level edit closure (every parenthesis edit yields a tree that re-parses to itself, for all oracles), the `- -` clause, string tokens staying one token, and the operator-text table regenerated from the compiled code on every run. The statement-level grammar and the claim that every separator emitted by the ~150 trivia sites is safe are carried by the correspondence and the closed-set re-parse oracle only.",
    "level_note": "Trusted: Lean kernel; ParenRule/StrLit models tied by correspondence; Spec/Parser.lean (mirror of full_moon's expression parser) compared with full_moon on every run; OpTables observed from the compiled formatter by the translator; the closed-set oracle uses full_moon itself as the parser the property names.",
    "technique": "Lean 4 proofs over oracle-parameterised model + translated operator table + re-parse oracle on closed corpus set",
    "rule": PIPE_RULE + SLOT_RULE + PROGEN_RULE + "ring 2: the `expr` correspondence of C05 (same request stream); `tyfmt` (Luau types), `block` (statement sequences). distinct_nontrivial = distinct expr requests whose output tree differs from the input tree.",
    "trusted_base": ["statement-level grammar preservation is not modelled (tokens untouched => same parse) — covered by ring 3 only"],
    "assumptions": ["Luau type syntax is covered by the closed-set oracle only"],
}

PROPS["C02"] = {
    "lean_modules": ["StyluaModel.Props.C02"],
    "theorem_prefix": "C02_",
    "required_theorems": ["C02_type_meaning", "C02_type_reparses", "C02_type_entry", "C02_type_fresh_context_violates", "C02_expr", "C02_expr_parsed", "C02_expr_at", "C02_cond", "C02_string_51", "C02_string_52", "C02_number"],
    "hx": [["c05"], ["c02t"], ["c08"], ["pipe"], ["slots"], ["progen"]],
    "level": "proof",
    "level_text": "Proof, partial: theorems state that every modelled edit kind preserves meaning for inputs of any size and every layout oracle — parentheses (expression trees, truncation), condition parentheses, string literal values (5.1 and 5.2+ readings), number spelling. Statement order, call sugar and table separators are covered by the independent normal-form oracle on the closed corpus set and by the correspondence, not yet by theorems.",
    "level_note": "Trusted: Lean kernel; models tied by correspondence (expr/strlit protocols); the harness normal form N (harness/src/nf.rs) is an independent checker over full_moon ASTs that never consults StyLua's own verify_ast.",
    "technique": "Lean 4 semantic-preservation proofs over models + independent AST normal-form oracle",
    "rule": PIPE_RULE + SLOT_RULE + PROGEN_RULE + "ring 2: `expr` correspondence (see C05); `tyfmt` / `tywf` (Luau types); `block`. distinct_nontrivial as in C05.",
    "trusted_base": ["normal form N: drops parentheses except truncation in multi-value positions, explicit operator grouping, decoded string values, `.5`->`0.5`, call sugar, table separators, semicolons"],
    "assumptions": ["sort_requires off (C12 covers sorting)"],
}

BLOCK_RULE = ("generated blocks (seeded): 1-5 statements of 11 shapes (local, assignment, call, repeat, do, if, while, function, `(`-prefixed call/assignment, return) written unformatted with unique names, 0-2 leading comment lines drawn from 13 directive spellings (line / block / multi-line block comments, near-miss spellings), optional semicolons and trailing comments, one-line and nested (`do ... end`) layouts, widths {120,60,80,200}; for directive-free programs every statement-aligned range plus open-ended, mid-token, out-of-bounds and inverted ranges. ring 2 (`block` protocol): per statement verbatim/formatted and semicolon bit vs Model/Block.lean. distinct_nontrivial = distinct requests with a directive, a range or a semicolon. ")

PROPS["C08"] = {
    "lean_modules": ["StyluaModel.Props.C08"],
    "theorem_prefix": "C08_",
    "required_theorems": ["C08_region", "C08_single", "C08_verbatim", "C08_others_formatted"],
    "hx": [["c08"]],
    "level": "proof",
    "level_text": "Proof of the block logic: for blocks of any length and any range, exactly the statements in an open `ignore start` region or carrying `stylua: ignore` are skipped, a skipped statement keeps its semicolon and blank lines, statement order is kept. That `format_stmt` returns a skipped statement's own tokens untouched is `stmt.to_owned()` in the code and is checked by the byte-slice oracle, not modelled.",
    "level_note": "Trusted: Lean kernel; Model/Block.lean mirrors format_block / check_toggle_formatting / should_format_node / check_stmt_requires_semicolon and is tied by the `block` correspondence (~2.5e4 requests per run); the harness classifies directive lines by its own reading of the rule (trimmed line equals the directive text).",
    "technique": "Lean 4 induction over statement lists + model/implementation correspondence on generated blocks + byte-slice oracle",
    "rule": BLOCK_RULE + "ring 3: the source slice (with semicolon) of every statement the harness itself classifies as ignored must occur unchanged and in order; every other statement must appear in its formatted form.",
    "trusted_base": ["table-field ignores are covered by the closed corpus set (inputs-ignore) only"],
    "assumptions": [],
}

PROPS["C09"] = {
    "lean_modules": ["StyluaModel.Props.C09"],
    "theorem_prefix": "C09_",
    "required_theorems": ["C09_decide", "C09_inRange", "C09_outside_verbatim", "C09_inside_same", "C09_order", "C09_only_first_stripped", "C09_first_stripped_iff", "C09_eof_untouched"],
    "hx": [["c08"]],
    "level": "proof",
    "level_text": "Proof of the block logic under a range: a statement is formatted iff it lies wholly inside the range, one that does not keeps its semicolon and blank lines, one that does comes out exactly as under whole-file formatting, order is kept — for blocks of any length and all ranges. Byte-level claims (prefix/suffix unchanged, exact text kept) are checked by the oracle on generated programs x all statement-aligned and several unaligned ranges.",
    "level_note": "Trusted: as C08. A compound statement the range cuts into is exempt from the verbatim clause (statements nested in it may lie wholly inside the range and are formatted by design).",
    "technique": "Lean 4 induction over statement lists + correspondence + byte-slice oracle over enumerated ranges",
    "rule": BLOCK_RULE + "ring 3: statements not wholly inside the range keep their exact source slice incl. semicolon; bytes before the first / after the last affected statement unchanged; statements inside equal whole-file formatting; nothing changes when no statement is inside.",
    "trusted_base": [],
    "assumptions": ["position of a statement = byte offsets of its first and last token (full_moon positions)"],
}

SORT_RULE = ("generated top levels (seeded): 2-8 statements drawn from require / GetService locals (12 names incl. duplicates, mixed case, non-ASCII under Luau; sugar-call, multi-line and type-asserted forms), multi-name locals, other statements; blank lines, leading directive/other comments, same-line leading block comments, trailing comments, semicolons; sort option on (7/8) or off; a statement-aligned range in 1/4 of the cases. ring 2 (`sortreq`): output order of statement ids vs Model/SortReq.lean. distinct_nontrivial = requests with sorting on and >= 2 require items. ")

PROPS["C12"] = {
    "lean_modules": ["StyluaModel.Props.C12"],
    "theorem_prefix": "C12_",
    "required_theorems": ["C12_perm", "C12_off", "C12_partition", "C12_blocks", "C12_sorted", "C12_stable", "C12_ignored_group"],
    "hx": [["c12"]],
    "level": "proof",
    "level_text": "Proof: for top levels of any length, the sorter's output is a permutation; the parts are a partition in order, homogeneous in kind; the output is part-by-part a permutation of each part with non-group parts unchanged (so only members of one group exchange places and groups never merge); each sortable group comes out ordered by NAME bytes and stably; a group with an ignored / in-region / out-of-range member is untouched; with the option off nothing moves.",
    "level_note": "Trusted: Lean kernel; Model/SortReq.lean mirrors partition_nodes_into_groups / sort_requires and is tied by the `sortreq` correspondence (~1.1e4 requests per run); Rust's sort_by_key is assumed stable and String order byte-lexicographic (both checked by the correspondence); comment preservation is checked by the census oracle, not modelled.",
    "technique": "Lean 4 proofs (List.Perm, mergeSort sortedness/stability) + correspondence + independent grouping oracle",
    "rule": SORT_RULE + "ring 3: permutation; non-group statements keep their index; each group (harness's own grouping from the property text) keeps its index set, is sorted by NAME bytes stably, or is untouched when it has an ignored / out-of-range member; comment census; re-parse.",
    "trusted_base": [],
    "assumptions": ["only the top-level block is sorted (as documented)"],
}
PROPS["C09"]["hx"] = [["c08"], ["c12"], ["c03"]]
PROPS["C08"]["hx"] = [["c08"], ["c12"]]

TRIVIA_RULE = ("ring 2 (`hangop`, `fieldkey`, `endtoken`, `punct`, `tablefield`, `callarg`, `sugar`): seeded programs with 0-2 comments (line, block, multi-line block) in each gap around a hung operator / a table field key and `=` / a closing token / the comma of a value list / the value of a table field / a call argument / the parentheses of a single-argument call, under tabs or 2-3-4-8 spaces, LF and CRLF output - the bytes the formatter prints there must equal the rendering of the corresponding Lean model. ring 2 (`semi`): seeded statement pairs A;B - A one of 6 kinds with 0-2 trailing comments, the semicolon absent or present on A's line or on a line of its own below 0-2 comment lines, followed by 0-2 comments; B beginning with a parenthesis or not; LF and CRLF output - the bytes between A's last token and B must equal the rendering of Model/Semi.lean given the trailing trivia the formatter gives A alone. ring 2 (`trivia`): seeded leading-trivia sequences (blank lines, indentation, line comments with trailing blanks / interior CR / non-ASCII, block comments of level 0-2 with LF, CRLF and mixed interiors) in LF and CRLF files, formatted under both line_endings; the bytes the real formatter puts in front of the token must equal the model's rendering of load_token_trivia. distinct_nontrivial = requests with at least one comment. ")

PROPS["C03"] = {
    "lean_modules": ["StyluaModel.Props.C03"],
    "theorem_prefix": "C03_",
    "required_theorems": ["C03_load", "C03_text_line", "C03_text_block", "C03_paren_partial", "C03_sort_perm", "C03_eof_comments", "C03_semi_required", "C03_semi_removed", "C03_semi_removed_needs_newline", "C03_semi_swallow_witness", "C03_hang_binop", "C03_hang_binop_fuses_witness", "C03_field_key", "C03_field_key_name_partial", "C03_field_key_name_loses_key_trailing", "C03_end_token", "C03_punct_comma", "C03_sugar_add", "C03_sugar_drop_partial", "C03_sugar_drop_loses_paren_comments", "C03_table_field", "C03_call_arg", "C03_leading_line_safe", "C03_end_token_line_safe", "C03_moved_comments_line_safe"],
    "hx": [["c03"], ["pipe"], ["slots"], ["c12"], ["progen"]],
    "level": "proof",
    "level_text": "Proof, partial: load_token_trivia (through which every token's trivia passes) keeps every comment once, in order, with kind and level, text normalised only by trim_end / newline conversion (theorems for lists of any length); the parenthesis transplant carries a sublist (full preservation is proven false of the code: counterexample theorem); require sorting is a permutation; the trivia of a kept, added or dropped semicolon (format_block) carries every comment of the statement and of the semicolon once and in order - given the statement's trailing trivia ends with its newline, and with the same-line swallowing by a trailing line comment exhibited as a computed witness (D23 family); hang_binop gathers the comments around a hung operator once and in order (with the fusing of a trailing comment into a preceding line comment as a computed witness); the comments around a table field's key and `=` are all moved in front of a bracketed key, and all but those behind the key for a name key (proved partial statement + witness: D29, whose mechanism - Node::surrounding_trivia on a one-token node - the correspondence exposed); format_end_token keeps every comment in front of a closing token while removing the blank lines; the leading trivia of every formatted token, and of a closing token after that removal, is line-safe (no line comment in it can swallow the token: `C03_leading_line_safe`, `C03_end_token_line_safe`). That every construct routes every token through these functions is carried by the comment-slot enumeration (every token gap of 60 constructs) and the corpus census, whose unchanged-tree failures are listed exactly.",
    "level_note": "Trusted: Lean kernel; Model/Trivia.lean tied by the `trivia` correspondence (~1.4e4 requests per run), Model/Semi.lean by the `semi` correspondence (the bytes between a statement and its successor, for 6 statement kinds x comments before / after the semicolon x required or not x both line endings; ~3e3 distinct requests); census oracle uses full_moon's tokenizer on input and output. Model/HangOp.lean (hang_binop: comments in front of / behind a hung operator and in front of its right operand) by the `hangop` correspondence (6 operators x 0-2 comments per slot x nesting x both line endings; ~4e3 distinct requests, bytes between the operands). Model/HangOp.lean `FieldKey` (comments around a table field's key and `=`; name and bracketed keys) by the `fieldkey` correspondence (~4e3 distinct requests, bytes in front of the key). Model/EndToken.lean (format_end_token: comments and blank lines in front of `end` / a closing token of do, while, for, function and if blocks) by the `endtoken` correspondence (~3e3 distinct requests). Model/HangOp.lean `Punct` (format_punctuated_multiline: the comma of a one-value-per-line list in `return` and local assignments) by the `punct` correspondence (~4e3 distinct requests). Model/HangOp.lean `Sugar` (parentheses dropped / added around a single string or empty-table argument; D5 as proved partial statement + witness) by the `sugar` correspondence (~2e3 distinct requests). Model/HangOp.lean `TableField` (what follows a field's value in a multi-line table: block comments stay, line comments move behind the written or added separator) by the `tablefield` correspondence (~2e3 distinct requests). Model/HangOp.lean `CallArg` (format_contained_punctuated_multiline: what follows an argument of a multi-line argument list) by the `callarg` correspondence (~1.6e3 distinct requests). Remaining unmodelled transplant sites: function parameter lists with type annotations, Luau type lists, non-empty table arguments' inner trivia: they are covered by ring 3 only.",
    "technique": "Lean 4 proofs on the trivia loader and on nine comment-transplant sites (models tied byte-for-byte by correspondence) + comment-slot enumeration + census oracle",
    "rule": TRIVIA_RULE + PIPE_RULE + SLOT_RULE,
    "trusted_base": ["comment census: multiset of (kind, level, text) with line comments trimmed at the end and CRLF->LF inside block comments"],
    "assumptions": ["block-comment theorem assumes no lone carriage return in the comment"],
}

PROPS["C10"] = {
    "lean_modules": ["StyluaModel.Props.C10"],
    "theorem_prefix": "C10_",
    "required_theorems": ["C10_created_ws", "C10_line_comment_clean", "C10_block_lf", "C10_block_crlf", "C10_eof_one_newline", "C10_end_token_no_blank"],
    "hx": [["c03"], ["pipe"], ["slots"]],
    "level": "proof",
    "level_text": "Proof, partial: the trivia loader never copies input whitespace (every whitespace token it returns is a created newline / indent / single space), a formatted line comment or shebang never ends in whitespace (no stray CR from CRLF input), block-comment and long-string interiors contain only the configured ending (given no lone CR). That all ~150 sites that build whitespace use these constructors is carried by the whitespace scan of every output of the closed set (corpus in LF/CRLF/mixed x both endings x both indent types), not by a theorem.",
    "level_note": "Trusted: Lean kernel; Model/Trivia.lean tied by the `trivia` correspondence; scan masks string-literal contents (line endings) and block-comment interiors (indentation), per the property's exclusions; files with ignore directives are excluded from the scan.",
    "technique": "Lean 4 proofs on whitespace constructors and comment text + whitespace scan oracle",
    "rule": TRIVIA_RULE + PIPE_RULE + SLOT_RULE,
    "trusted_base": [],
    "assumptions": ["indentation clause: block-comment interiors are literal text"],
}

PROPS["C11"] = {
    "lean_modules": ["StyluaModel.Props.C11"],
    "theorem_prefix": "C11_",
    "required_theorems": ["C11_force", "C11_auto", "C11_call_always", "C11_call_input", "C11_call_omit", "C11_call_other", "C11_space", "C11_omit_modes"],
    "hx": [["c11"], ["pipe"], ["slots"]],
    "level": "proof",
    "level_text": "Proof of the decision logic stated outright: forced quotes; preferred quote unless the other needs strictly fewer escapes (for bodies of any length); the call-parentheses table for all five modes, every written form and both next-suffix cases; the spacing table. That the options are consulted on every layout path is carried by the exhaustive `callform`/`fnspace`/`strlit` correspondence (two widths) and by the option-rule oracle applied to every output of the closed corpus and slot sets under every option value.",
    "level_note": "Trusted: Lean kernel; Model/CallArgs.lean and Model/StrLit.lean tied by correspondence (6 240 call-form cases, 781 bodies x 4 styles); the oracle walks re-parsed output with full_moon's Visitor; files with ignore directives are excluded from the oracle; a `(` after generic parameters is exempt from the spacing rule (the decision sits before `<`).",
    "technique": "Lean 4 decision tables + exhaustive correspondence + option-rule oracle on closed sets",
    "rule": "ring 2: 5 modes x 16 written call forms (single string / table / other / several / no arguments, short, over-width, multi-line, long-bracket) x 5 next suffixes x 3 prefixes x 3 statement positions x 2 widths; 4 spacing modes x 7 sites; 781 string bodies over {',\",\\,a,n} up to length 4 x 2 input quotes x 4 styles. distinct_nontrivial = call-form requests about a single string/table argument or sugar form + string bodies with quotes/backslashes. " + PIPE_RULE + SLOT_RULE,
    "trusted_base": [],
    "assumptions": [],
}

PROPS["C06"] = {
    "lean_modules": ["StyluaModel.Props.C06"],
    "theorem_prefix": "C06_",
    "required_theorems": ["C06_strlit", "C06_number", "C06_semicolon", "C06_sort", "C06_comment_text", "C06_paren_idem", "C06_paren_idem_faithful", "C06_paren_not_idempotent", "C06_table_multi_stable", "C06_table_single_stable", "C06_table_growth_witness", "C06_trivia", "C06_trivia_trailing", "C06_end_token_scan"],
    "hx": [["pipe"], ["slots"], ["c05"], ["c06t"], ["c08"]],
    "level": "proof",
    "level_text": "Proof, partial — the property the technique serves least: idempotence theorems for every decision mechanism that has a model (string and number rewriting, semicolon decisions, sorted require groups, comment text, the leading-trivia loader applied to its own re-tokenised output: blank-line runs, comment lines), and a proven counterexample for the parenthesis rule (`(- -f())`, found by evaluating the model). Whether the second pass takes the same layout path as the first is a fact about Shape arithmetic and ~40 heuristics that are not modelled: it is checked on the closed sets only (corpus x 79 configurations, width sweep 1..130 of catalogue one-liners, comment-slot enumeration), whose unchanged-tree failures are listed exactly.",
    "level_note": "Trusted: Lean kernel; models tied by their own correspondences (C04, C05, C08, C12, C03 protocols); byte comparison format(format(p)) = format(p) on the real library.",
    "technique": "Lean 4 idempotence proofs per mechanism + byte-for-byte idempotence oracle on closed sets incl. width sweeps",
    "rule": PIPE_RULE + SLOT_RULE + "ring 2: `expr` correspondence (C05); `tabledec` (the table layout decision measured on the input AST vs observed in the output, random spacings x widths around the threshold).",
    "trusted_base": ["layout-path stability is not modelled"],
    "assumptions": [],
}

PROPS["C07"] = {
    "lean_modules": ["StyluaModel.Props.C07"],
    "theorem_prefix": "C07_",
    "required_theorems": ["C07_sites_classified", "C07_cost_exp", "C07_poly_calls", "C07_models_total"],
    "hx": [["c07"], ["pipe"], ["slots"], ["c08"], ["progen"]],
    "level": "proof",
    "level_text": "Proof, partial: (i) the inventory of panic-capable sites of the library is regenerated from the source on every run and must equal the hand-classified list (a new unwrap / panic! / assert! breaks the theorem); (ii) cost recurrences for nested inputs (exponential for nested method chains - a known finding -, quadratic for nested calls), tied to the code by hook counters; (iii) all mirrored decision procedures are total Lean functions. Stack depth, allocation and wall time are runtime behaviour a model cannot exhibit: they are exercised by the oracle (corpus, comment-slot set, truncated / spliced / junk-injected inputs x extreme configurations x degenerate ranges x verification on/off) with panics identified by site.",
    "level_note": "Trusted: Lean kernel; translator's site extraction (regex over /repo/src, test modules and src/cli excluded); the textual justifications in Model/PanicClass.lean; hook counters (lib.rs `pub mod verif`, --cfg stylua_verif). The cost correspondence is one-sided (doing less work than modelled is not a violation).",
    "technique": "translated panic-site inventory + Lean cost recurrences + hook counters + panic/timeout oracle on valid and malformed inputs",
    "rule": "ring 2 (`cost`): format_function_call invocations for nested method chains / nested calls of depth 0..11 (hook counter) <= Model/Cost.lean. distinct_nontrivial = depths >= 2. ring 3: 367 corpus files x 6 seeded variants (truncate, splice, junk token, CRLF+tabs, unchanged) x 8 extreme configurations (width 1, 2, 80, usize::MAX; indent 1, 16) x 6 range shapes (empty, inverted, out of bounds, open-ended) x verify on/off: no panic (signature = panic site), Ok iff the input parses, time budget; deterministic superlinearity test (formatter entries per input byte); plus every case of the closed corpus and slot sets. " + PIPE_RULE,
    "trusted_base": ["panics inside the full_moon parser are grouped into one known finding (its code cannot change with /repo)"],
    "assumptions": ["nesting depth of function bodies is capped at 6 in the harness: deeper nesting overflows a 2 MB stack in unoptimised builds, an artefact of the build profile"],
}

PROPS["C19"] = {
    "lean_modules": ["StyluaModel.Props.C19"],
    "theorem_prefix": "C19_",
    "required_theorems": ["C19_ops", "C19_exit_any_schedule"],
    "py": [cli.c19],
    "needs_cli": True,
    "level": "proof",
    "level_text": "Proof over the atomic operations that the translator re-extracts from src/cli/main.rs on every run: the diff handler is one fetch_max(1), the logger one store(2); for every number of diff and error reports and every order in which they take effect the final status is 2 if any error, else 1 if any diff, else 0 (induction over the permutation). The racy load/compare/store of the pinned code is shown to violate this by computation, and was replayed on the binary through the schedule hook before it was repaired.",
    "level_note": "Trusted: Lean kernel; the translator's extraction of EXIT_CODE operations (regex over main.rs); the mapping of Rust SeqCst atomics to atomic model steps. File contents are checked by the thread sweep only (workers write disjoint files).",
    "technique": "translated atomic-operation list + Lean proof over all orderings + forced schedules through a hook + thread-count sweep",
    "rule": "ring 2 (`exit`): 3 forced interleavings of {diff handler, walker error} x 4 output formats on the real binary (schedule hook) vs exec of the extracted operation lists. ring 3: exit status 2 under every forced schedule; --num-threads in {1,2,3,4,8,16} (thorough: 1..16) x {check, write} x repetitions on a tree with unformatted, formatted, unparseable files and a missing path: identical exit status, file contents and diff set.",
    "trusted_base": [],
    "assumptions": [],
}

RUN_RULE = ("generated argument lists (seeded): 1-5 files of kinds formatted / unformatted / unparseable / not UTF-8 / rejected by --verify / missing path, in sub-directories, in shuffled order, with and without --num-threads and --verify. ring 2 (`run`): exit status, set of modified files and set of files with a diff vs Model/Run.lean. distinct_nontrivial = all distinct outcome vectors. ")

PROPS["C13"] = {
    "lean_modules": ["StyluaModel.Props.C13"],
    "theorem_prefix": "C13_",
    "required_theorems": ["C13_no_writes", "C13_diff_iff", "C13_exit"],
    "py": [cli.c13],
    "needs_cli": True,
    "level": "proof",
    "level_text": "Proof on the run model: check mode writes nothing; a diff is reported for exactly the differing files; the exit status is 2 iff some file failed, else 1 iff some differs, else 0 - for every order in which workers complete (through the C19 theorem). Partial with respect to the operating system: that no file is created, modified or touched is observed (bytes, mtime, inode of every file before/after) rather than proven.",
    "level_note": "Trusted: Lean kernel; Model/Run.lean tied by the `run` correspondence on generated trees; snapshot comparison for the no-write clause; unreadable files are simulated by invalid UTF-8 (the sandbox runs as root, so permission bits do not bite); the unified format carries no file name, so only the number of diffs is compared.",
    "technique": "Lean 4 decision-logic proof lifted over completion orders + CLI runs on generated trees with file-system snapshots",
    "rule": RUN_RULE + "x 4 output formats in check mode. ring 3: no file touched/created; exit status per the property; diff set.",
    "trusted_base": [],
    "assumptions": [],
}
PROPS["C14"] = {
    "lean_modules": ["StyluaModel.Props.C13"],
    "theorem_prefix": "C14_",
    "required_theorems": ["C14_writes", "C14_exit2"],
    "py": [cli.c14],
    "needs_cli": True,
    "level": "proof",
    "level_text": "Proof on the run model: in write mode exactly the differing files are replaced (by their complete formatted text), failing and already-formatted files are not written, every selected file is processed whatever the completion order, exit status 2 iff some file failed. Partial: atomicity of fs::write under a crash and early `?` returns of the walker (a malformed configuration met mid-walk) are outside the model; file contents, mtimes and inodes are observed.",
    "level_note": "Trusted: as C13. Read-only files cannot be simulated as root. The verification-failing specimen is `-((-x))`, which StyLua's own verifier rejects.",
    "technique": "Lean 4 decision-logic proof + CLI runs on generated trees with file-system snapshots",
    "rule": RUN_RULE + "x 2 output formats in write mode. ring 3: differing files equal their known formatted text, all other files keep bytes, mtime and inode, nothing is created, exit status.",
    "trusted_base": [],
    "assumptions": [],
}

PROPS["C18"] = {
    "lean_modules": ["StyluaModel.Props.C18"],
    "theorem_prefix": "C18_",
    "required_theorems": ["C18_json_partial", "C18_json", "C18_json_as_indexed", "C18_none_iff", "C18_ranges", "C18_unified", "C18_unified_none", "C18_unified_printed", "C18_header_roundtrip", "C18_unified_fixed", "C18_unified_fix_conservative", "C18_unified_pinned_violates"],
    "py": [cli.c18],
    "needs_cli": True,
    "level": "proof",
    "level_text": "Proof for the JSON producer (StyLua's own code): for every valid edit script over files of any length the mismatches, applied as line-range replacements, yield exactly the new text (the code records every inserted / deleted line since fix 4e60dbe; for the code as pinned - first line only - the statement held only when pure insertions were one line long, `C18_json_partial`, with `C18_pinned_violates` as the witness); no mismatch iff nothing differs; reported ranges are the script's. The unified format: Model/Unified.lean mirrors the code of the `similar` crate that `output_diff_unified` calls (group_diff_ops with its head / tail trimming and splitting of long equal runs, hunk headers incl. the empty-range and length-1 spellings, hunk bodies, the missing-newline marker), and `C18_unified` proves that a strict patch applier (every context / deleted line present where the header says, all four header numbers consistent with the body and with the output position, no fuzz) accepts these hunks and reproduces the new file - for every valid script, files of any length and every context radius (`C18_unified_fixed`: the code renumbers similar's operations since fix a2545ec; for the pinned code the statement needed in-order index fields, and `C18_unified_pinned_violates` is the real counterexample, tests/inputs/table-6.lua); nothing printed => files equal, a script with a change => a hunk is printed. The edit script itself (Myers + compaction inside `similar`) is a parameter of both models; the summary format is checked by the oracle only.",
    "level_note": "Trusted: Lean kernel; Model/Diff.lean tied by the `diffjson` correspondence and Model/Unified.lean by the `diffuni` correspondence (the bytes the binary prints must equal the model's rendering of the hunks for the script `similar` computed, and the model's strict applier must accept them - so scripts with stale index fields, which the theorem's hypothesis excludes, are still decided); edit scripts computed with the same `similar` version through the harness; `ratio() == 1.0` is modelled with exact arithmetic (f32 rounding not modelled); independent Python appliers for JSON and unified diffs; a multi-line pure insertion has not been observed between a file and its formatted form (count reported in the evidence).",
    "technique": "Lean 4 induction over edit scripts (JSON mismatches; unified hunks through a loop invariant of similar's grouping) + byte-for-byte correspondence with the real JSON / unified output + independent diff appliers as oracle",
    "rule": "40 (thorough 120) seeded corpus files + 10 special pairs (no final newline, CRLF, first / last line changes, 14 separated hunks, multi-line expansion and deletion, blank lines, already formatted, empty) x 4 output formats. ring 2 (`diffjson`): line ranges and line contents of every reported mismatch vs Model/Diff.lean; (`diffuni`): the complete stdout of `--check --output-format unified` vs the rendering of Model/Unified.lean's hunks, plus the model's strict applier on them. ring 3: applying the JSON mismatches / the unified diff to the original gives the library's output byte for byte; a diff is printed iff the file differs (all formats). distinct_nontrivial = distinct scripts.",
    "trusted_base": [],
    "assumptions": [],
}

PROPS["C15"] = {
    "lean_modules": ["StyluaModel.Props.C15"],
    "theorem_prefix": "C15_",
    "required_theorems": ["C15_memo", "C15_walk", "C15_forced", "C15_precedence", "C15_overrides_last"],
    "py": [cli.c15],
    "needs_cli": True,
    "level": "proof",
    "level_text": "Proof on the resolution model: the directory cache is transparent (for any cache that is coherent - in particular the empty one - the cached search returns what the uncached lexical walk returns and stays coherent, so any sequence of files gets per-file answers); for a target written without `.`/`..` the walk is the documented nearest-config search stopping at the working directory; --config-path wins; toml > .editorconfig (unless disabled) > defaults; every command-line format option overrides whatever was found. The lexical treatment of `..` (a known finding) is part of the model and exhibited by a computed witness.",
    "level_note": "Trusted: Lean kernel; Model/Config.lean tied by the `config` correspondence on generated trees (configs of either name at six levels incl. above and beside the cwd, user-level config, --config-path, .editorconfig files, 9 target spellings incl. stdin); toml / ec4rs parsing are parameters (C20 covers decoding); each config file sets a distinct indent width so the applied configuration is read off the output.",
    "technique": "Lean 4 cache-coherence invariant + walk = spec proof + CLI correspondence on generated directory trees",
    "rule": "120 (thorough 400) seeded trees x one target of 9 kinds (relative, ./relative, absolute, ../sibling, absolute sibling, directory, stdin with / without --stdin-filepath) x {--search-parent-directories, --no-editorconfig, --config-path, XDG_CONFIG_HOME, --quote-style override}; plus one invocation over the whole working directory (exercises the cache) and .editorconfig sections chosen by file name over several files of one directory in 6 (24) orders. ring 2 (`config`): applied configuration vs Model/Config.lean. ring 3: the documented rule computed independently for targets inside the cwd; overrides applied; both spellings of an outside target agree.",
    "trusted_base": [],
    "assumptions": ["no configuration files exist above the scratch tree (/verif/.cache/tmp)"],
}

PROPS["C17"] = {
    "lean_modules": ["StyluaModel.Props.C17"],
    "theorem_prefix": "C17_",
    "required_theorems": ["C17_formatted", "C17_parse_error", "C17_passthrough", "C17_no_writes", "C17_ignore_total", "C17_ignore_pinned_panics", "C17_ignore_consulted"],
    "py": [cli.c17],
    "needs_cli": True,
    "level": "proof",
    "level_text": "Proof of the decision logic (the formatter is a parameter): parsing input gives exactly the formatter's text on stdout with status 0, a parse error gives nothing and status 2, an ignored --stdin-filepath under --respect-ignores passes the input through, nothing is written. Partial: buffering, truncation of stdout under process::exit and pipes are runtime behaviour the model cannot exhibit; stdout bytes are compared with the library's output (harness linked against /repo) on 14 inputs incl. a multi-megabyte one.",
    "level_note": "Trusted: Lean kernel; Model/Stdin.lean tied by the `stdin` correspondence; library output obtained through the harness (`hx fmt`) under the configuration the flags denote; file-system snapshot before/after.",
    "technique": "Lean 4 decision logic + byte comparison of stdout with the library output + file-system snapshots",
    "rule": "14 inputs (valid, formatted, invalid, empty, blank lines, spaces only, CRLF blank, tab only, CRLF, no trailing newline, comment only, shebang, non-ASCII, 2 MB (thorough 7 MB)) x {check} x {respect-ignores} x {no / plain / ignored --stdin-filepath} x 5 format-option sets (seeded subsample). ring 2 (`stdin`): kind of stdout (input / formatted / diff / nothing) and exit status vs Model/Stdin.lean. ring 3: stdout equals the library's output byte for byte; nothing on a parse error; pass-through; no file touched.",
    "trusted_base": [],
    "assumptions": [],
}

PROPS["C20"] = {
    "lean_modules": ["StyluaModel.Props.C20"],
    "theorem_prefix": "C20_",
    "required_theorems": ["C20_cli_eq_lib", "C20_lib_has_cli", "C20_overrides_total", "C20_ec_names", "C20_deny_unknown"],
    "py": [cli.c20],
    "needs_cli": True,
    "level": "proof",
    "level_text": "Proof by computation over tables the translator re-extracts from the source on every run: every command-line option enum has exactly the library's variants (conversion is by name), every Config field has a command-line override, .editorconfig spellings are the lower-cased variant names of library variants, unknown fields are denied. That the three carriers produce byte-identical output equal to the library's output for that Config is checked for every option x every documented value (x case variants) on a probe file sensitive to every option; malformed configuration files must exit 2 and modify nothing.",
    "level_note": "Trusted: Lean kernel; the translator (regex extraction from lib.rs, cli/opt.rs, cli/config.rs, editorconfig.rs); toml / clap / ec4rs decoding is exercised, not modelled. README documentation is not parsed (documented values are taken from the enum tables).",
    "technique": "translated option tables + Lean `decide` + carrier equivalence runs against the library output",
    "rule": "10 options x all values (36) x {stylua.toml, flag in 3 case spellings, .editorconfig key in 2 case spellings where it exists} -> output must equal `format_code` under the corresponding Config (harness linked against /repo); 9 kinds of malformed configuration x 2 file names x {discovered, --config-path}: exit status 2, no file modified. ring 2 is the table theorems themselves (one bookkeeping request).",
    "trusted_base": [],
    "assumptions": [],
}

PROPS["C16"] = {
    "lean_modules": ["StyluaModel.Props.C16"],
    "theorem_prefix": "C16_",
    "required_theorems": ["C16_only_selected", "C16_all_selected", "C16_explicit", "C16_once_per_file", "C16_pinned_twice", "C16_rejected_does_not_shadow"],
    "py": [cli.c16],
    "needs_cli": True,
    "level": "proof",
    "level_text": "Proof over a model of StyLua's own selection glue (the walker loop of src/cli/main.rs: seen set, default glob only when no --glob and ignores are respected for that path, explicit paths and --respect-ignores) for every sequence of entries a walker can yield: only selected entries are processed, every selected file is processed, each file once, an explicit file regardless. The `ignore` crate's walker (nested .styluaignore, negations, hidden entries, --glob overrides) is a parameter of the model; an independent emulation of it for a restricted pattern language feeds the model in the correspondence check, and the property itself is evaluated on real runs of the built binary over random trees.",
    "level_note": "Trusted: Lean kernel; the hand-written model (tied by correspondence on random trees x argument lists x options); the crate `ignore` is exercised, not modelled in Lean. The set of processed files is observed in --check --output-format json (one record per processing) and cross-checked against the files whose bytes change in write mode.",
    "technique": "Lean induction over the yielded-entry list + correspondence of the selection glue against the built binary on random trees",
    "rule": "random trees over 15 files (hidden, non-Lua, nested, generated) x .styluaignore at 3 levels (7 patterns incl. negation and directory patterns) x 1-3 arguments from 12 (files, directories, overlapping, two spellings) x 7 glob lists x --respect-ignores x --allow-hidden; each tree is run twice (check-json and write mode); oracle: processed multiset = files changed, no hidden / ignored / non-Lua file processed unless explicit, nothing twice, explicit files always.",
    "trusted_base": [],
    "assumptions": [],
}
