#!/usr/bin/env python3
"""Developer tool: run the relevant checks against every seeded change; writes seeded/MATRIX.json.
usage: tools/seedmatrix.py [id-prefix ...]"""
import subprocess, sys, os, json, time
ROOT = os.path.dirname(os.path.dirname(os.path.abspath(__file__)))
REPO = os.environ.get("VERIF_REPO", "/repo")
LIB = ["C%02d" % i for i in range(1, 13)]
CLI = ["C%02d" % i for i in range(13, 21)]
sel = sys.argv[1:]
out_path = os.path.join(ROOT, "seeded", "MATRIX.json")
matrix = json.load(open(out_path)) if os.path.exists(out_path) else {}
for d in sorted(os.listdir(os.path.join(ROOT, "seeded"))):
    p = os.path.join(ROOT, "seeded", d, "patch.diff")
    if not os.path.exists(p) or (sel and not any(d.startswith(s) for s in sel)):
        continue
    touched = subprocess.run(["git", "apply", "--numstat", p], capture_output=True, text=True, cwd=REPO).stdout
    cli_only = all("src/cli/" in l for l in touched.strip().split("\n"))
    checks = CLI if cli_only else LIB
    assert subprocess.run(["git", "-C", REPO, "status", "--porcelain"], capture_output=True, text=True).stdout.strip() == "", "/repo not clean"
    if subprocess.run(["git", "-C", REPO, "apply", p]).returncode != 0:
        matrix[d] = {"error": "patch does not apply"}
        continue
    row = {}
    try:
        for c in checks:
            t = time.time()
            r = subprocess.run([os.path.join(ROOT, "check"), c], capture_output=True, text=True, cwd=ROOT)
            v = [l for l in r.stdout.split("\n") if l.startswith("VIOLATION")]
            last = r.stdout.strip().split("\n")[-1][:200]
            row[c] = {"rc": r.returncode, "violations": len(v), "first": v[0][:200] if v else "", "summary": last, "wall": round(time.time() - t, 1)}
            print(d, c, r.returncode, len(v), flush=True)
    finally:
        subprocess.run(["git", "-C", REPO, "checkout", "--", "."])
        subprocess.run(["git", "-C", REPO, "clean", "-fdq", "tests/", "src/"])
    matrix[d] = row
    json.dump(matrix, open(out_path, "w"), indent=1, sort_keys=True)
