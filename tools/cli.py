"""CLI-level runners (ring 2 / ring 3 for C13-C20): drive the stylua binary built from /repo's
working tree (.cache/target-cli/release/stylua, with --cfg stylua_verif) on generated
directory trees. Every runner returns (Q, V, S) lists like the Rust harness prints."""
import os, subprocess, tempfile, shutil, json, random, hashlib, stat, time

ROOT = os.path.dirname(os.path.dirname(os.path.abspath(__file__)))
STYLUA = os.path.join(ROOT, ".cache", "target-cli", "release", "stylua")
SCRATCH = os.path.join(ROOT, ".cache", "tmp")

UNFORMATTED = "local   x   =   1\n"
FORMATTED = "local x = 1\n"
UNPARSEABLE = "local = = oops(\n"


class Tree:
    """a scratch directory tree; removed on exit"""
    def __init__(self, files=None):
        os.makedirs(SCRATCH, exist_ok=True)
        self.root = tempfile.mkdtemp(prefix="t", dir=SCRATCH)
        for rel, content in (files or {}).items():
            self.write(rel, content)

    def write(self, rel, content, mode=None):
        p = os.path.join(self.root, rel)
        os.makedirs(os.path.dirname(p), exist_ok=True)
        with open(p, "wb") as f:
            f.write(content if isinstance(content, bytes) else content.encode())
        if mode is not None:
            os.chmod(p, mode)

    def snapshot(self):
        snap = {}
        for d, _, fs in os.walk(self.root):
            for f in fs:
                p = os.path.join(d, f)
                st = os.stat(p)
                try:
                    data = open(p, "rb").read()
                except OSError:
                    data = b"<unreadable>"
                snap[os.path.relpath(p, self.root)] = (hashlib.sha1(data).hexdigest(), st.st_mtime_ns, st.st_ino, data)
        return snap

    def close(self):
        for d, _, fs in os.walk(self.root):
            for f in fs:
                try:
                    os.chmod(os.path.join(d, f), 0o644)
                except OSError:
                    pass
        shutil.rmtree(self.root, ignore_errors=True)

    def __enter__(self):
        return self

    def __exit__(self, *a):
        self.close()


def run(args, cwd, stdin=None, env=None, timeout=60):
    e = dict(os.environ)
    for k in ("XDG_CONFIG_HOME", "STYLUA_LOG", "STYLUA_VERIF_SCHED"):
        e.pop(k, None)
    e["HOME"] = os.path.join(SCRATCH, "nohome")
    e["NO_COLOR"] = "1"
    if env:
        e.update(env)
    p = subprocess.run([STYLUA] + args, cwd=cwd, input=stdin, env=e, stdout=subprocess.PIPE, stderr=subprocess.PIPE, timeout=timeout)
    return p.returncode, p.stdout, p.stderr


def q(req, expected):
    return (req, expected)


def v(prop, sig, detail):
    return (prop, sig, detail)


# ----------------------------------------------------------------------------- C19

def c19(tier, seed):
    Q, V, S = [], [], []
    scheds = {
        "HL": "diff-loaded,diff-store,diff-done,walker-error-pending,walker-error",
        "LH": "walker-error-pending,walker-error,diff-loaded,diff-store,diff-done",
        "HLH": "diff-loaded,walker-error-pending,walker-error,diff-store,diff-done",
    }
    traces = 0
    for fmt in ("standard", "json", "unified", "summary"):
        for name, order in scheds.items():
            with Tree({"a.lua": UNFORMATTED}) as t:
                rc, out, err = run(["--check", "--output-format", fmt, "a.lua", "missing.lua"], t.root, env={"STYLUA_VERIF_SCHED": order})
                traces += 1
                Q.append(q("exit " + name, str(rc)))
                if rc != 2:
                    V.append(v("C19", "error-masked-by-diff:forced-schedule", {"argv": ["--check", "--output-format", fmt, "a.lua", "missing.lua"], "schedule": order, "exit": rc, "expected": 2, "tree": {"a.lua": UNFORMATTED}}))
    # thread sweep: same result for every --num-threads
    files = {"u1.lua": UNFORMATTED, "u2.lua": "x   =   {1,2}\n", "ok.lua": FORMATTED, "bad.lua": UNPARSEABLE, "sub/u3.lua": "f(  )\n"}
    threads = list(range(1, 17)) if tier == "thorough" else [1, 2, 3, 4, 8, 16]
    ref = {}
    for mode in ("check", "write"):
        for n in threads:
            for rep in range(2 if tier == "quick" else 5):
                with Tree(files) as t:
                    args = (["--check"] if mode == "check" else []) + ["--num-threads", str(n), ".", "missing.lua"]
                    rc, out, err = run(args, t.root)
                    snap = {k: v_[0] for k, v_ in t.snapshot().items()}
                    diffs = sorted(l for l in out.decode("utf-8", "replace").split("\n") if l.startswith("Diff in"))
                    obs = (rc, tuple(sorted(snap.items())), tuple(diffs))
                    key = mode
                    traces += 1
                    if key not in ref:
                        ref[key] = (obs, n)
                    elif ref[key][0] != obs:
                        V.append(v("C19", "result-depends-on-thread-count", {"argv": args, "threads": n, "reference_threads": ref[key][1], "exit": rc, "reference_exit": ref[key][0][0], "tree": files}))
                    if rc != 2:
                        V.append(v("C19", "exit-status-not-2:thread-sweep", {"argv": args, "exit": rc, "tree": files}))
    S.append({"c19": {"forced_schedules": len(scheds) * 4, "thread_counts": threads, "traces_validated_against_impl": traces, "oracle_evaluations": traces}})
    return Q, V, S


# ----------------------------------------------------------------------------- C13 / C14

VERIFY_FAIL = "local y = -((-x))\n"   # formats to -(-x); StyLua's own AST verifier rejects it (one paren layer only)
KINDS = {
    "s": FORMATTED,
    "d": UNFORMATTED,
    "p": UNPARSEABLE,
    "u": b"local x = \xff\xfe\n",      # not UTF-8: read_to_string fails
    "v": VERIFY_FAIL,
}
FORMATTED_OF = {"d": FORMATTED}


def _mk_tree(rng, outcomes, verify):
    files = {}
    names = []
    for i, o in enumerate(outcomes):
        sub = ["", "a/", "a/b/", "c/"][rng.randrange(4)]
        name = "%sf%d.lua" % (sub, i)
        names.append(name)
        if o == "m":
            continue
        content = KINDS[o]
        if o in ("d", "s") and rng.random() < 0.3:
            # make files distinguishable
            content = (content if isinstance(content, str) else content.decode()) + ("local   y%d =  %d\n" % (i, i) if o == "d" else "local y%d = %d\n" % (i, i))
        files[name] = content
    return files, names


def _expected_formatted(content):
    # the specimens are built from lines whose formatted form is known
    out = []
    for line in content.split("\n"):
        if line.startswith("local   x"):
            out.append("local x = 1")
        elif line.startswith("local   y"):
            n = line.split("y")[1].split()[0]
            out.append("local y%s = %s" % (n, n))
        else:
            out.append(line)
    return "\n".join(out)


def _diff_ids(fmt, out_text, names):
    ids = set()
    if fmt == "standard":
        for l in out_text.split("\n"):
            if l.startswith("Diff in "):
                p = l[len("Diff in "):].rstrip(":")
                for i, n in enumerate(names):
                    if os.path.normpath(p) == os.path.normpath(n):
                        ids.add(i)
    elif fmt == "json":
        for l in out_text.split("\n"):
            l = l.strip()
            if l.startswith("{") and '"mismatches"' in l:
                try:
                    p = json.loads(l)["file"]
                except Exception:
                    continue
                for i, n in enumerate(names):
                    if os.path.normpath(p) == os.path.normpath(n):
                        ids.add(i)
    elif fmt == "summary":
        for l in out_text.split("\n"):
            for i, n in enumerate(names):
                if os.path.normpath(l.strip()) == os.path.normpath(n):
                    ids.add(i)
    return ids


def c13(tier, seed, modes=("check",)):
    Q, V, S = [], [], []
    rng = random.Random(seed * 7919 + 13)
    n = 600 if tier == "thorough" else 150
    runs = 0
    dist = {}
    for case in range(n):
        k = rng.randrange(1, 6)
        verify = rng.random() < 0.4
        letters = "sdpum" + ("v" if verify else "")
        outcomes = [rng.choice(letters) for _ in range(k)]
        for o in outcomes:
            dist[o] = dist.get(o, 0) + 1
        for mode in modes:
            fmts = ["standard", "json", "unified", "summary"] if mode == "check" else ["standard", "json"]
            for fmt in fmts:
                files, names = _mk_tree(random.Random(seed * 31 + case), outcomes, verify)
                with Tree(files) as t:
                    before = t.snapshot()
                    order = list(range(k))
                    rng.shuffle(order)
                    args = (["--check"] if mode == "check" else []) + ["--output-format", fmt] + (["--verify"] if verify else [])
                    if rng.random() < 0.5:
                        args += ["--num-threads", str(rng.choice([1, 2, 7]))]
                    args += [names[i] for i in order]
                    rc, out, err = run(args, t.root)
                    after = t.snapshot()
                    runs += 1
                    out_text = out.decode("utf-8", "replace")
                    changed = sorted(i for i, nm in enumerate(names) if nm in before and (nm not in after or after[nm][0] != before[nm][0]))
                    touched = sorted(nm for nm in before if nm not in after or after[nm][1:3] != before[nm][1:3])
                    created = sorted(nm for nm in after if nm not in before)
                    detail = {"argv": args, "tree": {k_: (v_ if isinstance(v_, str) else v_.decode("latin1")) for k_, v_ in files.items()}, "exit": rc, "stdout": out_text[:600], "stderr": err.decode("utf-8", "replace")[:600]}
                    # ---- ring 2
                    if fmt == "unified":
                        nd = out_text.count("--- old")
                        dtxt = "n=%d" % nd
                    else:
                        dtxt = ",".join(str(i) for i in sorted(_diff_ids(fmt, out_text, names)))
                    Q.append(q("run %s %s" % (mode, "".join(outcomes)), "%d w:%s d:%s" % (rc, ",".join(str(i) for i in changed), dtxt) if fmt != "unified" else None))
                    if fmt == "unified":
                        Q.pop()
                        exp_n = sum(1 for o in outcomes if o == "d")
                        if nd != exp_n:
                            V.append(v("C13", "unified:number-of-diffs", dict(detail, expected=exp_n, observed=nd)))
                    # ---- ring 3
                    any_err = any(o in "pumv" for o in outcomes)
                    any_diff = any(o == "d" for o in outcomes)
                    if mode == "check":
                        if touched or created:
                            V.append(v("C13", "check-mode-touched-files", dict(detail, touched=touched, created=created)))
                        exp = 2 if any_err else (1 if any_diff else 0)
                        if rc != exp:
                            V.append(v("C13", "check-exit-status", dict(detail, expected=exp)))
                    else:
                        exp = 2 if any_err else 0
                        if rc != exp:
                            V.append(v("C14", "write-exit-status", dict(detail, expected=exp)))
                        for i, (nm, o) in enumerate(zip(names, outcomes)):
                            if o == "m":
                                continue
                            was = before[nm][3]
                            now = after[nm][3] if nm in after else None
                            if o == "d":
                                want = _expected_formatted(was.decode()).encode()
                                if now != want:
                                    V.append(v("C14", "differing-file-not-formatted", dict(detail, file=nm)))
                            else:
                                if now != was:
                                    V.append(v("C14", "failing-or-formatted-file-modified", dict(detail, file=nm, kind=o)))
                                elif after[nm][1:3] != before[nm][1:3]:
                                    V.append(v("C14", "unchanged-file-rewritten", dict(detail, file=nm, kind=o)))
                        if created:
                            V.append(v("C14", "files-created", dict(detail, created=created)))
    S.append({"c13_c14": {"cases": n, "runs": runs, "outcome_distribution": dist, "oracle_evaluations": runs}})
    return Q, V, S


def c14(tier, seed):
    return c13(tier, seed, modes=("write",))
