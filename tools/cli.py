"""CLI-level runners (ring 2 / ring 3 for C13-C20): drive the stylua binary built from /repo's
working tree (.cache/target-cli/release/stylua, with --cfg stylua_verif) on generated
directory trees. Every runner returns (Q, V, S) lists like the Rust harness prints."""
import os, subprocess, tempfile, shutil, json, random, hashlib, stat, time

ROOT = os.path.dirname(os.path.dirname(os.path.abspath(__file__)))
STYLUA = os.path.join(ROOT, ".cache", "target-cli", "release", "stylua")
SCRATCH = os.path.join(ROOT, ".cache", "tmp")

UNFORMATTED = "local   x   =   1\n"
FORMATTED = "local x = 1\n"
UNPARSEABLE = "local = = oops(\n"


class Tree:
    """a scratch directory tree; removed on exit"""
    def __init__(self, files=None):
        os.makedirs(SCRATCH, exist_ok=True)
        self.root = tempfile.mkdtemp(prefix="t", dir=SCRATCH)
        for rel, content in (files or {}).items():
            self.write(rel, content)

    def write(self, rel, content, mode=None):
        p = os.path.join(self.root, rel)
        os.makedirs(os.path.dirname(p), exist_ok=True)
        with open(p, "wb") as f:
            f.write(content if isinstance(content, bytes) else content.encode())
        if mode is not None:
            os.chmod(p, mode)

    def snapshot(self):
        snap = {}
        for d, _, fs in os.walk(self.root):
            for f in fs:
                p = os.path.join(d, f)
                st = os.stat(p)
                try:
                    data = open(p, "rb").read()
                except OSError:
                    data = b"<unreadable>"
                snap[os.path.relpath(p, self.root)] = (hashlib.sha1(data).hexdigest(), st.st_mtime_ns, st.st_ino, data)
        return snap

    def close(self):
        for d, _, fs in os.walk(self.root):
            for f in fs:
                try:
                    os.chmod(os.path.join(d, f), 0o644)
                except OSError:
                    pass
        shutil.rmtree(self.root, ignore_errors=True)

    def __enter__(self):
        return self

    def __exit__(self, *a):
        self.close()


def run(args, cwd, stdin=None, env=None, timeout=60):
    e = dict(os.environ)
    for k in ("XDG_CONFIG_HOME", "STYLUA_LOG", "STYLUA_VERIF_SCHED"):
        e.pop(k, None)
    e["HOME"] = os.path.join(SCRATCH, "nohome")
    e["NO_COLOR"] = "1"
    if env:
        e.update(env)
    p = subprocess.run([STYLUA] + args, cwd=cwd, input=stdin, env=e, stdout=subprocess.PIPE, stderr=subprocess.PIPE, timeout=timeout)
    return p.returncode, p.stdout, p.stderr


def q(req, expected):
    return (req, expected)


def v(prop, sig, detail):
    return (prop, sig, detail)


# ----------------------------------------------------------------------------- C19

def c19(tier, seed):
    Q, V, S = [], [], []
    scheds = {
        "HL": "diff-loaded,diff-store,diff-done,walker-error-pending,walker-error",
        "LH": "walker-error-pending,walker-error,diff-loaded,diff-store,diff-done",
        "HLH": "diff-loaded,walker-error-pending,walker-error,diff-store,diff-done",
    }
    traces = 0
    for fmt in ("standard", "json", "unified", "summary"):
        for name, order in scheds.items():
            with Tree({"a.lua": UNFORMATTED}) as t:
                rc, out, err = run(["--check", "--output-format", fmt, "a.lua", "missing.lua"], t.root, env={"STYLUA_VERIF_SCHED": order})
                traces += 1
                Q.append(q("exit " + name, str(rc)))
                if rc != 2:
                    V.append(v("C19", "error-masked-by-diff:forced-schedule", {"argv": ["--check", "--output-format", fmt, "a.lua", "missing.lua"], "schedule": order, "exit": rc, "expected": 2, "tree": {"a.lua": UNFORMATTED}}))
    # thread sweep: same result for every --num-threads
    files = {"u1.lua": UNFORMATTED, "u2.lua": "x   =   {1,2}\n", "ok.lua": FORMATTED, "bad.lua": UNPARSEABLE, "sub/u3.lua": "f(  )\n"}
    threads = list(range(1, 17)) if tier == "thorough" else [1, 2, 3, 4, 8, 16]
    ref = {}
    for mode in ("check", "write"):
        for n in threads:
            for rep in range(2 if tier == "quick" else 5):
                with Tree(files) as t:
                    args = (["--check"] if mode == "check" else []) + ["--num-threads", str(n), ".", "missing.lua"]
                    rc, out, err = run(args, t.root)
                    snap = {k: v_[0] for k, v_ in t.snapshot().items()}
                    diffs = sorted(l for l in out.decode("utf-8", "replace").split("\n") if l.startswith("Diff in"))
                    obs = (rc, tuple(sorted(snap.items())), tuple(diffs))
                    key = mode
                    traces += 1
                    if key not in ref:
                        ref[key] = (obs, n)
                    elif ref[key][0] != obs:
                        V.append(v("C19", "result-depends-on-thread-count", {"argv": args, "threads": n, "reference_threads": ref[key][1], "exit": rc, "reference_exit": ref[key][0][0], "tree": files}))
                    if rc != 2:
                        V.append(v("C19", "exit-status-not-2:thread-sweep", {"argv": args, "exit": rc, "tree": files}))
    S.append({"c19": {"forced_schedules": len(scheds) * 4, "thread_counts": threads, "traces_validated_against_impl": traces, "oracle_evaluations": traces}})
    return Q, V, S


# ----------------------------------------------------------------------------- C13 / C14

VERIFY_FAIL = "local y = -((-x))\n"   # formats to -(-x); StyLua's own AST verifier rejects it (one paren layer only)
KINDS = {
    "s": FORMATTED,
    "d": UNFORMATTED,
    "p": UNPARSEABLE,
    "u": b"local x = \xff\xfe\n",      # not UTF-8: read_to_string fails
    "v": VERIFY_FAIL,
}
FORMATTED_OF = {"d": FORMATTED}


def _mk_tree(rng, outcomes, verify):
    files = {}
    names = []
    for i, o in enumerate(outcomes):
        sub = ["", "a/", "a/b/", "c/"][rng.randrange(4)]
        name = "%sf%d.lua" % (sub, i)
        names.append(name)
        if o == "m":
            continue
        content = KINDS[o]
        if o == "d" and rng.random() < 0.3:
            content = rng.choice(["local x = 1\r\n", "local x = 1", "local x = 1\n\n", "local x = 1 \n", "do\n    local x = 1\nend\n"])
            files[name] = content
            continue
        if o in ("d", "s") and rng.random() < 0.3:
            # make files distinguishable
            content = (content if isinstance(content, str) else content.decode()) + ("local   y%d =  %d\n" % (i, i) if o == "d" else "local y%d = %d\n" % (i, i))
        files[name] = content
    return files, names


def _expected_formatted(content):
    # the specimens are built from lines whose formatted form is known
    if content in ("local x = 1\r\n", "local x = 1", "local x = 1\n\n", "local x = 1 \n"):
        return "local x = 1\n"
    if content == "do\n    local x = 1\nend\n":
        return "do\n\tlocal x = 1\nend\n"
    out = []
    for line in content.split("\n"):
        if line.startswith("local   x"):
            out.append("local x = 1")
        elif line.startswith("local   y"):
            n = line.split("y")[1].split()[0]
            out.append("local y%s = %s" % (n, n))
        else:
            out.append(line)
    return "\n".join(out)


def _diff_ids(fmt, out_text, names):
    ids = set()
    if fmt == "standard":
        for l in out_text.split("\n"):
            if l.startswith("Diff in "):
                p = l[len("Diff in "):].rstrip(":")
                for i, n in enumerate(names):
                    if os.path.normpath(p) == os.path.normpath(n):
                        ids.add(i)
    elif fmt == "json":
        for l in out_text.split("\n"):
            l = l.strip()
            if l.startswith("{") and '"mismatches"' in l:
                try:
                    p = json.loads(l)["file"]
                except Exception:
                    continue
                for i, n in enumerate(names):
                    if os.path.normpath(p) == os.path.normpath(n):
                        ids.add(i)
    elif fmt == "summary":
        for l in out_text.split("\n"):
            for i, n in enumerate(names):
                if os.path.normpath(l.strip()) == os.path.normpath(n):
                    ids.add(i)
    return ids


def c13(tier, seed, modes=("check",)):
    Q, V, S = [], [], []
    rng = random.Random(seed * 7919 + 13)
    n = 600 if tier == "thorough" else 150
    runs = 0
    dist = {}
    for case in range(n):
        k = rng.randrange(1, 6)
        verify = rng.random() < 0.4
        letters = "sdpum" + ("v" if verify else "")
        outcomes = [rng.choice(letters) for _ in range(k)]
        for o in outcomes:
            dist[o] = dist.get(o, 0) + 1
        for mode in modes:
            fmts = ["standard", "json", "unified", "summary"] if mode == "check" else ["standard", "json"]
            for fmt in fmts:
                files, names = _mk_tree(random.Random(seed * 31 + case), outcomes, verify)
                with Tree(files) as t:
                    before = t.snapshot()
                    order = list(range(k))
                    rng.shuffle(order)
                    args = (["--check"] if mode == "check" else []) + ["--output-format", fmt] + (["--verify"] if verify else [])
                    if rng.random() < 0.5:
                        args += ["--num-threads", str(rng.choice([1, 2, 7]))]
                    args += [names[i] for i in order]
                    rc, out, err = run(args, t.root)
                    after = t.snapshot()
                    runs += 1
                    out_text = out.decode("utf-8", "replace")
                    changed = sorted(i for i, nm in enumerate(names) if nm in before and (nm not in after or after[nm][0] != before[nm][0]))
                    touched = sorted(nm for nm in before if nm not in after or after[nm][1:3] != before[nm][1:3])
                    created = sorted(nm for nm in after if nm not in before)
                    detail = {"argv": args, "tree": {k_: (v_ if isinstance(v_, str) else v_.decode("latin1")) for k_, v_ in files.items()}, "exit": rc, "stdout": out_text[:600], "stderr": err.decode("utf-8", "replace")[:600]}
                    # ---- ring 2
                    if fmt == "unified":
                        nd = out_text.count("--- old")
                        dtxt = "n=%d" % nd
                    else:
                        dtxt = ",".join(str(i) for i in sorted(_diff_ids(fmt, out_text, names)))
                    Q.append(q("run %s %s" % (mode, "".join(outcomes)), "%d w:%s d:%s" % (rc, ",".join(str(i) for i in changed), dtxt) if fmt != "unified" else None))
                    if fmt == "unified":
                        Q.pop()
                        exp_n = sum(1 for o in outcomes if o == "d")
                        if nd != exp_n:
                            V.append(v("C13", "unified:number-of-diffs", dict(detail, expected=exp_n, observed=nd)))
                    # ---- ring 3
                    any_err = any(o in "pumv" for o in outcomes)
                    any_diff = any(o == "d" for o in outcomes)
                    if mode == "check":
                        if touched or created:
                            V.append(v("C13", "check-mode-touched-files", dict(detail, touched=touched, created=created)))
                        exp = 2 if any_err else (1 if any_diff else 0)
                        if rc != exp:
                            V.append(v("C13", "check-exit-status", dict(detail, expected=exp)))
                    else:
                        exp = 2 if any_err else 0
                        if rc != exp:
                            V.append(v("C14", "write-exit-status", dict(detail, expected=exp)))
                        for i, (nm, o) in enumerate(zip(names, outcomes)):
                            if o == "m":
                                continue
                            was = before[nm][3]
                            now = after[nm][3] if nm in after else None
                            if o == "d":
                                want = _expected_formatted(was.decode()).encode()
                                if now != want:
                                    V.append(v("C14", "differing-file-not-formatted", dict(detail, file=nm)))
                            else:
                                if now != was:
                                    V.append(v("C14", "failing-or-formatted-file-modified", dict(detail, file=nm, kind=o)))
                                elif after[nm][1:3] != before[nm][1:3]:
                                    V.append(v("C14", "unchanged-file-rewritten", dict(detail, file=nm, kind=o)))
                        if created:
                            V.append(v("C14", "files-created", dict(detail, created=created)))
    S.append({"c13_c14": {"cases": n, "runs": runs, "outcome_distribution": dist, "oracle_evaluations": runs}})
    return Q, V, S


def c14(tier, seed):
    return c13(tier, seed, modes=("write",))


# ----------------------------------------------------------------------------- C18

HX = os.path.join(ROOT, ".cache", "target", "release", "hx")
DIFF_VARIANT = os.environ.get("VERIF_DIFF_VARIANT", "pinned")


def apply_json(old_lines, mismatches):
    """the Lean `Diff.apply`, on text lines (keeps line endings)"""
    out = []
    cursor = 0
    rest = list(old_lines)
    for m in mismatches:
        keep = max(0, m["original_start_line"] - cursor)
        removed = 0 if m["original"] == "" else m["original_end_line"] - m["original_start_line"] + 1
        out += rest[:keep]
        out.append(m["expected"])
        rest = rest[keep:][removed:]
        cursor = m["original_start_line"] + removed
    out += rest
    return "".join(out)


def apply_unified(old_text, diff_text):
    old = old_text.splitlines(True)
    out = []
    pos = 0
    lines = diff_text.splitlines(True)
    i = 0
    while i < len(lines) and not lines[i].startswith("@@"):
        i += 1
    while i < len(lines):
        h = lines[i]
        import re
        m = re.match(r"@@ -(\d+)(?:,(\d+))? \+(\d+)(?:,(\d+))? @@", h)
        if not m:
            i += 1
            continue
        ostart = int(m.group(1))
        ocount = int(m.group(2)) if m.group(2) is not None else 1
        start0 = ostart - 1 if ocount > 0 else ostart
        out += old[pos:start0]
        pos = start0
        i += 1
        while i < len(lines) and not lines[i].startswith("@@"):
            l = lines[i]
            if l.startswith("\\"):
                # "\ No newline at end of file": strip the newline of the previous emitted/consumed line
                prev = lines[i - 1]
                if prev.startswith("+") or prev.startswith(" "):
                    if out and out[-1].endswith("\n"):
                        out[-1] = out[-1][:-1]
                        if out[-1].endswith("\r"):
                            pass
                i += 1
                continue
            tag, body = l[0], l[1:]
            if tag == " ":
                out.append(old[pos]); pos += 1
            elif tag == "-":
                pos += 1
            elif tag == "+":
                out.append(body)
            i += 1
    out += old[pos:]
    return "".join(out)


_LIB_CACHE = {}


def _lib_format(text, cfgstr=""):
    key = (hashlib.sha1(text.encode()).hexdigest(), cfgstr)
    if key not in _LIB_CACHE:
        _LIB_CACHE[key] = _lib_format_raw(text, cfgstr)
    return _LIB_CACHE[key]


def _lib_format_raw(text, cfgstr=""):
    p = subprocess.run([HX, "fmt", cfgstr], input=text.encode(), stdout=subprocess.PIPE, stderr=subprocess.PIPE)
    return p.stdout.decode("utf-8", "replace")


def c18(tier, seed):
    Q, V, S = [], [], []
    rng = random.Random(seed * 104729 + 18)
    corpus = os.path.join(ROOT, "corpus", "repo-tests")
    pool = []
    for d in ("inputs", "inputs-full_moon"):
        for f in sorted(os.listdir(os.path.join(corpus, d))):
            pool.append(os.path.join(corpus, d, f))
    rng.shuffle(pool)
    pool = pool[: (120 if tier == "thorough" else 40)]
    specials = {
        "no-final-newline": "local   x = 1\nlocal y   = 2",
        "crlf": "local   x = 1\r\nlocal y   = 2\r\n",
        "crlf-only": "local x = 1\r\nlocal y = 2\r\n",
        "trailing-space-only": "local x = 1 \nlocal y = 2\n",
        "tabs-vs-spaces-only": "do\n    local x = 1\nend\n",
        "final-newline-only": "local x = 1",
        "extra-final-newlines": "local x = 1\n\n\n",
        "first-line": "local   a = 1\nlocal b = 2\nlocal c = 3\n",
        "last-line": "local a = 1\nlocal b = 2\nlocal   c = 3\n",
        "many-hunks": "".join("local v%d = %d\n" % (i, i) if i % 3 else "local   v%d =   %d\n" % (i, i) for i in range(40)),
        "multi-line-insert": "local t = { aaaaaaaaaaaaaaaaaaaaaaaaaaaaaa = 1, bbbbbbbbbbbbbbbbbbbbbbbbbbbbbbbbb = 2, ccccccccccccccccccccccccccccccc = 3, ddddddddddddddddddddddd = 4 }\n",
        "multi-line-delete": "local x = {\n\n\n\n1\n\n\n}\nlocal   y = 2\n",
        "blank-lines": "\n\n\nlocal x = 1\n\n\n\nlocal y = 2\n\n\n",
        "already-formatted": "local x = 1\n",
        "empty": "",
    }
    cases = [(os.path.relpath(p, corpus), open(p, encoding="utf-8").read()) for p in pool] + list(specials.items())
    n = 0
    multi_inserts = []
    for name, text in cases:
        with Tree({"f.lua": text}) as t:
            expected = _lib_format(text, "syntax=All")
            if expected.startswith("<parse error>") or expected.startswith("<panic"):
                continue
            t.write("expected.lua", expected)
            detail = {"case": name, "input": text if len(text) < 600 else None}
            # ---- JSON
            rc, out, err = run(["--check", "--output-format", "json", "f.lua"], t.root)
            n += 1
            js = [json.loads(l) for l in out.decode("utf-8", "replace").split("\n") if l.strip().startswith("{")]
            mism = js[0]["mismatches"] if js else []
            if (text == expected) != (not js):
                V.append(v("C18", "json:diff-iff-differs", dict(detail, differs=text != expected, printed=bool(js))))
            p = subprocess.run([HX, "diffops", os.path.join(t.root, "f.lua"), os.path.join(t.root, "expected.lua")], stdout=subprocess.PIPE)
            ops, oids, nids, oljson, nljson = p.stdout.decode().split("\n")[:5]
            old_lines = json.loads(oljson)
            new_lines = json.loads(nljson)
            if js:
                got = apply_json(old_lines, mism)
                if got != expected:
                    V.append(v("C18", "json:does-not-reconstruct", dict(detail, mismatches=mism[:5])))
            # ring 2: ranges and texts vs the model
            idmap = {}
            for l, i in list(zip(old_lines, oids.split(","))) + list(zip(new_lines, nids.split(","))):
                idmap[l] = i
            def ids_of(textblock):
                if textblock == "":
                    return "-"
                return ".".join(idmap.get(l, "?") for l in textblock.splitlines(True))
            impl = ";".join("%d-%d:%d-%d:%s:%s" % (m["original_start_line"], m["original_end_line"], m["expected_start_line"], m["expected_end_line"], ids_of(m["original"]), ids_of(m["expected"])) for m in mism) or "-"
            import re as _re
            for mm in _re.finditer(r"I(\d+)", ops):
                if int(mm.group(1)) > 1:
                    multi_inserts.append(name)
            if len(old_lines) + len(new_lines) < 400:
                Q.append(q("diffjson %s %s %s %s" % (DIFF_VARIANT, ops, oids, nids), impl))
            # ---- unified
            rc, out, err = run(["--check", "--output-format", "unified", "f.lua"], t.root)
            n += 1
            ud = out.decode("utf-8", "replace")
            if (text == expected) != (ud == ""):
                V.append(v("C18", "unified:diff-iff-differs", dict(detail, differs=text != expected)))
            if ud:
                got = apply_unified(text, ud)
                if got != expected:
                    V.append(v("C18", "unified:does-not-reconstruct", dict(detail, diff=ud[:400])))
            # ---- standard / summary: printed iff differs
            for fmt in ("standard", "summary"):
                rc, out, err = run(["--check", "--output-format", fmt, "f.lua"], t.root)
                n += 1
                o = out.decode("utf-8", "replace")
                printed = ("Diff in f.lua" in o) if fmt == "standard" else ("\nf.lua\n" in "\n" + o)
                if printed != (text != expected):
                    V.append(v("C18", fmt + ":diff-iff-differs", dict(detail, differs=text != expected)))
    S.append({"c18": {"pairs": len(cases), "cli_runs": n, "oracle_evaluations": n, "pairs_with_multi_line_pure_insert": multi_inserts}})
    return Q, V, S


# ----------------------------------------------------------------------------- C15

PROBE = 'do\nlocal x = "s"\nend\n'


def _observe_config(text):
    """which configuration was applied, read off the formatted probe"""
    lines = text.split("\n")
    if len(lines) < 2 or not lines[1].lstrip().startswith("local x"):
        return "?", None
    ind = lines[1][: len(lines[1]) - len(lines[1].lstrip())]
    single = "'s'" in lines[1]
    if ind == "\t":
        return "default", single
    if set(ind) == {" "}:
        return str(len(ind)), single
    return "?", single


def c15(tier, seed):
    Q, V, S = [], [], []
    rng = random.Random(seed * 15485863 + 15)
    n = 400 if tier == "thorough" else 120
    levels = ["", "a", "a/cwd", "a/cwd/b", "a/cwd/b/c", "a/x"]   # relative to tree root T
    runs = 0
    dist = {}
    for case in range(n):
        tomls = {}
        ecs = {}
        files = {}
        k = 1
        user_scenario = rng.random() < 0.15   # user-level config is the one that applies
        for lv in levels:
            if rng.random() < 0.35 and not user_scenario:
                k += 1
                name = rng.choice(["stylua.toml", ".stylua.toml"])
                files[os.path.join(lv, name)] = 'indent_type = "Spaces"\nindent_width = %d\n' % k
                tomls[lv] = k
                if rng.random() < 0.15:
                    # both names present: stylua.toml wins
                    other = ".stylua.toml" if name == "stylua.toml" else "stylua.toml"
                    k += 1
                    files[os.path.join(lv, other)] = 'indent_type = "Spaces"\nindent_width = %d\n' % k
                    if other == "stylua.toml":
                        tomls[lv] = k
            if rng.random() < 0.15:
                j = 11 + len(ecs)
                files[os.path.join(lv, ".editorconfig")] = "root = true\n[*.lua]\nindent_style = space\nindent_size = %d\n" % j
                ecs[lv] = j
        for lv in levels:
            files[os.path.join(lv, "f.lua")] = PROBE
        user = None
        forced = None
        extra_env = {}
        args = []
        if rng.random() < 0.25 or user_scenario:
            files["userconf/stylua/stylua.toml"] = 'indent_type = "Spaces"\nindent_width = 21\n'
            user = 21
        if rng.random() < 0.15:
            files["forced/my.toml"] = 'indent_type = "Spaces"\nindent_width = 25\n'
            forced = 25
        spd = rng.random() < 0.35 or user_scenario
        noec = rng.random() < 0.3
        override = rng.random() < (0.6 if user_scenario else 0.3)
        kind = rng.choice(["rel", "rel", "dot", "abs", "dotdot", "abs-outside", "dir", "stdin-path", "stdin"])
        target_lv = rng.choice(["a/cwd", "a/cwd/b", "a/cwd/b/c"])
        with Tree(files) as t:
            T = t.root
            cwd = os.path.join(T, "a/cwd")
            if user:
                extra_env["XDG_CONFIG_HOME"] = os.path.join(T, "userconf")
            if spd:
                args.append("--search-parent-directories")
            if noec:
                args.append("--no-editorconfig")
            if forced:
                args += ["--config-path", os.path.join(T, "forced/my.toml")]
            if override:
                args += ["--quote-style", "ForceSingle"]
            rel_in_cwd = os.path.relpath(os.path.join(T, target_lv, "f.lua"), cwd)
            stdin = None
            out_file = None
            if kind == "rel":
                args.append(rel_in_cwd); lexdir = os.path.dirname(os.path.join(cwd, rel_in_cwd)); out_file = os.path.join(T, target_lv, "f.lua")
            elif kind == "dot":
                p = "./" + rel_in_cwd
                args.append(p); lexdir = os.path.dirname(cwd + "/" + p); out_file = os.path.join(T, target_lv, "f.lua")
            elif kind == "abs":
                p = os.path.join(T, target_lv, "f.lua")
                args.append(p); lexdir = os.path.dirname(p); out_file = p
            elif kind == "dotdot":
                args.append("../x/f.lua"); lexdir = cwd + "/../x"; out_file = os.path.join(T, "a/x/f.lua")
            elif kind == "abs-outside":
                p = os.path.join(T, "a/x/f.lua")
                args.append(p); lexdir = os.path.dirname(p); out_file = p
            elif kind == "dir":
                if target_lv == "a/cwd":
                    target_lv = "a/cwd/b"
                d = os.path.relpath(os.path.join(T, target_lv), cwd)
                # only the file directly in that directory is inspected
                args.append(d); lexdir = os.path.join(cwd, d); out_file = os.path.join(T, target_lv, "f.lua")
            elif kind == "stdin-path":
                args += ["--stdin-filepath", rel_in_cwd, "-"]; stdin = PROBE.encode(); lexdir = os.path.dirname(os.path.join(cwd, rel_in_cwd))
            else:
                args.append("-"); stdin = PROBE.encode(); lexdir = cwd
            rc, out, err = run(args, cwd, stdin=stdin, env=extra_env)
            runs += 1
            dist[kind] = dist.get(kind, 0) + 1
            text = out.decode() if stdin is not None else open(out_file).read()
            obs, single = _observe_config(text)
            strip = lambda p: "/" + os.path.relpath(p, T) if os.path.relpath(p, T) != "." else "/"
            def lex(p):
                # keep `..` components: strip the tree root textually
                assert p.startswith(T)
                r = p[len(T):]
                return r if r else "/"
            req = "config cwd=%s;spd=%d;forced=%s;user=%s;noec=%d;tomls=%s;ecs=%s;dir=%s" % (
                lex(cwd), int(spd), forced or "-", user or "-", int(noec),
                ",".join("%s:%d" % ("/" + lv if lv else "/", i) for lv, i in sorted(tomls.items())) or "-",
                ",".join("%s:%d" % ("/" + lv if lv else "/", i) for lv, i in sorted(ecs.items())) or "-",
                lex(lexdir))
            Q.append(q(req, {"default": "default"}.get(obs, None) or ("forced:%s" % obs if forced and obs == str(forced) else "user:%s" % obs if user and obs == str(user) else "ec:%s" % obs if obs.isdigit() and int(obs) in ecs.values() else "toml:%s" % obs)))
            detail = {"argv": args, "cwd": "a/cwd", "tree": {k_: v_ for k_, v_ in files.items() if not k_.endswith("f.lua")}, "observed": obs, "exit": rc, "stderr": err.decode("utf-8", "replace")[:300]}
            if rc != 0 or obs == "?":
                V.append(v("C15", "run-failed", detail))
                continue
            # ---- ring 3 (documented rule, independent of the model), for targets inside cwd
            if override and single is not True:
                V.append(v("C15", "cli-override-not-applied", detail))
            if not override and single is not False:
                V.append(v("C15", "quote-changed-without-override", detail))
            if kind in ("rel", "dot", "abs", "dir", "stdin-path", "stdin"):
                tdir = "a/cwd" if kind == "stdin" else target_lv
                want = None
                if forced:
                    want = str(forced)
                else:
                    chain = []
                    d = tdir
                    while True:
                        chain.append(d)
                        if d == "a/cwd" and not spd:
                            break
                        if d == "":
                            break
                        d = os.path.dirname(d)
                    for d in chain:
                        if d in tomls:
                            want = str(tomls[d]); break
                    if want is None and spd and user:
                        want = str(user)
                    if want is None and not noec:
                        d = tdir
                        while True:
                            if d in ecs:
                                want = str(ecs[d]); break
                            if d == "":
                                break
                            d = os.path.dirname(d)
                    if want is None:
                        want = "default"
                if obs != want:
                    V.append(v("C15", "wrong-configuration:" + kind, dict(detail, expected=want)))
            elif kind == "dotdot":
                # the two spellings of the same outside file must be treated alike
                open(out_file, "w").write(PROBE)
                args2 = [a if a != "../x/f.lua" else os.path.join(T, "a/x/f.lua") for a in args]
                rc2, out2, err2 = run(args2, cwd, env=extra_env)
                runs += 1
                obs2, _ = _observe_config(open(out_file).read())
                if obs2 != obs:
                    V.append(v("C15", "outside-target:configuration-depends-on-path-spelling", dict(detail, relative_spelling=obs, absolute_spelling=obs2)))
            # ---- one invocation over the whole working directory: every file gets its own configuration
            if kind == "rel" and not forced:
                for lv in ("a/cwd", "a/cwd/b", "a/cwd/b/c"):
                    open(os.path.join(T, lv, "f.lua"), "w").write(PROBE)
                base = [a for a in args if a != rel_in_cwd]
                rc3, out3, err3 = run(base + ["."], cwd, env=extra_env)
                runs += 1
                for lv in ("a/cwd", "a/cwd/b", "a/cwd/b/c"):
                    o3, _ = _observe_config(open(os.path.join(T, lv, "f.lua")).read())
                    lexd = os.path.join(cwd, ".", os.path.relpath(os.path.join(T, lv), cwd)) if lv != "a/cwd" else cwd + "/."
                    req3 = req.rsplit("dir=", 1)[0] + "dir=" + lex(os.path.normpath(lexd) if False else lexd)
                    exp3 = "default" if o3 == "default" else ("user:%s" % o3 if user and o3 == str(user) else "ec:%s" % o3 if o3.isdigit() and int(o3) in ecs.values() else "toml:%s" % o3)
                    Q.append(q(req3, exp3))
    # .editorconfig sections are chosen by file name: several files of one directory in one invocation
    ecfiles = {".editorconfig": "root = true\n[*.lua]\nindent_style = space\nindent_size = 4\n[*_spec.lua]\nindent_size = 2\n[init.lua]\nindent_size = 7\n",
               "src/alpha.lua": PROBE, "src/alpha_spec.lua": PROBE, "src/init.lua": PROBE, "src/beta.lua": PROBE}
    want = {"src/alpha.lua": "4", "src/alpha_spec.lua": "2", "src/init.lua": "7", "src/beta.lua": "4"}
    import itertools
    for order in list(itertools.permutations(sorted(want)))[:: (1 if tier == "thorough" else 4)]:
        with Tree(ecfiles) as t:
            rc, out, err = run(list(order), t.root)
            runs += 1
            for f, w_ in want.items():
                o, _ = _observe_config(open(os.path.join(t.root, f)).read())
                if o != w_:
                    V.append(v("C15", "editorconfig-section-by-file-name", {"argv": list(order), "tree": ecfiles, "file": f, "expected": w_, "observed": o}))
    S.append({"c15": {"cases": n, "runs": runs, "target_kinds": dist, "oracle_evaluations": runs}})
    return Q, V, S


# ----------------------------------------------------------------------------- C17

def c17(tier, seed):
    Q, V, S = [], [], []
    rng = random.Random(seed * 32452843 + 17)
    big = "".join("local   v%d =   { %d,%d }\n" % (i, i, i + 1) for i in range(200000 if tier == "thorough" else 60000))
    inputs = {
        "valid": "local   x   =   1\nprint( x )\n",
        "formatted": "local x = 1\n",
        "invalid": "local = = (\n",
        "empty": "",
        "blank-lines": "\n\n\n",
        "spaces-only": "   \n",
        "crlf-blank": "\r\n\r\n",
        "tab-only": "\t",
        "crlf": "local   x   =   1\r\nprint( x )\r\n",
        "no-trailing-newline": "local   x   =   1",
        "comment-only": "-- c",
        "shebang": "#!/usr/bin/lua\nlocal   x=1\n",
        "unicode": "local s = 'é'\n",
        "big": big,
    }
    runs = 0
    for name, text in inputs.items():
        for check in (False, True):
            for respect in (False, True):
                for path_kind in ("none", "plain", "ignored"):
                    for fmtopt in ([], ["--quote-style", "ForceSingle"], ["--indent-type", "Spaces", "--indent-width", "3"], ["--line-endings", "Windows"], ["--verify"]):
                        if name == "big" and (check or fmtopt or respect):
                            continue
                        if rng.random() < 0.5 and not (name in ("valid", "invalid", "blank-lines")):
                            continue
                        files = {"other.lua": UNFORMATTED, ".styluaignore": "ignored.lua\n", "ignored.lua": UNFORMATTED}
                        with Tree(files) as t:
                            before = t.snapshot()
                            args = (["--check"] if check else []) + (["--respect-ignores"] if respect else []) + fmtopt
                            if path_kind == "plain":
                                args += ["--stdin-filepath", "other.lua"]
                            elif path_kind == "ignored":
                                args += ["--stdin-filepath", "ignored.lua"]
                            args.append("-")
                            rc, out, err = run(args, t.root, stdin=text.encode(), timeout=300)
                            after = t.snapshot()
                            runs += 1
                            cfgstr = "syntax=All"
                            if "--quote-style" in fmtopt:
                                cfgstr += " quote=ForceSingle"
                            if "--indent-type" in fmtopt:
                                cfgstr += " indent=Spaces/3"
                            if "--line-endings" in fmtopt:
                                cfgstr += " eol=Windows"
                            lib = _lib_format(text, cfgstr)
                            parses = not lib.startswith("<parse error>")
                            skipped = respect and path_kind == "ignored"
                            detail = {"argv": args, "stdin": text if len(text) < 300 else "<%d bytes>" % len(text), "exit": rc, "stdout": out.decode("utf-8", "replace")[:300], "stderr": err.decode("utf-8", "replace")[:300]}
                            if {k_: v_[:3] for k_, v_ in before.items()} != {k_: v_[:3] for k_, v_ in after.items()}:
                                V.append(v("C17", "stdin-mode-wrote-files", detail))
                            same = parses and lib == text
                            obs_kind = None
                            if check:
                                obs_kind = "nothing" if out == b"" else "diff"
                            else:
                                if out == b"" and not (parses and lib == "") and not (skipped and text == ""):
                                    obs_kind = "nothing"
                                elif out == text.encode() and (skipped or same):
                                    obs_kind = "input"
                                elif parses and out == lib.encode():
                                    obs_kind = "formatted" if not same else "input"
                                elif out == text.encode():
                                    obs_kind = "input"
                                else:
                                    obs_kind = "other"
                            if name != "big":
                                Q.append(q("stdin %d %d %d %d %d" % (check, respect, path_kind == "ignored", parses, same), "%s %d" % (obs_kind, rc)))
                            # ---- ring 3
                            if not check:
                                if skipped:
                                    if out != text.encode() or rc != 0:
                                        V.append(v("C17", "ignored-stdin-path-not-passed-through", detail))
                                elif not parses:
                                    if out != b"" or rc != 2:
                                        V.append(v("C17", "parse-error:stdout-or-exit", detail))
                                else:
                                    if out != lib.encode():
                                        V.append(v("C17", "stdout-differs-from-library-output", dict(detail, library=lib[:300])))
                                    if rc != 0:
                                        V.append(v("C17", "exit-status", detail))
    S.append({"c17": {"inputs": len(inputs), "runs": runs, "big_input_bytes": len(big), "oracle_evaluations": runs}})
    return Q, V, S
