"""CLI-level runners (ring 2 / ring 3 for C13-C20): drive the stylua binary built from /repo's
working tree (.cache/target-cli/release/stylua, with --cfg stylua_verif) on generated
directory trees. Every runner returns (Q, V, S) lists like the Rust harness prints."""
import os, subprocess, tempfile, shutil, json, random, hashlib, stat, time

ROOT = os.path.dirname(os.path.dirname(os.path.abspath(__file__)))
STYLUA = os.path.join(ROOT, ".cache", "target-cli", "release", "stylua")
SCRATCH = os.path.join(ROOT, ".cache", "tmp")

UNFORMATTED = "local   x   =   1\n"
FORMATTED = "local x = 1\n"
UNPARSEABLE = "local = = oops(\n"


class Tree:
    """a scratch directory tree; removed on exit"""
    def __init__(self, files=None):
        os.makedirs(SCRATCH, exist_ok=True)
        self.root = tempfile.mkdtemp(prefix="t", dir=SCRATCH)
        for rel, content in (files or {}).items():
            self.write(rel, content)

    def write(self, rel, content, mode=None):
        p = os.path.join(self.root, rel)
        os.makedirs(os.path.dirname(p), exist_ok=True)
        with open(p, "wb") as f:
            f.write(content if isinstance(content, bytes) else content.encode())
        if mode is not None:
            os.chmod(p, mode)

    def snapshot(self):
        snap = {}
        for d, _, fs in os.walk(self.root):
            for f in fs:
                p = os.path.join(d, f)
                st = os.stat(p)
                try:
                    data = open(p, "rb").read()
                except OSError:
                    data = b"<unreadable>"
                snap[os.path.relpath(p, self.root)] = (hashlib.sha1(data).hexdigest(), st.st_mtime_ns, st.st_ino, data)
        return snap

    def close(self):
        for d, _, fs in os.walk(self.root):
            for f in fs:
                try:
                    os.chmod(os.path.join(d, f), 0o644)
                except OSError:
                    pass
        shutil.rmtree(self.root, ignore_errors=True)

    def __enter__(self):
        return self

    def __exit__(self, *a):
        self.close()


def run(args, cwd, stdin=None, env=None, timeout=60):
    e = dict(os.environ)
    for k in ("XDG_CONFIG_HOME", "STYLUA_LOG", "STYLUA_VERIF_SCHED"):
        e.pop(k, None)
    e["HOME"] = os.path.join(SCRATCH, "nohome")
    e["NO_COLOR"] = "1"
    if env:
        e.update(env)
    p = subprocess.run([STYLUA] + args, cwd=cwd, input=stdin, env=e, stdout=subprocess.PIPE, stderr=subprocess.PIPE, timeout=timeout)
    return p.returncode, p.stdout, p.stderr


def q(req, expected):
    return (req, expected)


def v(prop, sig, detail):
    return (prop, sig, detail)


# ----------------------------------------------------------------------------- C19

def c19(tier, seed):
    Q, V, S = [], [], []
    scheds = {
        "HL": "diff-loaded,diff-store,diff-done,walker-error-pending,walker-error",
        "LH": "walker-error-pending,walker-error,diff-loaded,diff-store,diff-done",
        "HLH": "diff-loaded,walker-error-pending,walker-error,diff-store,diff-done",
    }
    traces = 0
    for fmt in ("standard", "json", "unified", "summary"):
        for name, order in scheds.items():
            with Tree({"a.lua": UNFORMATTED}) as t:
                rc, out, err = run(["--check", "--output-format", fmt, "a.lua", "missing.lua"], t.root, env={"STYLUA_VERIF_SCHED": order})
                traces += 1
                Q.append(q("exit " + name, str(rc)))
                if rc != 2:
                    V.append(v("C19", "error-masked-by-diff:forced-schedule", {"argv": ["--check", "--output-format", fmt, "a.lua", "missing.lua"], "schedule": order, "exit": rc, "expected": 2, "tree": {"a.lua": UNFORMATTED}}))
    # thread sweep: same result for every --num-threads
    files = {"u1.lua": UNFORMATTED, "u2.lua": "x   =   {1,2}\n", "ok.lua": FORMATTED, "bad.lua": UNPARSEABLE, "sub/u3.lua": "f(  )\n"}
    threads = list(range(1, 17)) if tier == "thorough" else [1, 2, 3, 4, 8, 16]
    ref = {}
    for mode in ("check", "write"):
        for n in threads:
            for rep in range(2 if tier == "quick" else 5):
                with Tree(files) as t:
                    args = (["--check"] if mode == "check" else []) + ["--num-threads", str(n), ".", "missing.lua"]
                    rc, out, err = run(args, t.root)
                    snap = {k: v_[0] for k, v_ in t.snapshot().items()}
                    diffs = sorted(l for l in out.decode("utf-8", "replace").split("\n") if l.startswith("Diff in"))
                    obs = (rc, tuple(sorted(snap.items())), tuple(diffs))
                    key = mode
                    traces += 1
                    if key not in ref:
                        ref[key] = (obs, n)
                    elif ref[key][0] != obs:
                        V.append(v("C19", "result-depends-on-thread-count", {"argv": args, "threads": n, "reference_threads": ref[key][1], "exit": rc, "reference_exit": ref[key][0][0], "tree": files}))
                    if rc != 2:
                        V.append(v("C19", "exit-status-not-2:thread-sweep", {"argv": args, "exit": rc, "tree": files}))
    S.append({"c19": {"forced_schedules": len(scheds) * 4, "thread_counts": threads, "traces_validated_against_impl": traces, "oracle_evaluations": traces}})
    return Q, V, S
