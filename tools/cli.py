"""CLI-level runners (ring 2 / ring 3 for C13-C20): drive the stylua binary built from /repo's
working tree (.cache/target-cli/release/stylua, with --cfg stylua_verif) on generated
directory trees. Every runner returns (Q, V, S) lists like the Rust harness prints."""
import os, subprocess, tempfile, shutil, json, random, hashlib, stat, time

ROOT = os.path.dirname(os.path.dirname(os.path.abspath(__file__)))
STYLUA = os.path.join(ROOT, ".cache", "target-cli", "release", "stylua")
SCRATCH = os.path.join(ROOT, ".cache", "tmp")

UNFORMATTED = "local   x   =   1\n"
FORMATTED = "local x = 1\n"
UNPARSEABLE = "local = = oops(\n"


class Tree:
    """a scratch directory tree; removed on exit"""
    def __init__(self, files=None):
        os.makedirs(SCRATCH, exist_ok=True)
        self.root = tempfile.mkdtemp(prefix="t", dir=SCRATCH)
        for rel, content in (files or {}).items():
            self.write(rel, content)

    def write(self, rel, content, mode=None):
        p = os.path.join(self.root, rel)
        os.makedirs(os.path.dirname(p), exist_ok=True)
        with open(p, "wb") as f:
            f.write(content if isinstance(content, bytes) else content.encode())
        if mode is not None:
            os.chmod(p, mode)

    def snapshot(self):
        snap = {}
        for d, _, fs in os.walk(self.root):
            for f in fs:
                p = os.path.join(d, f)
                st = os.stat(p)
                try:
                    data = open(p, "rb").read()
                except OSError:
                    data = b"<unreadable>"
                snap[os.path.relpath(p, self.root)] = (hashlib.sha1(data).hexdigest(), st.st_mtime_ns, st.st_ino, data)
        return snap

    def close(self):
        for d, _, fs in os.walk(self.root):
            for f in fs:
                try:
                    os.chmod(os.path.join(d, f), 0o644)
                except OSError:
                    pass
        shutil.rmtree(self.root, ignore_errors=True)

    def __enter__(self):
        return self

    def __exit__(self, *a):
        self.close()


def run(args, cwd, stdin=None, env=None, timeout=60):
    e = dict(os.environ)
    for k in ("XDG_CONFIG_HOME", "STYLUA_LOG", "STYLUA_VERIF_SCHED"):
        e.pop(k, None)
    e["HOME"] = os.path.join(SCRATCH, "nohome")
    e["NO_COLOR"] = "1"
    if env:
        e.update(env)
    p = subprocess.run([STYLUA] + args, cwd=cwd, input=stdin, env=e, stdout=subprocess.PIPE, stderr=subprocess.PIPE, timeout=timeout)
    return p.returncode, p.stdout, p.stderr


def q(req, expected):
    return (req, expected)


def v(prop, sig, detail):
    return (prop, sig, detail)


# ----------------------------------------------------------------------------- C19

def c19(tier, seed):
    Q, V, S = [], [], []
    scheds = {
        "HL": "diff-loaded,diff-store,diff-done,walker-error-pending,walker-error",
        "LH": "walker-error-pending,walker-error,diff-loaded,diff-store,diff-done",
        "HLH": "diff-loaded,walker-error-pending,walker-error,diff-store,diff-done",
    }
    traces = 0
    for fmt in ("standard", "json", "unified", "summary"):
        for name, order in scheds.items():
            with Tree({"a.lua": UNFORMATTED}) as t:
                rc, out, err = run(["--check", "--output-format", fmt, "a.lua", "missing.lua"], t.root, env={"STYLUA_VERIF_SCHED": order})
                traces += 1
                Q.append(q("exit " + name, str(rc)))
                if rc != 2:
                    V.append(v("C19", "error-masked-by-diff:forced-schedule", {"argv": ["--check", "--output-format", fmt, "a.lua", "missing.lua"], "schedule": order, "exit": rc, "expected": 2, "tree": {"a.lua": UNFORMATTED}}))
    # thread sweep: same result for every --num-threads
    files = {"u1.lua": UNFORMATTED, "u2.lua": "x   =   {1,2}\n", "ok.lua": FORMATTED, "bad.lua": UNPARSEABLE, "sub/u3.lua": "f(  )\n"}
    threads = list(range(1, 17)) if tier == "thorough" else [1, 2, 3, 4, 8, 16]
    ref = {}
    for mode in ("check", "write"):
        for n in threads:
            for rep in range(2 if tier == "quick" else 5):
                with Tree(files) as t:
                    args = (["--check"] if mode == "check" else []) + ["--num-threads", str(n), ".", "missing.lua"]
                    rc, out, err = run(args, t.root)
                    snap = {k: v_[0] for k, v_ in t.snapshot().items()}
                    diffs = sorted(l for l in out.decode("utf-8", "replace").split("\n") if l.startswith("Diff in"))
                    obs = (rc, tuple(sorted(snap.items())), tuple(diffs))
                    key = mode
                    traces += 1
                    if key not in ref:
                        ref[key] = (obs, n)
                    elif ref[key][0] != obs:
                        V.append(v("C19", "result-depends-on-thread-count", {"argv": args, "threads": n, "reference_threads": ref[key][1], "exit": rc, "reference_exit": ref[key][0][0], "tree": files}))
                    if rc != 2:
                        V.append(v("C19", "exit-status-not-2:thread-sweep", {"argv": args, "exit": rc, "tree": files}))
    # many files, among them pairs with the same stem in one directory and the same name in
    # different directories, all passed explicitly: workers run concurrently on related paths
    many = {}
    for i in range(120):
        many["m%d.lua" % i] = "local   lua_%d   =   {  %d  }\n" % (i, i)
        many["m%d.txt" % i] = "local   txt_%d   =   {  %d  }\n" % (i, i)
        many["d%d/init.lua" % (i % 10)] = "local   init_%d   =   1\n" % (i % 10)
    names = sorted(many)
    refm = None
    for n in ([1, 3, 4, 8, 16] if tier == "quick" else [1, 2, 3, 4, 5, 8, 12, 16]):
        for rep in range(2):
            with Tree(many) as t:
                args = ["--num-threads", str(n)] + names
                rc, out, err = run(args, t.root, timeout=120)
                snap = {k: v_[0] for k, v_ in t.snapshot().items()}
                traces += 1
                obs = (rc, tuple(sorted(snap.items())))
                if refm is None:
                    refm = (obs, n)
                    # the reference itself must be the fully formatted tree
                    bad = [k for k, v_ in t.snapshot().items() if b"   " in v_[3]]
                    if rc != 0 or bad or len(snap) != len(many):
                        V.append(v("C19", "many-files:reference-run-wrong", {"threads": n, "exit": rc, "unformatted": bad[:5], "files": len(snap)}))
                elif obs != refm[0]:
                    extra = sorted(set(snap) - set(many))[:5]
                    V.append(v("C19", "many-files:result-depends-on-thread-count", {"argv": args[:2] + ["<%d files: mN.lua, mN.txt, dK/init.lua>" % len(names)], "threads": n, "exit": rc, "reference_exit": refm[0][0], "unexpected_files": extra, "stderr": err.decode("utf-8", "replace")[:300]}))
    S.append({"c19": {"forced_schedules": len(scheds) * 4, "thread_counts": threads, "traces_validated_against_impl": traces, "oracle_evaluations": traces}})
    return Q, V, S


# ----------------------------------------------------------------------------- C13 / C14

VERIFY_FAIL = "local y = -((-x))\n"   # formats to -(-x); StyLua's own AST verifier rejects it (one paren layer only)
KINDS = {
    "b": "\ufefflocal x = 1\n",  # UTF-8 byte order mark: a parse error for full_moon
    "s": FORMATTED,
    "d": UNFORMATTED,
    "p": UNPARSEABLE,
    "u": b"local x = \xff\xfe\n",      # not UTF-8: read_to_string fails
    "v": VERIFY_FAIL,
}
FORMATTED_OF = {"d": FORMATTED}


def _mk_tree(rng, outcomes, verify):
    files = {}
    names = []
    for i, o in enumerate(outcomes):
        sub = ["", "a/", "a/b/", "c/"][rng.randrange(4)]
        name = "%sf%d.lua" % (sub, i)
        names.append(name)
        if o == "m":
            continue
        content = KINDS[o]
        if o == "d" and rng.random() < 0.3:
            content = rng.choice(["local x = 1\r\n", "local x = 1", "local x = 1\n\n", "local x = 1 \n", "do\n    local x = 1\nend\n"])
            files[name] = content
            continue
        if o in ("d", "s") and rng.random() < 0.3:
            # make files distinguishable
            content = (content if isinstance(content, str) else content.decode()) + ("local   y%d =  %d\n" % (i, i) if o == "d" else "local y%d = %d\n" % (i, i))
        files[name] = content
    return files, names


def _expected_formatted(content):
    # the specimens are built from lines whose formatted form is known
    if content in ("local x = 1\r\n", "local x = 1", "local x = 1\n\n", "local x = 1 \n"):
        return "local x = 1\n"
    if content == "do\n    local x = 1\nend\n":
        return "do\n\tlocal x = 1\nend\n"
    out = []
    for line in content.split("\n"):
        if line.startswith("local   x"):
            out.append("local x = 1")
        elif line.startswith("local   y"):
            n = line.split("y")[1].split()[0]
            out.append("local y%s = %s" % (n, n))
        else:
            out.append(line)
    return "\n".join(out)


def _diff_ids(fmt, out_text, names):
    ids = set()
    if fmt == "standard":
        for l in out_text.split("\n"):
            if l.startswith("Diff in "):
                p = l[len("Diff in "):].rstrip(":")
                for i, n in enumerate(names):
                    if os.path.normpath(p) == os.path.normpath(n):
                        ids.add(i)
    elif fmt == "json":
        for l in out_text.split("\n"):
            l = l.strip()
            if l.startswith("{") and '"mismatches"' in l:
                try:
                    p = json.loads(l)["file"]
                except Exception:
                    continue
                for i, n in enumerate(names):
                    if os.path.normpath(p) == os.path.normpath(n):
                        ids.add(i)
    elif fmt == "summary":
        for l in out_text.split("\n"):
            for i, n in enumerate(names):
                if os.path.normpath(l.strip()) == os.path.normpath(n):
                    ids.add(i)
    return ids


def c13(tier, seed, modes=("check",)):
    Q, V, S = [], [], []
    rng = random.Random(seed * 7919 + 13)
    n = 600 if tier == "thorough" else 150
    runs = 0
    dist = {}
    for case in range(n):
        k = rng.randrange(1, 6)
        verify = rng.random() < 0.4
        letters = "sdpumb" + ("v" if verify else "")
        outcomes = [rng.choice(letters) for _ in range(k)]
        for o in outcomes:
            dist[o] = dist.get(o, 0) + 1
        for mode in modes:
            fmts = ["standard", "json", "unified", "summary"] if mode == "check" else ["standard", "json"]
            for fmt in fmts:
                files, names = _mk_tree(random.Random(seed * 31 + case), outcomes, verify)
                with Tree(files) as t:
                    before = t.snapshot()
                    order = list(range(k))
                    rng.shuffle(order)
                    args = (["--check"] if mode == "check" else []) + ["--output-format", fmt] + (["--verify"] if verify else [])
                    if rng.random() < 0.5:
                        args += ["--num-threads", str(rng.choice([1, 2, 7]))]
                    args += [names[i] for i in order]
                    rc, out, err = run(args, t.root)
                    after = t.snapshot()
                    runs += 1
                    out_text = out.decode("utf-8", "replace")
                    changed = sorted(i for i, nm in enumerate(names) if nm in before and (nm not in after or after[nm][0] != before[nm][0]))
                    touched = sorted(nm for nm in before if nm not in after or after[nm][1:3] != before[nm][1:3])
                    created = sorted(nm for nm in after if nm not in before)
                    detail = {"argv": args, "tree": {k_: (v_ if isinstance(v_, str) else v_.decode("latin1")) for k_, v_ in files.items()}, "exit": rc, "stdout": out_text[:600], "stderr": err.decode("utf-8", "replace")[:600]}
                    # ---- ring 2
                    if fmt == "unified":
                        nd = out_text.count("--- old")
                        dtxt = "n=%d" % nd
                    else:
                        dtxt = ",".join(str(i) for i in sorted(_diff_ids(fmt, out_text, names)))
                    Q.append(q("run %s %s" % (mode, "".join(outcomes).replace("b", "p")), "%d w:%s d:%s" % (rc, ",".join(str(i) for i in changed), dtxt) if fmt != "unified" else None))
                    if fmt == "unified":
                        Q.pop()
                        exp_n = sum(1 for o in outcomes if o == "d")
                        if nd != exp_n:
                            V.append(v("C13", "unified:number-of-diffs", dict(detail, expected=exp_n, observed=nd)))
                    # ---- ring 3
                    any_err = any(o in "pumvb" for o in outcomes)
                    any_diff = any(o == "d" for o in outcomes)
                    if mode == "check":
                        if touched or created:
                            V.append(v("C13", "check-mode-touched-files", dict(detail, touched=touched, created=created)))
                        exp = 2 if any_err else (1 if any_diff else 0)
                        if rc != exp:
                            V.append(v("C13", "check-exit-status", dict(detail, expected=exp)))
                    else:
                        exp = 2 if any_err else 0
                        if rc != exp:
                            V.append(v("C14", "write-exit-status", dict(detail, expected=exp)))
                        for i, (nm, o) in enumerate(zip(names, outcomes)):
                            if o == "m":
                                continue
                            was = before[nm][3]
                            now = after[nm][3] if nm in after else None
                            if o == "d":
                                want = _expected_formatted(was.decode()).encode()
                                if now != want:
                                    V.append(v("C14", "differing-file-not-formatted", dict(detail, file=nm)))
                            else:
                                if now != was:
                                    V.append(v("C14", "failing-or-formatted-file-modified", dict(detail, file=nm, kind=o)))
                                elif after[nm][1:3] != before[nm][1:3]:
                                    V.append(v("C14", "unchanged-file-rewritten", dict(detail, file=nm, kind=o)))
                        if created:
                            V.append(v("C14", "files-created", dict(detail, created=created)))
    S.append({"c13_c14": {"cases": n, "runs": runs, "outcome_distribution": dist, "oracle_evaluations": runs}})
    return Q, V, S


def c14(tier, seed):
    return c13(tier, seed, modes=("write",))


# ----------------------------------------------------------------------------- C18

HX = os.path.join(ROOT, ".cache", "target", "release", "hx")
DIFF_VARIANT = os.environ.get("VERIF_DIFF_VARIANT", "repaired")


def apply_json(old_lines, mismatches):
    """the Lean `Diff.apply`, on text lines (keeps line endings)"""
    out = []
    cursor = 0
    rest = list(old_lines)
    for m in mismatches:
        keep = max(0, m["original_start_line"] - cursor)
        removed = 0 if m["original"] == "" else m["original_end_line"] - m["original_start_line"] + 1
        out += rest[:keep]
        out.append(m["expected"])
        rest = rest[keep:][removed:]
        cursor = m["original_start_line"] + removed
    out += rest
    return "".join(out)


def _in_order(ops):
    """the hypothesis of C18_unified / C18_json_as_indexed: similar's index fields are the running positions"""
    oi = ni = 0
    if ops == "-":
        return True
    import re
    for o in ops.split(","):
        m = re.match(r"([EDIR])(\d+)(?:\.(\d+))?@(\d+):(\d+)$", o)
        k, a, b, xo, xn = m.group(1), int(m.group(2)), int(m.group(3) or 0), int(m.group(4)), int(m.group(5))
        if (xo, xn) != (oi, ni):
            return False
        if k == "E":
            oi += a; ni += a
        elif k == "D":
            oi += a
        elif k == "I":
            ni += a
        else:
            oi += a; ni += b
    return True


def apply_unified(old_text, diff_text):
    old = old_text.splitlines(True)
    out = []
    pos = 0
    lines = diff_text.splitlines(True)
    i = 0
    while i < len(lines) and not lines[i].startswith("@@"):
        i += 1
    while i < len(lines):
        h = lines[i]
        import re
        m = re.match(r"@@ -(\d+)(?:,(\d+))? \+(\d+)(?:,(\d+))? @@", h)
        if not m:
            i += 1
            continue
        ostart = int(m.group(1))
        ocount = int(m.group(2)) if m.group(2) is not None else 1
        ncount = int(m.group(4)) if m.group(4) is not None else 1
        start0 = ostart - 1 if ocount > 0 else ostart
        out += old[pos:start0]
        pos = start0
        i += 1
        # strict, as `patch` is: the header's line counts must be the body's (a mismatch is a malformed diff)
        body = []
        j = i
        while j < len(lines) and not lines[j].startswith("@@"):
            body.append(lines[j]); j += 1
        if sum(1 for l in body if l[:1] in (" ", "-")) != ocount or sum(1 for l in body if l[:1] in (" ", "+")) != ncount:
            return None
        while i < len(lines) and not lines[i].startswith("@@"):
            l = lines[i]
            if l.startswith("\\"):
                # "\ No newline at end of file": strip the newline of the previous emitted/consumed line
                prev = lines[i - 1]
                if prev.startswith("+") or prev.startswith(" "):
                    if out and out[-1].endswith("\n"):
                        out[-1] = out[-1][:-1]
                        if out[-1].endswith("\r"):
                            pass
                i += 1
                continue
            tag, body = l[0], l[1:]
            if tag == " ":
                out.append(old[pos]); pos += 1
            elif tag == "-":
                pos += 1
            elif tag == "+":
                out.append(body)
            i += 1
    out += old[pos:]
    return "".join(out)


_LIB_CACHE = {}


def _lib_format(text, cfgstr=""):
    key = (hashlib.sha1(text.encode()).hexdigest(), cfgstr)
    if key not in _LIB_CACHE:
        _LIB_CACHE[key] = _lib_format_raw(text, cfgstr)
    return _LIB_CACHE[key]


def _lib_format_raw(text, cfgstr=""):
    p = subprocess.run([HX, "fmt", cfgstr], input=text.encode(), stdout=subprocess.PIPE, stderr=subprocess.PIPE)
    return p.stdout.decode("utf-8", "replace")


def c18(tier, seed):
    Q, V, S = [], [], []
    rng = random.Random(seed * 104729 + 18)
    corpus = os.path.join(ROOT, "corpus", "repo-tests")
    pool = []
    for d in ("inputs", "inputs-full_moon"):
        for f in sorted(os.listdir(os.path.join(corpus, d))):
            pool.append(os.path.join(corpus, d, f))
    rng.shuffle(pool)
    pool = pool[: (120 if tier == "thorough" else 40)]
    specials = {
        "no-final-newline": "local   x = 1\nlocal y   = 2",
        "crlf": "local   x = 1\r\nlocal y   = 2\r\n",
        "crlf-only": "local x = 1\r\nlocal y = 2\r\n",
        "trailing-space-only": "local x = 1 \nlocal y = 2\n",
        "tabs-vs-spaces-only": "do\n    local x = 1\nend\n",
        "final-newline-only": "local x = 1",
        "extra-final-newlines": "local x = 1\n\n\n",
        "first-line": "local   a = 1\nlocal b = 2\nlocal c = 3\n",
        "last-line": "local a = 1\nlocal b = 2\nlocal   c = 3\n",
        "many-hunks": "".join("local v%d = %d\n" % (i, i) if i % 3 else "local   v%d =   %d\n" % (i, i) for i in range(40)),
        "multi-line-insert": "local t = { aaaaaaaaaaaaaaaaaaaaaaaaaaaaaa = 1, bbbbbbbbbbbbbbbbbbbbbbbbbbbbbbbbb = 2, ccccccccccccccccccccccccccccccc = 3, ddddddddddddddddddddddd = 4 }\n",
        "multi-line-delete": "local x = {\n\n\n\n1\n\n\n}\nlocal   y = 2\n",
        "blank-lines": "\n\n\nlocal x = 1\n\n\n\nlocal y = 2\n\n\n",
        "already-formatted": "local x = 1\n",
        "huge-one-change": "".join("x = %d\n" % i if i != 60000 else "x   =   %d\n" % i for i in range(120000)),
        "empty": "",
    }
    # the file on which `similar`'s compaction leaves stale index fields (D41, fix a2545ec): always in the pool
    specials["inputs/table-6.lua (stale indices)"] = open(os.path.join(corpus, "inputs", "table-6.lua"), encoding="utf-8").read()
    # ... and the one whose *first* operation is a Delete that compaction shifted (stale new index on the leading
    # operation), plus a synthetic file of that shape
    specials["inputs-full_moon/strings-escape.lua (stale leading delete)"] = open(os.path.join(corpus, "inputs-full_moon", "strings-escape.lua"), encoding="utf-8").read()
    specials["leading-delete-then-duplicate"] = "\n\nprint(\"hello\")\nprint( \"hello\" )\nlocal x = 1\nlocal y = 2\nreturn x + y\n"
    cases = [(os.path.relpath(p, corpus), open(p, encoding="utf-8").read()) for p in pool] + list(specials.items())
    n = 0
    multi_inserts = []
    uni_stats = {"pairs": 0, "in_order": 0, "hunks": 0}
    for name, text in cases:
        with Tree({"f.lua": text}) as t:
            expected = _lib_format(text, "syntax=All")
            if expected.startswith("<parse error>") or expected.startswith("<panic"):
                continue
            t.write("expected.lua", expected)
            detail = {"case": name, "input": text if len(text) < 600 else None}
            # ---- JSON
            rc, out, err = run(["--check", "--output-format", "json", "f.lua"], t.root)
            n += 1
            js = [json.loads(l) for l in out.decode("utf-8", "replace").split("\n") if l.strip().startswith("{")]
            mism = js[0]["mismatches"] if js else []
            if (text == expected) != (not js):
                V.append(v("C18", "json:diff-iff-differs", dict(detail, differs=text != expected, printed=bool(js))))
            p = subprocess.run([HX, "diffops", os.path.join(t.root, "f.lua"), os.path.join(t.root, "expected.lua")], stdout=subprocess.PIPE)
            ops, oids, nids, oljson, nljson = p.stdout.decode().split("\n")[:5]
            old_lines = json.loads(oljson)
            new_lines = json.loads(nljson)
            if js:
                got = apply_json(old_lines, mism)
                if got != expected:
                    V.append(v("C18", "json:does-not-reconstruct", dict(detail, mismatches=mism[:5])))
            # ring 2: ranges and texts vs the model
            idmap = {}
            for l, i in list(zip(old_lines, oids.split(","))) + list(zip(new_lines, nids.split(","))):
                idmap[l] = i
            def ids_of(textblock):
                if textblock == "":
                    return "-"
                return ".".join(idmap.get(l, "?") for l in textblock.splitlines(True))
            impl = ";".join("%d-%d:%d-%d:%s:%s" % (m["original_start_line"], m["original_end_line"], m["expected_start_line"], m["expected_end_line"], ids_of(m["original"]), ids_of(m["expected"])) for m in mism) or "-"
            import re as _re
            for mm in _re.finditer(r"I(\d+)", ops):
                if int(mm.group(1)) > 1:
                    multi_inserts.append(name)
            if len(old_lines) + len(new_lines) < 400:
                Q.append(q("diffjson %s %s %s %s" % (DIFF_VARIANT, ops, oids, nids), impl))
            # ---- unified
            rc, out, err = run(["--check", "--output-format", "unified", "f.lua"], t.root)
            n += 1
            ud = out.decode("utf-8", "replace")
            if (text == expected) != (ud == ""):
                V.append(v("C18", "unified:diff-iff-differs", dict(detail, differs=text != expected)))
            if ud:
                got = apply_unified(text, ud)
                if got != expected:
                    V.append(v("C18", "unified:does-not-reconstruct", dict(detail, diff=ud[:400])))
            # ring 2: the bytes printed vs Model/Unified.lean rendering similar's hunks for this script; the model also
            # runs its strict applier on them (answer `ok`), so a real script the theorem's hypothesis excludes
            # (stale index fields) is still decided by the model
            if len(old_lines) + len(new_lines) < 400:
                texts = {}
                for l, i in list(zip(old_lines, oids.split(","))) + list(zip(new_lines, nids.split(","))):
                    texts[int(i)] = l
                tx = ",".join((texts[i].encode("utf-8").hex() or "-") for i in range(len(texts))) or "-"
                uni_stats["pairs"] += 1
                uni_stats["in_order"] += 1 if _in_order(ops) else 0
                uni_stats["hunks"] += ud.count("\n@@ ")
                Q.append(q("diffuni %s %s %s %s" % (ops, oids, nids, tx), (out.hex() or "-") + " ok"))
            # ---- standard / summary: printed iff differs
            for fmt in ("standard", "summary"):
                rc, out, err = run(["--check", "--output-format", fmt, "f.lua"], t.root)
                n += 1
                o = out.decode("utf-8", "replace")
                printed = ("Diff in f.lua" in o) if fmt == "standard" else ("\nf.lua\n" in "\n" + o)
                if printed != (text != expected):
                    V.append(v("C18", fmt + ":diff-iff-differs", dict(detail, differs=text != expected)))
    # several files in one run, two of them byte-identical and unformatted: every differing file is named exactly once
    # in each format, a JSON record reconstructs *its* file, the unified output has one diff per differing file
    dup = "local M   = {}\nfunction M.add( a,b ) return a+b end\n\n\n\nreturn   M\n"
    multi = {"vendor/a/util.lua": dup, "vendor/b/util.lua": dup, "src/other.lua": "local   x = 1\nreturn   x\n",
             "src/clean.lua": "local x = 1\n", "src/dup2.lua": dup}
    names = sorted(multi)
    expected_of = {k_: _lib_format(t_, "syntax=All") for k_, t_ in multi.items()}
    differing = {i for i, k_ in enumerate(names) if expected_of[k_] != multi[k_]}
    for threads in (["--num-threads", "1"], []):
        with Tree(multi) as t:
            for fmt in ("json", "summary", "standard", "unified"):
                rc, out, err = run(["--check", "--output-format", fmt] + threads + names, t.root)
                n += 1
                o = out.decode("utf-8", "replace")
                detail = {"case": "multi-file", "files": names, "format": fmt, "argv_extra": threads}
                if fmt == "unified":
                    if o.count("--- old\n") != len(differing):
                        V.append(v("C18", "unified:one-diff-per-differing-file", dict(detail, diffs=o.count("--- old\n"), differing=len(differing))))
                    continue
                got = _diff_ids(fmt, o, names)
                if got != differing:
                    V.append(v("C18", fmt + ":lists-exactly-the-differing-files", dict(detail, listed=sorted(names[i] for i in got), differing=sorted(names[i] for i in differing), output=o[:600])))
                if fmt == "json":
                    recs = [json.loads(l) for l in o.split("\n") if l.strip().startswith("{") and '"mismatches"' in l]
                    per_file = {}
                    for r_ in recs:
                        per_file.setdefault(os.path.normpath(r_["file"]), []).append(r_)
                    for k_, rs in per_file.items():
                        if len(rs) != 1:
                            V.append(v("C18", "json:file-reported-more-than-once", dict(detail, file=k_, records=len(rs))))
                        elif k_ in multi and apply_json(multi[k_].splitlines(True), rs[0]["mismatches"]) != expected_of[k_]:
                            V.append(v("C18", "json:does-not-reconstruct", dict(detail, file=k_)))
    S.append({"c18": {"pairs": len(cases), "cli_runs": n, "oracle_evaluations": n, "pairs_with_multi_line_pure_insert": multi_inserts, "unified_model_requests": uni_stats}})
    return Q, V, S


# ----------------------------------------------------------------------------- C15

PROBE = 'do\nlocal x = "s"\nend\n'


def _observe_config(text):
    """which configuration was applied, read off the formatted probe"""
    lines = text.split("\n")
    if len(lines) < 2 or not lines[1].lstrip().startswith("local x"):
        return "?", None
    ind = lines[1][: len(lines[1]) - len(lines[1].lstrip())]
    single = "'s'" in lines[1]
    if ind == "\t":
        return "default", single
    if set(ind) == {" "}:
        return str(len(ind)), single
    return "?", single


def c15(tier, seed):
    Q, V, S = [], [], []
    rng = random.Random(seed * 15485863 + 15)
    n = 400 if tier == "thorough" else 120
    levels = ["", "a", "a/cwd", "a/cwd/b", "a/cwd/b/c", "a/x"]   # relative to tree root T
    runs = 0
    dist = {}
    for case in range(n):
        tomls = {}
        ecs = {}
        files = {}
        k = 1
        user_scenario = rng.random() < 0.15   # user-level config is the one that applies
        for lv in levels:
            if rng.random() < 0.35 and not user_scenario:
                k += 1
                name = rng.choice(["stylua.toml", ".stylua.toml"])
                files[os.path.join(lv, name)] = 'indent_type = "Spaces"\nindent_width = %d\n' % k
                tomls[lv] = k
                if rng.random() < 0.15:
                    # both names present: stylua.toml wins
                    other = ".stylua.toml" if name == "stylua.toml" else "stylua.toml"
                    k += 1
                    files[os.path.join(lv, other)] = 'indent_type = "Spaces"\nindent_width = %d\n' % k
                    if other == "stylua.toml":
                        tomls[lv] = k
            if rng.random() < 0.15:
                j = 11 + len(ecs)
                files[os.path.join(lv, ".editorconfig")] = "root = true\n[*.lua]\nindent_style = space\nindent_size = %d\n" % j
                ecs[lv] = j
        for lv in levels:
            files[os.path.join(lv, "f.lua")] = PROBE
        user = None
        forced = None
        extra_env = {}
        args = []
        uloc = None
        if rng.random() < 0.25 or user_scenario:
            # the four documented user-level locations; $XDG_CONFIG_HOME may be set without holding a StyLua
            # configuration (then $HOME/.config is still consulted); XDG wins when both have one
            uloc = rng.choice(["xdg-stylua", "xdg", "home", "home-stylua", "home+empty-xdg", "home-stylua+missing-xdg", "both"])
            body = 'indent_type = "Spaces"\nindent_width = 21\n'
            if uloc in ("xdg-stylua", "both"):
                files["userconf/stylua/stylua.toml"] = body
            if uloc == "xdg":
                files["userconf/stylua.toml"] = body
            if uloc in ("home", "home+empty-xdg"):
                files["userhome/.config/stylua.toml"] = body
            if uloc in ("home-stylua", "home-stylua+missing-xdg"):
                files["userhome/.config/stylua/stylua.toml"] = body
            if uloc == "both":
                files["userhome/.config/stylua.toml"] = 'indent_type = "Spaces"\nindent_width = 23\n'
            if uloc == "home+empty-xdg":
                files["emptyxdg/unrelated.txt"] = "x\n"
            user = 21
        if rng.random() < 0.15:
            files["forced/my.toml"] = 'indent_type = "Spaces"\nindent_width = 25\n'
            forced = 25
        spd = rng.random() < 0.35 or user_scenario
        noec = rng.random() < 0.3
        override = rng.random() < (0.6 if user_scenario else 0.3)
        kind = rng.choice(["rel", "rel", "dot", "abs", "dotdot", "abs-outside", "dir", "stdin-path", "stdin"])
        target_lv = rng.choice(["a/cwd", "a/cwd/b", "a/cwd/b/c"])
        with Tree(files) as t:
            T = t.root
            cwd = os.path.join(T, "a/cwd")
            if user:
                if uloc in ("xdg-stylua", "xdg", "both"):
                    extra_env["XDG_CONFIG_HOME"] = os.path.join(T, "userconf")
                if uloc == "home+empty-xdg":
                    extra_env["XDG_CONFIG_HOME"] = os.path.join(T, "emptyxdg")
                if uloc == "home-stylua+missing-xdg":
                    extra_env["XDG_CONFIG_HOME"] = os.path.join(T, "no-such-dir")
                if uloc not in ("xdg-stylua", "xdg"):
                    extra_env["HOME"] = os.path.join(T, "userhome")
            if spd:
                args.append("--search-parent-directories")
            if noec:
                args.append("--no-editorconfig")
            if forced:
                args += ["--config-path", os.path.join(T, "forced/my.toml")]
            if override:
                args += ["--quote-style", "ForceSingle"]
            rel_in_cwd = os.path.relpath(os.path.join(T, target_lv, "f.lua"), cwd)
            stdin = None
            out_file = None
            if kind == "rel":
                args.append(rel_in_cwd); lexdir = os.path.dirname(os.path.join(cwd, rel_in_cwd)); out_file = os.path.join(T, target_lv, "f.lua")
            elif kind == "dot":
                p = "./" + rel_in_cwd
                args.append(p); lexdir = os.path.dirname(cwd + "/" + p); out_file = os.path.join(T, target_lv, "f.lua")
            elif kind == "abs":
                p = os.path.join(T, target_lv, "f.lua")
                args.append(p); lexdir = os.path.dirname(p); out_file = p
            elif kind == "dotdot":
                args.append("../x/f.lua"); lexdir = cwd + "/../x"; out_file = os.path.join(T, "a/x/f.lua")
            elif kind == "abs-outside":
                p = os.path.join(T, "a/x/f.lua")
                args.append(p); lexdir = os.path.dirname(p); out_file = p
            elif kind == "dir":
                if target_lv == "a/cwd":
                    target_lv = "a/cwd/b"
                d = os.path.relpath(os.path.join(T, target_lv), cwd)
                # only the file directly in that directory is inspected
                args.append(d); lexdir = os.path.join(cwd, d); out_file = os.path.join(T, target_lv, "f.lua")
            elif kind == "stdin-path":
                args += ["--stdin-filepath", rel_in_cwd, "-"]; stdin = PROBE.encode(); lexdir = os.path.dirname(os.path.join(cwd, rel_in_cwd))
            else:
                args.append("-"); stdin = PROBE.encode(); lexdir = cwd
            rc, out, err = run(args, cwd, stdin=stdin, env=extra_env)
            runs += 1
            dist[kind] = dist.get(kind, 0) + 1
            text = out.decode() if stdin is not None else open(out_file).read()
            obs, single = _observe_config(text)
            strip = lambda p: "/" + os.path.relpath(p, T) if os.path.relpath(p, T) != "." else "/"
            def lex(p):
                # keep `..` components: strip the tree root textually
                assert p.startswith(T)
                r = p[len(T):]
                return r if r else "/"
            req = "config cwd=%s;spd=%d;forced=%s;user=%s;noec=%d;tomls=%s;ecs=%s;dir=%s" % (
                lex(cwd), int(spd), forced or "-", user or "-", int(noec),
                ",".join("%s:%d" % ("/" + lv if lv else "/", i) for lv, i in sorted(tomls.items())) or "-",
                ",".join("%s:%d" % ("/" + lv if lv else "/", i) for lv, i in sorted(ecs.items())) or "-",
                lex(lexdir))
            Q.append(q(req, {"default": "default"}.get(obs, None) or ("forced:%s" % obs if forced and obs == str(forced) else "user:%s" % obs if user and obs == str(user) else "ec:%s" % obs if obs.isdigit() and int(obs) in ecs.values() else "toml:%s" % obs)))
            detail = {"argv": args, "cwd": "a/cwd", "user_config_location": uloc, "tree": {k_: v_ for k_, v_ in files.items() if not k_.endswith("f.lua")}, "observed": obs, "exit": rc, "stderr": err.decode("utf-8", "replace")[:300]}
            if rc != 0 or obs == "?":
                V.append(v("C15", "run-failed", detail))
                continue
            # ---- ring 3 (documented rule, independent of the model), for targets inside cwd
            if override and single is not True:
                V.append(v("C15", "cli-override-not-applied", detail))
            if not override and single is not False:
                V.append(v("C15", "quote-changed-without-override", detail))
            if kind in ("rel", "dot", "abs", "dir", "stdin-path", "stdin"):
                tdir = "a/cwd" if kind == "stdin" else target_lv
                want = None
                if forced:
                    want = str(forced)
                else:
                    chain = []
                    d = tdir
                    while True:
                        chain.append(d)
                        if d == "a/cwd" and not spd:
                            break
                        if d == "":
                            break
                        d = os.path.dirname(d)
                    for d in chain:
                        if d in tomls:
                            want = str(tomls[d]); break
                    if want is None and spd and user:
                        want = str(user)
                    if want is None and not noec:
                        d = tdir
                        while True:
                            if d in ecs:
                                want = str(ecs[d]); break
                            if d == "":
                                break
                            d = os.path.dirname(d)
                    if want is None:
                        want = "default"
                if obs != want:
                    V.append(v("C15", "wrong-configuration:" + kind, dict(detail, expected=want)))
            elif kind == "dotdot":
                # the two spellings of the same outside file must be treated alike
                open(out_file, "w").write(PROBE)
                args2 = [a if a != "../x/f.lua" else os.path.join(T, "a/x/f.lua") for a in args]
                rc2, out2, err2 = run(args2, cwd, env=extra_env)
                runs += 1
                obs2, _ = _observe_config(open(out_file).read())
                if obs2 != obs:
                    V.append(v("C15", "outside-target:configuration-depends-on-path-spelling", dict(detail, relative_spelling=obs, absolute_spelling=obs2)))
            # ---- one invocation over the whole working directory: every file gets its own configuration
            if kind == "rel" and not forced:
                for lv in ("a/cwd", "a/cwd/b", "a/cwd/b/c"):
                    open(os.path.join(T, lv, "f.lua"), "w").write(PROBE)
                base = [a for a in args if a != rel_in_cwd]
                rc3, out3, err3 = run(base + ["."], cwd, env=extra_env)
                runs += 1
                for lv in ("a/cwd", "a/cwd/b", "a/cwd/b/c"):
                    o3, _ = _observe_config(open(os.path.join(T, lv, "f.lua")).read())
                    lexd = os.path.join(cwd, ".", os.path.relpath(os.path.join(T, lv), cwd)) if lv != "a/cwd" else cwd + "/."
                    req3 = req.rsplit("dir=", 1)[0] + "dir=" + lex(os.path.normpath(lexd) if False else lexd)
                    exp3 = "default" if o3 == "default" else ("user:%s" % o3 if user and o3 == str(user) else "ec:%s" % o3 if o3.isdigit() and int(o3) in ecs.values() else "toml:%s" % o3)
                    Q.append(q(req3, exp3))
    # .editorconfig sections are chosen by file name: several files of one directory in one invocation
    ecfiles = {".editorconfig": "root = true\n[*.lua]\nindent_style = space\nindent_size = 4\n[*_spec.lua]\nindent_size = 2\n[init.lua]\nindent_size = 7\n",
               "src/alpha.lua": PROBE, "src/alpha_spec.lua": PROBE, "src/init.lua": PROBE, "src/beta.lua": PROBE}
    want = {"src/alpha.lua": "4", "src/alpha_spec.lua": "2", "src/init.lua": "7", "src/beta.lua": "4"}
    import itertools
    for order in list(itertools.permutations(sorted(want)))[:: (1 if tier == "thorough" else 4)]:
        with Tree(ecfiles) as t:
            rc, out, err = run(list(order), t.root)
            runs += 1
            for f, w_ in want.items():
                o, _ = _observe_config(open(os.path.join(t.root, f)).read())
                if o != w_:
                    V.append(v("C15", "editorconfig-section-by-file-name", {"argv": list(order), "tree": ecfiles, "file": f, "expected": w_, "observed": o}))
    # several targets in one invocation (the directory cache is shared between them): every file must come out exactly as
    # when it is the only target - whatever the order of the arguments, with and without command-line overrides
    multi_runs = 0
    for case in range(40 if tier == "thorough" else 14):
        dirs = ["", "b", "b/c", "d"]
        mfiles = {}
        k = 1
        for d_ in dirs:
            for name in ("f.lua", "g.lua"):
                mfiles[os.path.join(d_, name)] = PROBE
            if rng.random() < 0.5:
                k += 1
                mfiles[os.path.join(d_, rng.choice(["stylua.toml", ".stylua.toml"]))] = 'indent_type = "Spaces"\nindent_width = %d\nquote_style = "AutoPreferDouble"\n' % k
        over = rng.choice([[], ["--quote-style", "ForceSingle"], ["--quote-style", "AutoPreferSingle", "--indent-width", "7"], ["--indent-type", "Tabs"]])
        targets = [f_ for f_ in mfiles if f_.endswith(".lua")]
        rng.shuffle(targets)
        if rng.random() < 0.3:
            targets = ["."]
        with Tree(mfiles) as t:
            rc, out, err = run(over + targets, t.root)
            multi_runs += 1
            got = {f_: open(os.path.join(t.root, f_)).read() for f_ in mfiles if f_.endswith(".lua")}
        for f_ in sorted(got):
            with Tree(mfiles) as t1:
                run(over + [f_], t1.root)
                multi_runs += 1
                alone = open(os.path.join(t1.root, f_)).read()
            if alone != got[f_]:
                V.append(v("C15", "multi-target-differs-from-single-target", {"argv": over + targets, "file": f_, "tree": {k_: v_ for k_, v_ in mfiles.items() if not k_.endswith(".lua")}, "in_one_run": got[f_], "alone": alone}))
    S.append({"c15": {"cases": n, "runs": runs, "target_kinds": dist, "oracle_evaluations": runs}})
    return Q, V, S


# ----------------------------------------------------------------------------- C17

def c17(tier, seed):
    Q, V, S = [], [], []
    rng = random.Random(seed * 32452843 + 17)
    big = "".join("local   v%d =   { %d,%d }\n" % (i, i, i + 1) for i in range(200000 if tier == "thorough" else 60000))
    inputs = {
        "valid": "local   x   =   1\nprint( x )\n",
        "formatted": "local x = 1\n",
        "invalid": "local = = (\n",
        "empty": "",
        "blank-lines": "\n\n\n",
        "spaces-only": "   \n",
        "crlf-blank": "\r\n\r\n",
        "tab-only": "\t",
        "crlf": "local   x   =   1\r\nprint( x )\r\n",
        "no-trailing-newline": "local   x   =   1",
        "comment-only": "-- c",
        "shebang": "#!/usr/bin/lua\nlocal   x=1\n",
        "unicode": "local s = 'é'\n",
        # output lines far longer than any stdio buffer, not first in the file, and one long first line
        "long-line": "local   version=1\nlocal   DATA   =  '" + "0123456789abcdef" * 400 + "'\nreturn   { version = version, data = DATA }\n",
        "long-lines": "".join("local   s%d   =  '%s'\n" % (i, ("%04d" % i) * (300 + 517 * i)) for i in range(6)),
        "big": big,
    }
    runs = 0
    for name, text in inputs.items():
        for check in (False, True):
            for respect in (False, True):
                for path_kind in ("none", "plain", "ignored", "ignored-new-nested", "ignored-existing-nested", "ignored-new-abs", "plain-new-nested", "outside-cwd",
                                  "ignored-by-own-dir", "shadowed-by-own-dir", "intermediate-without-spd", "intermediate-with-spd"):
                    for fmtopt in ([], ["--quote-style", "ForceSingle"], ["--indent-type", "Spaces", "--indent-width", "3"], ["--line-endings", "Windows"], ["--verify"], ["--output-format", "json"]):
                        if name == "big" and (check or fmtopt or respect):
                            continue
                        if rng.random() < 0.5 and not (name in ("valid", "invalid", "blank-lines")):
                            continue
                        if path_kind not in ("none", "plain", "ignored") and (fmtopt or name not in ("valid", "crlf", "no-trailing-newline", "invalid")):
                            continue
                        files = {"proj/other.lua": UNFORMATTED, "proj/.styluaignore": "ignored.lua\nbuild/\nnew-ignored.lua\n", "proj/ignored.lua": UNFORMATTED,
                                 "proj/build/old.lua": UNFORMATTED, "proj/src/keep.lua": UNFORMATTED, "elsewhere/x.lua": UNFORMATTED,
                                 "proj/src/.styluaignore": "gen.lua\ndeep/\n", "proj/src/gen.lua": UNFORMATTED, "proj/src/ignored.lua": UNFORMATTED,
                                 "proj/src/deep/mid/x.lua": UNFORMATTED}
                        with Tree(files) as t:
                            before = t.snapshot()
                            cwd = os.path.join(t.root, "proj")
                            args = (["--check"] if check else []) + (["--respect-ignores"] if respect else []) + fmtopt
                            # the path need not exist (an unsaved editor buffer): what counts is what it is called
                            sp = {"plain": "other.lua", "ignored": "ignored.lua", "ignored-new-nested": "build/new.lua", "ignored-existing-nested": "build/old.lua",
                                  "ignored-new-abs": os.path.join(cwd, "new-ignored.lua"), "plain-new-nested": "src/new.lua",
                                  "outside-cwd": os.path.join(t.root, "elsewhere", "x.lua"),
                                  "ignored-by-own-dir": "src/gen.lua", "shadowed-by-own-dir": "src/ignored.lua",
                                  "intermediate-without-spd": "src/deep/mid/x.lua", "intermediate-with-spd": "src/deep/mid/x.lua"}.get(path_kind)
                            if path_kind == "intermediate-with-spd":
                                args += ["--search-parent-directories"]
                            if sp:
                                args += ["--stdin-filepath", sp]
                            args.append("-")
                            rc, out, err = run(args, cwd, stdin=text.encode(), timeout=300)
                            after = t.snapshot()
                            runs += 1
                            cfgstr = "syntax=All"
                            if "--quote-style" in fmtopt:
                                cfgstr += " quote=ForceSingle"
                            if "--indent-type" in fmtopt:
                                cfgstr += " indent=Spaces/3"
                            if "--line-endings" in fmtopt:
                                cfgstr += " eol=Windows"
                            lib = _lib_format(text, cfgstr)
                            parses = not lib.startswith("<parse error>")
                            # what the property asks (some .styluaignore on the way excludes the path) ...
                            prop_ignored = path_kind.startswith("ignored") or path_kind in ("shadowed-by-own-dir", "intermediate-without-spd", "intermediate-with-spd")
                            # ... and what consulting ONE ignore file gives (Model/Ignore.lean; D37 where they differ)
                            impl_ignored = path_kind.startswith("ignored") or path_kind == "intermediate-with-spd"
                            skipped = respect and prop_ignored
                            detail = {"argv": [a.replace(t.root, "<root>") for a in args], "stdin_filepath_kind": path_kind, "stdin": text if len(text) < 300 else "<%d bytes>" % len(text), "exit": rc, "stdout": out.decode("utf-8", "replace")[:300], "stderr": err.decode("utf-8", "replace")[:300]}
                            if {k_: v_[:3] for k_, v_ in before.items()} != {k_: v_[:3] for k_, v_ in after.items()}:
                                V.append(v("C17", "stdin-mode-wrote-files", detail))
                            same = parses and lib == text
                            obs_kind = None
                            if check:
                                obs_kind = "nothing" if out == b"" else "diff"
                            else:
                                if out == b"" and not (parses and lib == "") and not (skipped and text == ""):
                                    obs_kind = "nothing"
                                elif out == text.encode() and (skipped or same):
                                    obs_kind = "input"
                                elif parses and out == lib.encode():
                                    obs_kind = "formatted" if not same else "input"
                                elif out == text.encode():
                                    obs_kind = "input"
                                else:
                                    obs_kind = "other"
                            IGN = {"ignored": ("0.1.10", "0.1"), "ignored-new-nested": ("0.1.5.11", "0.1"), "ignored-existing-nested": ("0.1.5.12", "0.1"),
                                   "ignored-new-abs": ("0.1.13", "0.1"), "plain": ("0.1.14", "-"), "plain-new-nested": ("0.1.2.15", "-"), "outside-cwd": ("0.6.16", "-"),
                                   "ignored-by-own-dir": ("0.1.2.17", "0.1.2"), "shadowed-by-own-dir": ("0.1.2.10", "0.1"),
                                   "intermediate-without-spd": ("0.1.2.3.4.16", "0.1.2"), "intermediate-with-spd": ("0.1.2.3.4.16", "0.1.2")}
                            if respect and not check and parses and not same and path_kind in IGN and name == "valid" and not fmtopt:
                                pth, ms = IGN[path_kind]
                                Q.append(q("ignore repaired 0.1 %d %s 0.1,0.1.2 %s" % (path_kind == "intermediate-with-spd", pth, ms),
                                           "ignored" if out == text.encode() else ("notIgnored" if out == lib.encode() else "other:%d" % rc)))
                            if name != "big":
                                Q.append(q("stdin %d %d %d %d %d" % (check, respect, impl_ignored, parses, same), "%s %d" % (obs_kind, rc)))
                            # ---- ring 3
                            if not check:
                                if skipped:
                                    if out != text.encode() or rc != 0:
                                        V.append(v("C17", "ignored-stdin-path-not-passed-through" + ("" if impl_ignored else ":another-ignore-file-consulted"), detail))
                                elif not parses:
                                    if out != b"" or rc != 2:
                                        V.append(v("C17", "parse-error:stdout-or-exit", detail))
                                else:
                                    if out != lib.encode():
                                        V.append(v("C17", "stdout-differs-from-library-output", dict(detail, library=lib[:300])))
                                    if rc != 0:
                                        V.append(v("C17", "exit-status", detail))
    S.append({"c17": {"inputs": len(inputs), "runs": runs, "big_input_bytes": len(big), "oracle_evaluations": runs}})
    return Q, V, S


# ----------------------------------------------------------------------------- C20

C20_PROBE = ("local s = 'single' .. \"double\"\nf \"x\"\ng{ 1 }\nfunction foo() return 1 end\nfoo(1)\n"
             "local t = { aaaaaaaaaaaaaaaaaaaaaaaaaaaaaaaaaa = 1, bbbbbbbbbbbbbbbbbbbbbbbbbbbbbbbbbbbbbb = 2 }\n"
             "if x then return end\nlocal b = require(\"b\")\nlocal a = require(\"a\")\n"
             # a call that wraps at width 40 but not at 80; strings for which the Auto styles and the Force styles differ
             "local medium = call_function_name(argument_one, argument_two, arg3)\n"
             "local q1 = 'say \"a\" and \"b\"'\nlocal q2 = \"it's 'c'\"\n"
             # two calls at nesting depth 3 whose wrapping depends on how many columns a tab / an indent level counts
             # (102 characters: wraps only at width 8; 111 characters: wraps at 4 and 8, not at 2)
             "function deep()\n\tfor i = 1, 2 do\n\t\tif i then\n\t\t\tregister_handler(argument_00, argument_01, argument_02, argument_03, argument_04, argument_05xxxxxxxx)\n\t\t\tregister_fallback(argument_00, argument_01, argument_02, argument_03, argument_04, argument_05, argument_06xxx)\n\t\tend\n\tend\nend\n")

# option, toml key, flag, editorconfig key, [(value as toml literal, flag value, editorconfig value or None, harness cfg fragment)]
def _c20_options():
    opts = []
    opts.append(("syntax", "--syntax", None, [('"%s"' % v, v, None, "syntax=%s" % v) for v in ("All", "Lua51", "Lua52", "Lua53", "Lua54", "Luau", "LuaJIT")]))
    opts.append(("column_width", "--column-width", "max_line_length", [("40", "40", "40", "width=40"), ("80", "80", "80", "width=80"), ("120", "120", "120", "width=120")]))
    opts.append(("line_endings", "--line-endings", "end_of_line", [('"Unix"', "Unix", "lf", "eol=Unix"), ('"Windows"', "Windows", "crlf", "eol=Windows")]))
    opts.append(("indent_type", "--indent-type", "indent_style", [('"Tabs"', "Tabs", "tab", "indent=Tabs/4"), ('"Spaces"', "Spaces", "space", "indent=Spaces/4")]))
    opts.append(("indent_width", "--indent-width", "indent_size", [("2", "2", "2", "indent=Tabs/2"), ("8", "8", "8", "indent=Tabs/8"), ("4", "4", "4", "indent=Tabs/4")]))
    opts.append(("quote_style", "--quote-style", "quote_type", [('"AutoPreferDouble"', "AutoPreferDouble", "double", "quote=AutoPreferDouble"), ('"AutoPreferSingle"', "AutoPreferSingle", "single", "quote=AutoPreferSingle"), ('"ForceDouble"', "ForceDouble", None, "quote=ForceDouble"), ('"ForceSingle"', "ForceSingle", None, "quote=ForceSingle")]))
    opts.append(("call_parentheses", "--call-parentheses", "call_parentheses", [('"%s"' % v, v, (v.lower() if v != "Input" else None), "call=%s" % v) for v in ("Always", "NoSingleString", "NoSingleTable", "None", "Input")]))
    opts.append(("collapse_simple_statement", "--collapse-simple-statement", "collapse_simple_statement", [('"%s"' % v, v, v.lower(), "collapse=%s" % v) for v in ("Never", "FunctionOnly", "ConditionalOnly", "Always")]))
    opts.append(("space_after_function_names", "--space-after-function-names", "space_after_function_names", [('"%s"' % v, v, v.lower(), "space=%s" % v) for v in ("Never", "Definitions", "Calls", "Always")]))
    return opts


def c20(tier, seed):
    Q, V, S = [], [], []
    runs = 0
    def fmt_with(files, args, env=None):
        nonlocal runs
        fs = dict(files)
        fs["p.lua"] = C20_PROBE
        with Tree(fs) as t:
            rc, out, err = run(args + ["p.lua"], t.root, env=env)
            runs += 1
            return rc, open(os.path.join(t.root, "p.lua"), "rb").read().decode("utf-8", "replace"), err.decode("utf-8", "replace")
    # the probe must tell the values of an option apart (else comparing carriers says nothing): recorded in the evidence
    insensitive = []
    for key, flag, eckey, values in _c20_options():
        libs = {}
        for toml_v, flag_v, ec_v, frag in values:
            libs.setdefault(_lib_format(C20_PROBE, "syntax=All " + frag if not frag.startswith("syntax") else frag), []).append(flag_v)
        for same in libs.values():
            if len(same) > 1 and key != "syntax":
                insensitive.append({"option": key, "values_with_equal_output": same})
    for key, flag, eckey, values in _c20_options():
        for toml_v, flag_v, ec_v, frag in values:
            lib = _lib_format(C20_PROBE, "syntax=All " + frag if not frag.startswith("syntax") else frag)
            outs = {}
            rc, outs["toml"], err = fmt_with({"stylua.toml": "%s = %s\n" % (key, toml_v)}, [])
            if rc != 0:
                V.append(v("C20", "toml-value-rejected:%s=%s" % (key, toml_v), {"stderr": err[:300]}))
            for spelling in {flag_v, flag_v.lower(), flag_v.upper()}:
                rc, o, err = fmt_with({}, [flag, spelling])
                outs["flag:" + spelling] = o
                if rc != 0:
                    V.append(v("C20", "flag-value-rejected:%s=%s" % (flag, spelling), {"stderr": err[:300]}))
            if eckey and ec_v:
                rc, outs["editorconfig"], err = fmt_with({".editorconfig": "root = true\n[*.lua]\n%s = %s\n" % (eckey, ec_v)}, [])
                rc, outs["editorconfig:upper"], err = fmt_with({".editorconfig": "root = true\n[*.lua]\n%s = %s\n" % (eckey, ec_v.upper())}, [])
            for carrier, o in outs.items():
                if o != lib:
                    V.append(v("C20", "carrier-differs-from-library:%s:%s" % (key, carrier.split(":")[0]), {"option": key, "value": flag_v, "carrier": carrier, "carrier_output": o[:400], "library_output": lib[:400]}))
    # a flag overrides a configuration file wherever that file was found
    base = 'indent_type = "Spaces"\n'
    for flagargs, frag in ((["--column-width", "40"], "width=40"), (["--quote-style", "ForceSingle"], "quote=ForceSingle"), (["--call-parentheses", "None"], "call=None"), (["--indent-width", "2"], "indent=Spaces/2")):
        cfgfrag = "indent=Spaces/4 " + frag if not frag.startswith("indent") else frag
        lib = _lib_format(C20_PROBE, "syntax=All " + cfgfrag)
        for where in ("cwd", "parent", "xdg", "xdg-stylua", "home-config", "config-path"):
            files = {"proj/p.lua": C20_PROBE}
            args = list(flagargs)
            envx = {}
            if where == "cwd":
                files["proj/stylua.toml"] = base
            elif where == "parent":
                files["stylua.toml"] = base; args.append("--search-parent-directories")
            elif where == "xdg":
                files["xdg/stylua.toml"] = base; args.append("--search-parent-directories")
            elif where == "xdg-stylua":
                files["xdg/stylua/stylua.toml"] = base; args.append("--search-parent-directories")
            elif where == "home-config":
                files["home/.config/stylua/stylua.toml"] = base; args.append("--search-parent-directories")
            else:
                files["conf/c.toml"] = base
            with Tree(files) as t:
                if where.startswith("xdg"):
                    envx["XDG_CONFIG_HOME"] = os.path.join(t.root, "xdg")
                if where == "home-config":
                    envx["HOME"] = os.path.join(t.root, "home")
                if where == "config-path":
                    args += ["--config-path", os.path.join(t.root, "conf/c.toml")]
                rc, out, err = run(args + ["p.lua"], os.path.join(t.root, "proj"), env=envx)
                runs += 1
                o = open(os.path.join(t.root, "proj/p.lua"), "rb").read().decode("utf-8", "replace")
                if o != lib:
                    V.append(v("C20", "flag-does-not-override-config:%s:%s" % (where, flagargs[0]), {"argv": args, "config_location": where, "carrier_output": o[:300], "library_output": lib[:300]}))
    # ... and whatever the two values are (in particular when the flag spells out the built-in default while
    # the file says something else): every ordered pair of distinct values of every option
    for key, flag, eckey, values in _c20_options():
        for toml_v, _, _, frag_a in values:
            for _, flag_v, _, frag_b in values:
                if frag_a == frag_b:
                    continue
                lib = _lib_format(C20_PROBE, "syntax=All " + frag_b if not frag_b.startswith("syntax") else frag_b)
                rc, o, err = fmt_with({"stylua.toml": "%s = %s\n" % (key, toml_v)}, [flag, flag_v])
                if o != lib or rc != 0:
                    V.append(v("C20", "flag-does-not-override-config:value-pair:%s" % key, {"option": key, "config_file_value": toml_v, "flag_value": flag_v, "exit": rc, "carrier_output": o[:300], "library_output": lib[:300]}))
    # every pair of distinct options x every pair of their values, through each carrier (both keys in stylua.toml, both
    # flags, both .editorconfig keys, one in the file and one as flag): options must not interfere with one another
    def _fields(frag):
        k, val = frag.split("=", 1)
        return k, val
    opts = _c20_options()
    pair_runs = 0
    for i in range(len(opts)):
        for j in range(i + 1, len(opts)):
            (ka, fa, ea, va), (kb, fb, eb, vb) = opts[i], opts[j]
            for ta, fva, eca, fraga in va:
                for tb, fvb, ecb, fragb in vb:
                    f1, v1 = _fields(fraga)
                    f2, v2 = _fields(fragb)
                    if f1 == f2 == "indent":
                        # indent_type x indent_width: "Tabs/4"-style fragments carry both halves
                        cfg = "indent=%s/%s" % (v1.split("/")[0], v2.split("/")[1])
                    else:
                        cfg = fraga + " " + fragb
                    if "syntax=" not in cfg:
                        cfg = "syntax=All " + cfg
                    lib = _lib_format(C20_PROBE, cfg)
                    outs = {}
                    rc, outs["toml"], err = fmt_with({"stylua.toml": "%s = %s\n%s = %s\n" % (ka, ta, kb, tb)}, [])
                    rc, outs["flags"], err = fmt_with({}, [fa, fva, fb, fvb])
                    rc, outs["toml+flag"], err = fmt_with({"stylua.toml": "%s = %s\n" % (ka, ta)}, [fb, fvb])
                    if ea and eb and eca and ecb:
                        rc, outs["editorconfig"], err = fmt_with({".editorconfig": "root = true\n[*.lua]\n%s = %s\n%s = %s\n" % (ea, eca, eb, ecb)}, [])
                        rc, outs["editorconfig:reversed"], err = fmt_with({".editorconfig": "root = true\n[*.lua]\n%s = %s\n%s = %s\n" % (eb, ecb, ea, eca)}, [])
                    pair_runs += len(outs)
                    for carrier, o in outs.items():
                        if o != lib:
                            V.append(v("C20", "carrier-differs-from-library:pair:%s+%s:%s" % (ka, kb, carrier.split(":")[0]), {"options": [ka, kb], "values": [fva, fvb], "carrier": carrier, "carrier_output": o[:400], "library_output": lib[:400]}))
    # sort_requires
    lib = _lib_format(C20_PROBE, "syntax=All sort=true")
    for carrier, files, args in (("toml", {"stylua.toml": "[sort_requires]\nenabled = true\n"}, []), ("flag", {}, ["--sort-requires"]), ("editorconfig", {".editorconfig": "root = true\n[*.lua]\nsort_requires = true\n"}, [])):
        rc, o, err = fmt_with(files, args)
        if o != lib or rc != 0:
            V.append(v("C20", "carrier-differs-from-library:sort_requires:" + carrier, {"carrier_output": o[:300], "library_output": lib[:300], "exit": rc}))
    # malformed configuration files: exit 2, nothing modified
    bad = {
        "misspelled-key": "colum_width = 80\n",
        "wrong-type-int": 'column_width = "80"\n',
        "wrong-type-enum": "quote_style = 3\n",
        "unknown-enum-value": 'quote_style = "Sometimes"\n',
        "unknown-table": "[formatting]\nwidth = 3\n",
        "unknown-key-in-table": "[sort_requires]\nenable = true\n",
        "not-toml": "column_width = = 3\n",
        "negative-width": "column_width = -1\n",
        "case-variant-enum": 'quote_style = "forcesingle"\n',
    }
    for name, body in bad.items():
        for cfgname in ("stylua.toml", ".stylua.toml"):
            with Tree({cfgname: body, "p.lua": C20_PROBE, "sub/q.lua": C20_PROBE}) as t:
                before = t.snapshot()
                rc, out, err = run(["."], t.root)
                runs += 1
                after = t.snapshot()
                changed = [k_ for k_ in before if after[k_][0] != before[k_][0]]
                if rc != 2 or changed:
                    V.append(v("C20", "malformed-config-accepted:" + name, {"config": body, "file": cfgname, "exit": rc, "modified": changed, "stderr": err.decode("utf-8", "replace")[:300]}))
            # the same file given through --config-path
            with Tree({"conf/" + cfgname: body, "p.lua": C20_PROBE}) as t:
                before = t.snapshot()
                rc, out, err = run(["--config-path", "conf/" + cfgname, "p.lua"], t.root)
                runs += 1
                after = t.snapshot()
                if rc != 2 or after["p.lua"][0] != before["p.lua"][0]:
                    V.append(v("C20", "malformed-config-accepted:config-path:" + name, {"config": body, "exit": rc}))
    Q.append(q("optiontables", "ok"))
    S.append({"c20": {"runs": runs, "probe_insensitive_to": insensitive, "option_pair_runs": pair_runs, "options": len(_c20_options()) + 1, "malformed_kinds": len(bad), "oracle_evaluations": runs}})
    return Q, V, S


# ----------------------------------------------------------------------------- C16

import fnmatch


def _pat_match(pat, name, is_dir):
    """gitignore subset: patterns without inner slashes; returns True if `pat` (sans `!`) matches the basename"""
    dir_only = pat.endswith("/")
    p = pat.rstrip("/")
    if dir_only and not is_dir:
        return False
    if p.startswith("**/"):
        p = p[3:]
    return fnmatch.fnmatchcase(name, p)


def _ignore_decision(patterns, name, is_dir):
    """last matching pattern wins: 'ignore' | 'whitelist' | None"""
    res = None
    for pat in patterns:
        neg = pat.startswith("!")
        body = pat[1:] if neg else pat
        if _pat_match(body, name, is_dir):
            res = "whitelist" if neg else "ignore"
    return res


def _emulate_walk(root, cwd_rel_files, ignore_files, args, allow_hidden, globs):
    """what the `ignore` walker yields for the restricted pattern language: list of path strings as yielded.
    cwd_rel_files: set of file paths relative to cwd; ignore_files: {dir rel to cwd ('' = cwd): [patterns]}"""
    dirs = set()
    for f in cwd_rel_files:
        d = os.path.dirname(f)
        while d:
            dirs.add(d)
            d = os.path.dirname(d)
    yielded = []
    def entry_ok(rel, is_dir, root_rel):
        name = os.path.basename(rel)
        if globs:
            # overrides: a plain glob whitelists, a `!glob` ignores; last match wins
            res = None
            for g in globs:
                neg = g.startswith("!")
                if _pat_match(g[1:] if neg else g, name, is_dir):
                    res = "ignore" if neg else "whitelist"
            if res == "whitelist":
                return True
            if res == "ignore":
                return False
            if not is_dir and any(not g.startswith("!") for g in globs):
                return False
        # ignore files: the directory's own chain from the entry's parent up to the file-system root
        # (parents(true)) - deeper files first; the cwd file is added explicitly as well
        d = os.path.dirname(rel)
        chain = []
        while True:
            chain.append(d)
            if not d:
                break
            d = os.path.dirname(d)
        for d in chain:
            pats = ignore_files.get(d)
            if pats:
                dec = _ignore_decision(pats, name, is_dir)
                if dec == "ignore":
                    return False
                if dec == "whitelist":
                    return True
        if not allow_hidden and name.startswith("."):
            return False
        return True
    def descend(dir_rel, prefix):
        # dir_rel: directory relative to cwd ('' = cwd); prefix: path string as yielded for that directory
        children_dirs = sorted(d for d in dirs if os.path.dirname(d) == dir_rel)
        children_files = sorted(f for f in cwd_rel_files if os.path.dirname(f) == dir_rel)
        for f in children_files:
            if entry_ok(f, False, dir_rel):
                yielded.append((os.path.join(prefix, os.path.basename(f)), f))
        for d in children_dirs:
            if entry_ok(d, True, dir_rel):
                descend(d, os.path.join(prefix, os.path.basename(d)))
    for a in args:
        rel = os.path.normpath(a)
        if rel == ".":
            rel = ""
        if rel in cwd_rel_files:
            yielded.append((a, rel))
        elif rel == "" or rel in dirs:
            descend(rel, a)
        else:
            pass  # missing path: walker error
    return yielded


def _stylua_ignored_single(rel, ignore_files):
    """path_is_stylua_ignored: the .styluaignore of the file's own directory, else the cwd's; the path and its parents"""
    d = os.path.dirname(rel)
    if d in ignore_files and ignore_files[d] is not None and d != "":
        base, pats = d, ignore_files[d]
    elif "" in ignore_files:
        base, pats = "", ignore_files[""]
    else:
        return False
    relb = os.path.relpath(rel, base) if base else rel
    parts = relb.split("/")
    # any parent directory (below the ignore file) or the file itself
    for i in range(len(parts)):
        is_dir = i < len(parts) - 1
        if _ignore_decision(pats, parts[i], is_dir) == "ignore":
            return True
    return _ignore_decision(pats, parts[-1], False) == "ignore"


def c16(tier, seed):
    Q, V, S = [], [], []
    rng = random.Random(seed * 49979687 + 16)
    n = 300 if tier == "thorough" else 90
    all_files = ["a.lua", "b.luau", "c.txt", ".hidden.lua", "gen.gen.lua", "keep.gen.lua", "src/main.lua", "src/util.lua",
                 "src/gen/out.lua", "src/gen/keep.lua", "src/.hid/x.lua", "src/notes.txt", "proj/src/main.lua", "proj/src/gen/out.lua", "proj/src/util.lua"]
    pat_pool = ["gen/", "util.lua", "*.gen.lua", "!keep.gen.lua", "notes.txt", "main.lua", "*.luau"]
    glob_sets = [[], [], [], ["*.lua"], ["**/*.txt"], ["*.luau", "*.txt"], ["*.lua", "!util.lua"]]
    arg_pool = [".", "src", "src/main.lua", "./src/main.lua", "src/gen/out.lua", "c.txt", ".hidden.lua", "proj/src", "a.lua", "src/util.lua", "proj", "gen.gen.lua"]
    runs = 0
    mk = lambda names: {f: "local   marker_%d   =   1\n" % i for i, f in enumerate(all_files) if f in names}
    fixed = [
        # (files, ignore files, args, respect, allow_hidden, globs) - past failures and the recorded findings first
        (mk({"a.lua", "src/main.lua"}), {}, [".", "a.lua"], False, False, []),
        (mk({"a.lua", "src/main.lua"}), {}, ["src/main.lua", "./src/main.lua", "src"], False, False, []),
        (mk({"a.lua", "c.txt"}), {}, [".", "c.txt"], False, False, []),
        (mk({"a.lua", "c.txt"}), {}, ["c.txt", "."], True, False, []),
        (mk({"src/util.lua", "src/main.lua"}), {"": ["util.lua"]}, ["."], False, False, ["*.lua"]),
        (mk({".hidden.lua", "a.lua"}), {}, ["."], False, False, ["*.lua"]),
        (mk({"src/util.lua", "src/main.lua"}), {"": ["util.lua"]}, [".", "src/util.lua"], False, False, []),
        (mk({"src/util.lua", "src/main.lua"}), {"": ["util.lua"]}, [".", "src/util.lua"], True, False, []),
        (mk({"proj/src/main.lua", "proj/src/util.lua", "proj/src/gen/out.lua"}), {"proj": ["gen/", "util.lua"]}, ["proj/src"], False, False, []),
        (mk({"gen.gen.lua", "keep.gen.lua", "a.lua"}), {"": ["*.gen.lua", "!keep.gen.lua"]}, ["."], False, False, []),
        (mk({"src/.hid/x.lua", ".hidden.lua", "a.lua"}), {}, ["."], False, True, []),
        # D37: src/.styluaignore (which does not mention it) shadows the root file that excludes main.lua
        (mk({"src/main.lua", "src/util.lua"}), {"": ["main.lua"], "src": ["notes.txt"]}, ["src/main.lua", "."], True, False, []),
        (mk({"src/main.lua", "src/util.lua"}), {"": ["main.lua"]}, ["src/main.lua", "."], True, False, []),
        # several explicit files, each answered by its own ignore file (in both argument orders)
        (mk({"a.lua", "src/util.lua", "src/main.lua"}), {"": ["notes.txt"], "src": ["util.lua"]}, ["a.lua", "src/util.lua", "src/main.lua"], True, False, []),
        (mk({"a.lua", "src/util.lua", "src/main.lua"}), {"": ["a.lua"], "src": ["util.lua"]}, ["src/main.lua", "a.lua", "src/util.lua"], True, False, []),
        (mk({"a.lua", "src/util.lua", "proj/src/util.lua"}), {"src": ["util.lua"]}, ["src/util.lua", "proj/src/util.lua", "a.lua"], True, False, []),
    ]
    for case in range(n + len(fixed)):
      if case < len(fixed):
        files, ignore_files, args, respect, allow_hidden, globs = fixed[case]
      else:
        files = {f: "local   marker_%d   =   1\n" % i for i, f in enumerate(all_files) if rng.random() < 0.85}
        ignore_files = {}
        for d in ("", "src", "proj"):
            if rng.random() < 0.5:
                pats = [p for p in pat_pool if rng.random() < 0.35]
                if pats:
                    ignore_files[d] = pats
        args = []
        for _ in range(rng.randrange(1, 4)):
            a = rng.choice(arg_pool)
            args.append(a)
        # arguments must exist (missing paths are C13/C19's business)
        def exists(a):
            r = os.path.normpath(a)
            return r == "." or r in files or any(f.startswith(r + "/") for f in files)
        args = [a for a in args if exists(a)] or ["."]
        respect = rng.random() < 0.4
        allow_hidden = rng.random() < 0.3
        globs = rng.choice(glob_sets)
      if True:
        tree = dict(files)
        for d, pats in ignore_files.items():
            tree[os.path.join(d, ".styluaignore")] = "\n".join(pats) + "\n"
        argv = (["--respect-ignores"] if respect else []) + (["--allow-hidden"] if allow_hidden else [])
        for g in globs:
            argv += ["--glob", g]
        argv += ["--"] + args
        with Tree(tree) as t:
            # which files are processed, and how often: check mode, JSON, one entry per processing
            rc, out, err = run(["--check", "--output-format", "json"] + argv, t.root)
            runs += 1
            counts = {}
            for l in out.decode("utf-8", "replace").split("\n"):
                l = l.strip()
                if l.startswith("{") and '"file"' in l:
                    p = os.path.normpath(json.loads(l)["file"])
                    counts[p] = counts.get(p, 0) + 1
            before = t.snapshot()
            rc2, out2, err2 = run(argv, t.root)
            runs += 1
            after = t.snapshot()
            changed = sorted(k for k in before if k in files and after[k][0] != before[k][0])
            detail = {"argv": argv, "tree": {k: v_ for k, v_ in tree.items() if k.endswith(".styluaignore")}, "files": sorted(files), "processed": counts, "stderr": err.decode("utf-8", "replace")[:300]}
            if sorted(counts) != changed:
                V.append(v("C16", "check-and-write-mode-select-differently", dict(detail, changed=changed)))
            # ---- ring 2: the walker emulation feeds the model of StyLua's glue
            ylist = _emulate_walk(t.root, set(files), ignore_files, args, allow_hidden, globs)
            spell_ids, file_ids = {}, {}
            ents = []
            for spelled, rel in ylist:
                sid = spell_ids.setdefault(spelled, len(spell_ids))
                fid = file_ids.setdefault(rel, len(file_ids))
                explicit = spelled in args
                lua = rel.endswith(".lua") or rel.endswith(".luau")
                ign = _stylua_ignored_single(rel, ignore_files)
                ents.append("%d:%d:1:%d:%d:%d" % (fid, sid, explicit, lua, ign))
            inv = {v_: k for k, v_ in file_ids.items()}
            exp_multiset = sorted((file_ids[p], c) for p, c in counts.items() if p in file_ids)
            impl = ",".join(str(f) for f, c in exp_multiset for _ in range(c)) or "-"
            unknown = [p for p in counts if p not in file_ids]
            req = "select %d %d %s" % (bool(globs), respect, ",".join(ents) or "-")
            Q.append(q(req, "sorted:" + impl + ("|unyielded:" + ",".join(unknown) if unknown else "")))
            # ---- ring 3: the property, computed independently of the model
            for p, c in counts.items():
                if c > 1:
                    V.append(v("C16", "processed-more-than-once:path-spelled-two-ways", dict(detail, file=p, times=c)))
            for p in counts:
                explicit_arg = any(os.path.normpath(a) == p for a in args)
                if explicit_arg and not respect:
                    continue
                name = os.path.basename(p)
                parts = p.split("/")
                hidden = any(x.startswith(".") for x in parts)
                if hidden and not allow_hidden and not explicit_arg:
                    V.append(v("C16", "hidden-file-processed" + (":glob-given" if globs else ""), dict(detail, file=p)))
                # excluded by a .styluaignore on the way (stacked semantics)
                excluded = False
                for i in range(len(parts)):
                    d = "/".join(parts[:i])
                    for base in {"/".join(parts[:j]) for j in range(i + 1)}:
                        pats = ignore_files.get(base)
                        if pats and _ignore_decision(pats, parts[i], i < len(parts) - 1) == "ignore":
                            excluded = True
                if excluded and _ignore_decision([x for d_, ps in ignore_files.items() for x in ps], name, False) != "whitelist":
                    # for an explicit path only ONE ignore file is consulted (the nearest); when that one does not
                    # exclude the file but a farther one does, the file is formatted (D37)
                    shadowed = explicit_arg and not _stylua_ignored_single(p, ignore_files)
                    # an explicit path is judged by path_is_stylua_ignored alone (globs play no part there)
                    # ... unless a directory argument reaches the file too: then a --glob override is what let it through (D34)
                    via_dir = any(os.path.normpath(a) not in files and (os.path.normpath(a) == "." or p.startswith(os.path.normpath(a) + "/")) for a in args)
                    if globs and via_dir:
                        sig = "styluaignored-file-processed:glob-given"
                    elif explicit_arg:
                        sig = "styluaignored-file-processed:explicit-respect" + (":shadowed-by-nearer-ignore-file" if shadowed else "")
                    else:
                        sig = "styluaignored-file-processed" + (":glob-given" if globs else "")
                    V.append(v("C16", sig, dict(detail, file=p)))
                if not globs and not (name.endswith(".lua") or name.endswith(".luau")):
                    V.append(v("C16", "non-lua-file-processed", dict(detail, file=p)))
            # ---- ring 2 (Model/Ignore.lean): which ignore file answers for an explicit path under --respect-ignores
            if respect and not globs:
                ids = {}
                def comp(path):
                    return ".".join(["0"] + [str(ids.setdefault(x, len(ids) + 1)) for x in path.split("/") if x]) if path else "0"
                for a in args:
                    r = os.path.normpath(a)
                    if r in files and (r.endswith(".lua") or r.endswith(".luau")):
                        dirs = sorted(ignore_files)
                        ms = []
                        for d in dirs:
                            if d == "" or r.startswith(d + "/"):
                                rel = r[len(d) + 1:] if d else r
                                parts_ = rel.split("/")
                                if any(_ignore_decision(ignore_files[d], parts_[i], i < len(parts_) - 1) == "ignore" for i in range(len(parts_))):
                                    ms.append(d)
                        Q.append(q("ignore repaired 0 0 %s %s %s" % (comp(r), ",".join(comp(d) for d in dirs) or "-", ",".join(comp(d) for d in ms) or "-"),
                                   "notIgnored" if r in counts else "ignored"))
            for a in args:
                r = os.path.normpath(a)
                if r in files and not respect and r not in counts:
                    V.append(v("C16", "explicit-file-not-processed", dict(detail, file=r)))
    S.append({"c16": {"cases": n, "runs": runs, "oracle_evaluations": runs}})
    return Q, V, S
