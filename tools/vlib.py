"""Engine behind ./check: builds, three rings, known findings, evidence, replay."""
import os, sys, json, time, subprocess, hashlib, re, fcntl, tempfile, shutil

ROOT = os.path.dirname(os.path.dirname(os.path.abspath(__file__)))
LEAN = os.path.join(ROOT, "lean")
HARNESS = os.path.join(ROOT, "harness")
CACHE = os.path.join(ROOT, ".cache")
TARGET = os.path.join(CACHE, "target")
HX = os.path.join(TARGET, "release", "hx")
TARGET_CLI = os.path.join(CACHE, "target-cli")  # a separate workspace must not share a target dir
STYLUA = os.path.join(TARGET_CLI, "release", "stylua")
MODELD = os.path.join(LEAN, ".lake", "build", "bin", "modeld")
EVID = os.path.join(ROOT, "evidence")
REPLAY = os.path.join(ROOT, "replay")
REPO = os.environ.get("VERIF_REPO", "/repo")  # override: developer runs of seeded changes on a snapshot only
ALLOWED_AXIOMS = {"propext", "Classical.choice", "Quot.sound"}
FEATURES = "luau,lua52,lua53,lua54,luajit,serialize,fromstr,editorconfig"
GUARD = "stylua_verif"

import props  # noqa: E402


def env_offline():
    e = dict(os.environ)
    e["CARGO_NET_OFFLINE"] = "true"
    e["RUST_BACKTRACE"] = "0"
    e["CARGO_TARGET_DIR"] = TARGET
    e.pop("RUSTFLAGS", None)  # harness/.cargo/config.toml sets --cfg stylua_verif for the harness build
    e.pop("RUSTC_WRAPPER", None)
    return e


class Lock:
    def __init__(self, name):
        os.makedirs(CACHE, exist_ok=True)
        self.path = os.path.join(CACHE, name + ".lock")

    def __enter__(self):
        self.f = open(self.path, "w")
        fcntl.flock(self.f, fcntl.LOCK_EX)
        return self

    def __exit__(self, *a):
        fcntl.flock(self.f, fcntl.LOCK_UN)
        self.f.close()


def sh(cmd, cwd=None, env=None, timeout=None, inp=None):
    p = subprocess.run(cmd, cwd=cwd, env=env, timeout=timeout, input=inp,
                       stdout=subprocess.PIPE, stderr=subprocess.STDOUT)
    return p.returncode, p.stdout.decode("utf-8", "replace")


# ----------------------------------------------------------------------------- builds

def run_translator():
    """Regenerates lean/StyluaModel/Generated/*.lean from /repo's sources."""
    tr = os.path.join(ROOT, "tools", "translate.py")
    if not os.path.exists(tr):
        return True, ""
    rc, out = sh([sys.executable, tr], cwd=ROOT)
    return rc == 0, out


def lake_build(targets):
    with Lock("lake"):
        rc, out = sh(["lake", "build"] + targets, cwd=LEAN, timeout=3000)
    return rc == 0, out


def cargo_build_hx():
    with Lock("cargo"):
        rc, out = sh(["cargo", "build", "--release", "--offline"], cwd=HARNESS, env=env_offline(), timeout=3000)
    return rc == 0, out


def cargo_build_cli():
    e = env_offline()
    e["CARGO_TARGET_DIR"] = TARGET_CLI
    e["RUSTFLAGS"] = "--cfg " + GUARD
    with Lock("cargo-cli"):
        rc, out = sh(["cargo", "build", "--release", "--offline", "--manifest-path", os.path.join(REPO, "Cargo.toml"),
                      "--bin", "stylua", "--features", FEATURES], cwd=REPO, env=e, timeout=3000)
    return rc == 0, out


def setup():
    ok3, o3 = cargo_build_hx()
    ok1, o1 = run_translator()
    ok2, o2 = lake_build(["StyluaModel", "modeld"])
    ok4, o4 = cargo_build_cli()
    for ok, o, n in ((ok1, o1, "translator"), (ok2, o2, "lake"), (ok3, o3, "harness"), (ok4, o4, "cli")):
        print(("ok   " if ok else "FAIL ") + n)
        if not ok:
            print(o[-4000:])
    return 0 if (ok1 and ok2 and ok3 and ok4) else 1


# ----------------------------------------------------------------------------- ring 1

FORBIDDEN = re.compile(r"\b(sorry|admit|native_decide|bv_decide|implemented_by)\b|^\s*axiom\s|\bunsafe\s|maxHeartbeats\s+0")


def strip_comments(src):
    # remove /- ... -/ (nested) and -- ... line comments
    out = []
    i = 0
    depth = 0
    n = len(src)
    while i < n:
        if src.startswith("/-", i):
            depth += 1; i += 2; continue
        if depth > 0 and src.startswith("-/", i):
            depth -= 1; i += 2; continue
        if depth > 0:
            if src[i] == "\n":
                out.append("\n")
            i += 1; continue
        if src.startswith("--", i):
            while i < n and src[i] != "\n":
                i += 1
            continue
        out.append(src[i]); i += 1
    return "".join(out)


def lean_imports_closure(module):
    """transitive StyluaModel.* imports of a module (source level)"""
    seen, todo = set(), [module]
    while todo:
        m = todo.pop()
        if m in seen or not m.startswith("StyluaModel"):
            continue
        seen.add(m)
        path = os.path.join(LEAN, *m.split(".")) + ".lean"
        if not os.path.exists(path):
            continue
        for line in open(path, encoding="utf-8"):
            mm = re.match(r"\s*import\s+(\S+)", line)
            if mm:
                todo.append(mm.group(1))
    return sorted(seen)


def ring1(pid, cfg, tier):
    """build theorem modules, audit axioms. returns dict"""
    res = {"ok": True, "theorems": [], "failing": [], "axioms": {}, "log": ""}
    mods = cfg["lean_modules"]
    ok, out = lake_build(mods + ["modeld"])
    if not ok:
        res["ok"] = False
        res["failing"].append({"obligation": "lake build " + " ".join(mods), "log": out[-3000:]})
        res["log"] = out[-3000:]
        return res
    # forbidden constructs in every imported source file
    for m in mods:
        for dep in lean_imports_closure(m):
            path = os.path.join(LEAN, *dep.split(".")) + ".lean"
            src = strip_comments(open(path, encoding="utf-8").read())
            for ln, line in enumerate(src.split("\n"), 1):
                if FORBIDDEN.search(line):
                    res["ok"] = False
                    res["failing"].append({"obligation": "no sorry/axiom/native_decide in " + dep, "line": ln, "text": line.strip()})
    # theorem inventory
    names = []
    for m in mods:
        path = os.path.join(LEAN, *m.split(".")) + ".lean"
        src = strip_comments(open(path, encoding="utf-8").read())
        ns = re.search(r"^namespace\s+(\S+)", src, re.M)
        nsname = ns.group(1) if ns else ""
        for mm in re.finditer(r"^theorem\s+(" + re.escape(cfg["theorem_prefix"]) + r"\w*)", src, re.M):
            names.append((m, (nsname + "." if nsname else "") + mm.group(1)))
    required = cfg.get("required_theorems", [])
    short = {n.split(".")[-1] for _, n in names}
    for r in required:
        if r not in short:
            res["ok"] = False
            res["failing"].append({"obligation": "theorem " + r + " present in " + ",".join(mods)})
    if not names:
        res["ok"] = False
        res["failing"].append({"obligation": "at least one property theorem"})
        return res
    audit = "\n".join("import " + m for m in mods) + "\n" + "\n".join("#print axioms " + n for _, n in names) + "\n"
    with tempfile.NamedTemporaryFile("w", suffix=".lean", dir=CACHE, delete=False) as f:
        f.write(audit)
        ap = f.name
    try:
        rc, out = sh(["lake", "env", "lean", ap], cwd=LEAN, timeout=1200)
    finally:
        os.unlink(ap)
    # parse: "'Name' depends on axioms: [a, b]" or "'Name' does not depend on any axioms"
    flat = re.sub(r"\s+", " ", out)
    for _, n in names:
        m1 = re.search(r"'" + re.escape(n) + r"' depends on axioms: \[([^\]]*)\]", flat)
        m0 = re.search(r"'" + re.escape(n) + r"' does not depend on any axioms", flat)
        if m1:
            ax = [a.strip() for a in m1.group(1).split(",") if a.strip()]
        elif m0:
            ax = []
        else:
            res["ok"] = False
            res["failing"].append({"obligation": "#print axioms " + n, "log": out[-500:]})
            continue
        res["axioms"][n] = ax
        bad = [a for a in ax if a not in ALLOWED_AXIOMS]
        if bad:
            res["ok"] = False
            res["failing"].append({"obligation": "axioms of " + n + " within {propext, Classical.choice, Quot.sound}", "found": bad})
    res["theorems"] = [n for _, n in names]
    if tier == "thorough":
        for m in mods:
            rc, out = sh(["lake", "env", "leanchecker", m], cwd=LEAN, timeout=3000)
            res.setdefault("leanchecker", {})[m] = rc
            if rc != 0:
                res["ok"] = False
                res["failing"].append({"obligation": "leanchecker " + m, "log": out[-1000:]})
    return res


# ----------------------------------------------------------------------------- ring 2 / 3

def run_modeld(requests):
    """requests: list of str; returns list of answers"""
    if not requests:
        return []
    data = ("\n".join(requests) + "\n").encode()
    p = subprocess.run([MODELD], input=data, stdout=subprocess.PIPE, stderr=subprocess.PIPE, timeout=3000)
    ans = p.stdout.decode("utf-8", "replace").split("\n")
    if ans and ans[-1] == "":
        ans.pop()
    if len(ans) != len(requests):
        ans += ["<no-answer>"] * (len(requests) - len(ans))
    return ans


def file_sha1(path):
    h = hashlib.sha1()
    with open(path, "rb") as f:
        for chunk in iter(lambda: f.read(1 << 20), b""):
            h.update(chunk)
    return h.hexdigest()


def run_hx(sub, tier, seed, extra_env=None, timeout=3000):
    # the closed-set pipeline is shared by several properties: cache its output per harness
    # binary (the binary embeds /repo's working tree, so any source change invalidates it)
    if sub == ["pipe"] and not extra_env:
        key = os.path.join(CACHE, "pipe-%s.out" % file_sha1(HX)[:16])
        with Lock("pipe"):
            if os.path.exists(key):
                return 0, open(key, encoding="utf-8").read(), ""
            rc, out, err = run_hx_raw(sub, tier, seed, extra_env, timeout)
            if rc == 0:
                for old in os.listdir(CACHE):
                    if old.startswith("pipe-") and old.endswith(".out"):
                        os.unlink(os.path.join(CACHE, old))
                with open(key, "w", encoding="utf-8") as f:
                    f.write(out)
            return rc, out, err
    # the random-program net is shared by four properties and deterministic per (binary, tier, seed)
    if sub == ["progen"] and not extra_env:
        prefix = "progen-%s-%d-" % (tier, seed)
        key = os.path.join(CACHE, "%s%s.out" % (prefix, file_sha1(HX)[:16]))
        with Lock("progen"):
            if os.path.exists(key):
                return 0, open(key, encoding="utf-8").read(), ""
            rc, out, err = run_hx_raw(sub, tier, seed, extra_env, timeout)
            if rc == 0:
                for old in os.listdir(CACHE):
                    if old.startswith(prefix) and old.endswith(".out"):
                        os.unlink(os.path.join(CACHE, old))
                with open(key, "w", encoding="utf-8") as f:
                    f.write(out)
            return rc, out, err
    return run_hx_raw(sub, tier, seed, extra_env, timeout)


def run_hx_raw(sub, tier, seed, extra_env=None, timeout=3000):
    e = env_offline()
    e["VERIF_TIER"] = tier
    e["VERIF_SEED"] = str(seed)
    e["VERIF_STYLUA_BIN"] = STYLUA
    e["VERIF_ROOT"] = ROOT
    if extra_env:
        e.update(extra_env)
    p = subprocess.run([HX] + sub, stdout=subprocess.PIPE, stderr=subprocess.PIPE, env=e, timeout=timeout, cwd=ROOT)
    return p.returncode, p.stdout.decode("utf-8", "replace"), p.stderr.decode("utf-8", "replace")


def split_lines(text):
    qs, vs, ss = [], [], []
    for line in text.split("\n"):
        if not line:
            continue
        parts = line.split("\t")
        if parts[0] == "Q" and len(parts) >= 3:
            qs.append((parts[1], parts[2]))
        elif parts[0] == "V" and len(parts) >= 4:
            try:
                d = json.loads(parts[3])
            except Exception:
                d = {"raw": parts[3]}
            vs.append((parts[1], parts[2], d))
        elif parts[0] == "S" and len(parts) >= 2:
            try:
                ss.append(json.loads(parts[1]))
            except Exception:
                pass
    return qs, vs, ss


def load_known():
    out = []
    for name in ("known_findings.json", "known_findings_corpus.json"):
        p = os.path.join(ROOT, name)
        if os.path.exists(p):
            out += json.load(open(p)).get("findings", [])
    return out


class Run:
    def __init__(self, pid, tier, seed):
        self.pid, self.tier, self.seed = pid, tier, seed
        self.cfg = props.PROPS[pid]
        self.t0 = time.time()

    # -- collect Q/V/S from hx subcommands and python runners
    def collect(self, tier, seed):
        qs, vs, ss, errs = [], [], [], []
        for sub in self.cfg.get("hx", []):
            rc, out, err = run_hx(sub, tier, seed)
            if rc != 0:
                errs.append({"runner": "hx " + " ".join(sub), "rc": rc, "stderr": err[-2000:]})
            q, v, s = split_lines(out)
            qs += q; vs += v; ss += s
        for fn in self.cfg.get("py", []):
            try:
                q, v, s = fn(tier, seed)
                qs += q; vs += v; ss += s
            except Exception as ex:  # a crashed runner is a failed check, not a pass
                import traceback
                errs.append({"runner": getattr(fn, "__name__", "py"), "error": traceback.format_exc()[-3000:]})
        return qs, vs, ss, errs

    def ring2(self, qs):
        uniq = {}
        conflicts = []
        for r, e in qs:
            if r in uniq and uniq[r] != e:
                conflicts.append({"request": r, "impl_a": uniq[r], "impl_b": e})
            uniq.setdefault(r, e)
        reqs = list(uniq.keys())
        ans = run_modeld(reqs)
        dis = []
        for r, a in zip(reqs, ans):
            if not props.answers_agree(r, uniq[r], a):
                dis.append({"request": r, "impl": uniq[r], "model": a})
        for c in conflicts:
            dis.append({"request": c["request"], "impl": c["impl_a"], "model": "<impl gave two answers: %s>" % c["impl_b"]})
        nontriv = sum(1 for r in reqs if props.nontrivial(r, uniq[r]))
        return reqs, uniq, dis, nontriv

    def write_replay(self, kind, payload):
        if getattr(self, "replaying", None):
            return "(replay mode)"
        os.makedirs(os.path.join(REPLAY, self.pid), exist_ok=True)
        h = hashlib.sha1(json.dumps(payload, sort_keys=True).encode()).hexdigest()[:12]
        path = os.path.join(REPLAY, self.pid, "%s-%s.json" % (kind, h))
        payload = dict(payload)
        payload["property"] = self.pid
        payload["kind"] = kind
        with open(path, "w") as f:
            json.dump(payload, f, indent=1, ensure_ascii=False)
        return path

    def execute(self):
        pid, cfg = self.pid, self.cfg
        lines_out = []
        build_fail = None
        okH, outH = cargo_build_hx()
        okT, outT = run_translator() if okH else (True, "")
        r1 = ring1(pid, cfg, self.tier)
        if not okT:
            r1["ok"] = False
            r1["failing"].append({"obligation": "translator (Generated/*.lean from /repo)", "log": outT[-3000:]})
        if not okH:
            build_fail = {"obligation": "harness builds against /repo working tree", "log": outH[-3000:]}
        if cfg.get("needs_cli") and not build_fail:
            okC, outC = cargo_build_cli()
            if not okC:
                build_fail = {"obligation": "stylua CLI builds from /repo working tree", "log": outC[-3000:]}
        qs, vs, ss, errs = ([], [], [], [])
        if not build_fail:
            qs, vs, ss, errs = self.collect(self.tier, self.seed)
        reqs, uniq, dis, nontriv = self.ring2(qs) if qs else ([], {}, [], 0)
        known = [k for k in load_known() if k["property"] == pid]
        ksigs = {k["signature"]: k for k in known}
        # a runner may report violations for a sibling property (e.g. a panic seen while
        # checking C04); only this property's are decided here, the rest are listed.
        mine = [v for v in vs if v[0] == pid]
        others = [v for v in vs if v[0] != pid]
        known_hits, new_v = {}, []
        for (_, sig, d) in mine:
            if sig in ksigs:
                known_hits.setdefault(sig, []).append(d)
            else:
                new_v.append((sig, d))
        ring2_broken = bool(dis) or bool(errs)
        ring1_broken = not r1["ok"]
        searched = None
        if (ring1_broken or ring2_broken or build_fail) and not new_v and not build_fail and cfg.get("search", True):
            # failing-input search: wider generator / other seeds, ring 3 only
            searched = {"seeds": [], "found": 0}
            budget = time.time() + cfg.get("search_budget_s", 420)
            for k in range(1, 4):
                if time.time() > budget:
                    break
                s = self.seed + 1000 * k
                q2, v2, s2, e2 = self.collect("thorough" if k == 1 else self.tier, s)
                searched["seeds"].append(s)
                for (p2, sig, d) in v2:
                    if p2 == pid and sig not in ksigs:
                        new_v.append((sig, d))
                if new_v:
                    break
            searched["found"] = len(new_v)
        violations = 0
        grouped = {}
        for sig, hits in sorted(known_hits.items()):
            m = re.match(r"^((?:corpus|slot):[^@#]+)[^@]*@([^:]+):(.*)$", sig)
            if m:
                key = m.group(1) + ":" + m.group(3).split(":")[0]
                g = grouped.setdefault(key, {"configs": [], "what": ksigs[sig].get("what", "")})
                g["configs"].append(m.group(2))
            else:
                lines_out.append("KNOWN-FINDING: property=%s %s (%d case%s this run; %s)" % (
                    pid, sig, len(hits), "" if len(hits) == 1 else "s", ksigs[sig].get("what", "")))
        for key, g in sorted(grouped.items()):
            cs = g["configs"]
            lines_out.append("KNOWN-FINDING: property=%s %s at %d listed configuration%s (%s%s); %s" % (
                pid, key, len(cs), "" if len(cs) == 1 else "s", ", ".join(cs[:4]), ", ..." if len(cs) > 4 else "", g["what"]))
        if new_v:
            bysig = {}
            for sig, d in new_v:
                bysig.setdefault(sig, []).append(d)
            # one VIOLATION line per failure family (closed-set signatures are grouped by
            # construct / file), at most 5 lines; every signature is in the first replay file
            fam = {}
            for sig, ds in sorted(bysig.items()):
                m = re.match(r"^((?:corpus|slot):[^@#]+)", sig)
                fam.setdefault(m.group(1) + ":" + sig.split(":")[-1] if m else sig, []).append((sig, ds))
            for k, (f, members) in enumerate(sorted(fam.items())):
                if k >= 5:
                    break
                sig, ds = members[0]
                d = min(ds, key=lambda x: len(json.dumps(x)))
                path = self.write_replay("input", {"signature": sig, "case": d, "cases_with_this_signature": len(ds),
                                                   "family": f, "signatures_in_family": [m[0] for m in members][:50],
                                                   "all_new_signatures": sorted(bysig.keys())[:200] if k == 0 else None,
                                                   "ring1_failing": r1["failing"], "ring2_disagreements": dis[:5]})
                lines_out.append("VIOLATION property=%s replay=%s" % (pid, path))
            violations += len(bysig)
        elif ring1_broken or ring2_broken or build_fail:
            payload = {"no_failing_input_found": True,
                       "ring1_failing": r1["failing"], "ring2_disagreements": dis[:20], "runner_errors": errs,
                       "build_failure": build_fail, "search": searched,
                       "explanation": "a proof obligation or a model/implementation correspondence of this property no longer checks; "
                                      "the failing-input search over the implementation found no input on which the property itself fails"}
            path = self.write_replay("obligation", payload)
            lines_out.append("VIOLATION property=%s replay=%s no-failing-input-found" % (pid, path))
            violations += 1
        rp = getattr(self, "replaying", None)
        if rp:
            # replay mode: nothing is written; only the recorded failure is reported
            if rp["kind"] == "obligation":
                again = ring1_broken or ring2_broken or bool(build_fail)
            else:
                again = any(sig in rp["signatures"] for sig, _ in new_v)
            if again:
                print("VIOLATION property=%s replay=%s%s" % (pid, rp["path"], " no-failing-input-found" if rp["kind"] == "obligation" else ""))
                return 1
            print("REPLAY property=%s %s: not reproduced on the current tree" % (pid, rp["signature"] or "obligation"))
            return 0
        self.write_evidence(r1, reqs, uniq, dis, nontriv, mine, others, known_hits, new_v, ss, errs, violations, searched, build_fail)
        for l in lines_out:
            print(l)
        if violations == 0:
            print("OK property=%s tier=%s seed=%d theorems=%d ring2=%d requests (%d disagreements) ring3=%d violations (%d known signatures) wall=%.1fs" % (
                pid, self.tier, self.seed, len(r1["theorems"]), len(reqs), len(dis), len(mine), len(known_hits), time.time() - self.t0))
        return 1 if violations else 0

    def write_evidence(self, r1, reqs, uniq, dis, nontriv, mine, others, known_hits, new_v, ss, errs, violations, searched, build_fail):
        cfg = self.cfg
        stats = {}
        for s in ss:
            stats.update(s)
        oracle_evals = 0
        for s in ss:
            for v in s.values():
                if isinstance(v, dict):
                    oracle_evals += int(v.get("oracle_evaluations", 0))
        samples = []
        for r in reqs[:: max(1, len(reqs) // 6)][:6]:
            samples.append({"request": r, "implementation": uniq[r]})
        for n in r1["theorems"][:4]:
            samples.append({"obligation": n, "axioms": r1["axioms"].get(n)})
        if not samples:
            samples.append({"note": "no cases ran", "build_failure": bool(build_fail)})
        obligations = len(r1["theorems"]) + len(r1["failing"])
        discharged = len([n for n in r1["theorems"] if n in r1["axioms"] and set(r1["axioms"][n]) <= ALLOWED_AXIOMS])
        ev = {
            "property_id": self.pid,
            "tier": self.tier,
            "seed": self.seed,
            "level": cfg.get("level", "proof"),
            "coverage": {
                "obligations": max(1, obligations),
                "discharged": max(0, discharged) if r1["ok"] else min(discharged, max(0, obligations - 1)),
                "checker_cmd": "cd lean && lake build " + " ".join(cfg["lean_modules"]) + " && lake env lean <#print axioms audit>" + (" && lake env leanchecker <module>" if self.tier == "thorough" else ""),
                "trusted_base": cfg.get("trusted_base", []) + props.COMMON_TRUSTED,
                "theorems": r1["theorems"],
                "axioms": r1["axioms"],
                "ring1_failing": r1["failing"],
                "evaluations": len(reqs) + oracle_evals + len(mine),
                "distinct_nontrivial": nontriv,
                "rule": cfg.get("rule", ""),
                "samples": samples,
                "ring2_requests": len(reqs),
                "ring2_disagreements": len(dis),
                "ring2_first_disagreements": dis[:5],
                "ring3_violations_total": len(mine),
                "ring3_known_signatures": {k: len(v) for k, v in known_hits.items()},
                "ring3_new": len(new_v),
                "sibling_property_reports": sorted({p + ":" + s for (p, s, _) in others}),
                "generator_stats": stats,
                "runner_errors": errs,
                "search": searched,
                "exhaustive": bool(cfg.get("exhaustive", False)),
            },
            "assumptions": cfg.get("assumptions", []),
            "wall_s": round(time.time() - self.t0, 2),
            "violations": violations,
        }
        os.makedirs(EVID, exist_ok=True)
        tmp = os.path.join(EVID, self.pid + ".json.tmp")
        with open(tmp, "w") as f:
            json.dump(ev, f, indent=1, ensure_ascii=False)
        os.replace(tmp, os.path.join(EVID, self.pid + ".json"))

    def replay(self, path):
        """re-decides the property on the current tree and reports whether the recorded failure is still there:
        a recorded input (signature + case) is looked for among this run's unlisted violations (same generator,
        same seed, so the same case is evaluated again); a recorded obligation is re-checked"""
        d = json.load(open(path))
        self.replaying = {"path": path, "signature": d.get("signature"), "kind": d.get("kind", "input" if d.get("case") else "obligation"),
                          "signatures": set(d.get("signatures_in_family") or []) | ({d.get("signature")} if d.get("signature") else set())}
        return self.execute()
