#!/usr/bin/env python3
"""Developer tool: apply a seeded change to /repo, run the listed checks, undo it.
usage: tools/seedtest.py <patch.diff> C01 C02 ...   (prints one line per check)"""
import subprocess, sys, os
ROOT = os.path.dirname(os.path.dirname(os.path.abspath(__file__)))
patch = os.path.abspath(sys.argv[1])
props = sys.argv[2:]
assert subprocess.run(["git", "-C", "/repo", "status", "--porcelain"], capture_output=True, text=True).stdout.strip() == "", "/repo not clean"
r = subprocess.run(["git", "-C", "/repo", "apply", patch])
if r.returncode != 0:
    sys.exit("patch does not apply")
try:
    for p in props:
        out = subprocess.run([os.path.join(ROOT, "check"), p], capture_output=True, text=True, cwd=ROOT)
        v = [l for l in out.stdout.split("\n") if l.startswith("VIOLATION")]
        print("%s rc=%d violations=%d %s" % (p, out.returncode, len(v), (v[0][:160] if v else out.stdout.strip().split("\n")[-1][:160])))
finally:
    subprocess.run(["git", "-C", "/repo", "checkout", "--", "."])
    subprocess.run(["git", "-C", "/repo", "clean", "-fdq", "tests/", "src/"])
