#!/usr/bin/env python3
"""Writes MANIFEST.json from tools/props.py (one source of truth)."""
import json, os, sys
ROOT = os.path.dirname(os.path.dirname(os.path.abspath(__file__)))
sys.path.insert(0, os.path.join(ROOT, "tools"))
import props

ids = [json.loads(l)["id"] for l in open(os.path.join(ROOT, "properties.jsonl"))]
checks, na = [], []
for pid in ids:
    c = props.PROPS.get(pid)
    if not c or c.get("disabled"):
        na.append({"property_id": pid, "reason": (c or {}).get("disabled") or "check not built yet in this round (design in DESIGN.md section 3); nothing is claimed for it"})
        continue
    checks.append({
        "property_id": pid,
        "quick_cmd": "./check %s --tier quick" % pid,
        "thorough_cmd": "./check %s --tier thorough" % pid,
        "evidence_file": "/verif/evidence/%s.json" % pid,
        "replay_cmd_template": "./check %s --replay {path}" % pid,
        "engine": "lean4-model+correspondence",
        "level_claimed": {"category": c.get("level", "proof"), "text": c["level_text"], "design_ref": "DESIGN.md section 3, " + pid},
        "level_note": c["level_note"],
        "technique": c.get("technique", "Lean 4 theorems about an executable model + model/implementation correspondence check"),
    })
m = {
    "version": 1,
    "setup_cmd": "./check setup",
    "hooks": {
        "guard": "--cfg stylua_verif (RUSTFLAGS)",
        "enable": "RUSTFLAGS='--cfg stylua_verif' cargo build --release --features luau,lua52,lua53,lua54,luajit,serialize,fromstr,editorconfig (done by ./check into /verif/.cache/target)",
        "baseline_off_cmd": "cd /repo && cargo test --workspace --no-fail-fast --offline",
        "source_commits": props.HOOK_COMMITS,
        "add_only": True,
    },
    "engines": [
        {"name": "lean4-model+correspondence", "path": "/verif/lean, /verif/harness, /verif/tools", "serves_properties": [c["property_id"] for c in checks],
         "kind_free_text": "Lean 4 models + theorems (lake project StyluaModel), compiled line-protocol driver modeld, Rust harness hx linked against /repo's working tree, Python orchestration"}
    ],
    "checks": checks,
    "not_applicable": na,
    "notes": "See DESIGN.md. Every check rebuilds the harness / CLI from /repo's working tree, rebuilds the Lean theorem module, audits axioms, runs the model-vs-implementation correspondence and the property oracle; known_findings.json lists genuine defects recorded rather than repaired.",
}
json.dump(m, open(os.path.join(ROOT, "MANIFEST.json"), "w"), indent=1)
print("checks:", [c["property_id"] for c in checks], "n/a:", len(na))
