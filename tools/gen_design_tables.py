#!/usr/bin/env python3
"""Regenerates section 8 ("As built") of DESIGN.md from the machinery's own records:
tools/asbuilt_{head,mid,tail}.md (prose), tools/props.py, evidence/*.json, known_findings*.json,
seeded/*/meta.json and seeded/MATRIX.json.   usage: python3 tools/gen_design_tables.py"""
import json, os, re, sys, collections
ROOT = os.path.dirname(os.path.dirname(os.path.abspath(__file__)))
sys.path.insert(0, os.path.join(ROOT, "tools"))
import props  # noqa: E402

MARK = "## 8. As built"


def read(p):
    with open(os.path.join(ROOT, p)) as f:
        return f.read()


def table_83():
    kf = json.load(open(os.path.join(ROOT, "known_findings.json")))["findings"]
    kc = json.load(open(os.path.join(ROOT, "known_findings_corpus.json")))["findings"]
    per_prop = collections.Counter(x["property"] for x in kc)
    out = ["| id | level | theorems checked on every run | ring 2: requests (distinct non-trivial) | ring 3 on the unchanged tree | known findings |",
           "|---|---|---|---|---|---|"]
    for pid in sorted(props.PROPS):
        P = props.PROPS[pid]
        ev = {}
        p = os.path.join(ROOT, "evidence", pid + ".json")
        if os.path.exists(p):
            ev = json.load(open(p))
        cov = ev.get("coverage", {})
        th = [t.split(".")[-1] for t in cov.get("theorems", [])] or P.get("required_theorems", [])
        protos = collections.Counter()
        for smp in cov.get("samples", []):
            if "request" in smp:
                protos[smp["request"].split(" ")[0]] += 1
        r2 = "%s (%s)%s" % (cov.get("ring2_requests", "?"), cov.get("distinct_nontrivial", "?"), ("; protocols sampled: " + ", ".join("`%s`" % k for k in sorted(protos))) if protos else "")
        runners = [" ".join(h) for h in P.get("hx", [])] + ["cli." + f.__name__ for f in P.get("py", [])]
        named = sorted({k["signature"] for k in kf if k["property"] == pid})
        kn = []
        if named:
            kn.append("; ".join("`%s`" % s for s in named))
        if per_prop.get(pid):
            kn.append("%d generated (closed sets)" % per_prop[pid])
        out.append("| %s | %s | %s | %s | %s | %s |" % (
            pid, P["level"], ", ".join("`%s`" % t for t in th), r2,
            "%s oracle failures, %s known signatures, %s new; evaluations %s; runners: %s" % (cov.get("ring3_violations_total", "-"), len(cov.get("ring3_known_signatures", {}) or {}), cov.get("ring3_new", "-"), cov.get("evaluations", "-"), ", ".join("`%s`" % r for r in runners)),
            "<br>".join(kn) or "-"))
    return "\n".join(out)


def table_not_modelled():
    out = ["| id | what the theorems are about (level text of the manifest) | trusted / not in the model |", "|---|---|---|"]
    for pid in sorted(props.PROPS):
        P = props.PROPS[pid]
        out.append("| %s | %s | %s |" % (pid, P["level_text"].replace("|", "\\|"), P["level_note"].replace("|", "\\|")))
    return "\n".join(out)


def matrix_tables():
    mp = os.path.join(ROOT, "seeded", "MATRIX.json")
    if not os.path.exists(mp):
        return "(seeded/MATRIX.json not present)"
    m = json.load(open(mp))
    lines = []
    for rnd, title in ((1, "Round 1"), (2, "Round 2 (a second change per property, steered to a different anchor)"),
                       (3, "Round 3 (agents were told the ideas already used and asked for a different mechanism and input shape; library properties first, CLI properties later)"),
                       (4, "Round 4 (library properties only; same instruction, three used ideas listed)")):
        lines.append("**%s** - every check of the relevant half (library properties C01-C12 for changes under `src/` outside `src/cli`, "
                     "CLI properties C13-C20 otherwise) run against every change; `V` = VIOLATION with a concrete replay input, "
                     "`v` = VIOLATION … no-failing-input-found (an obligation or a correspondence broke, e.g. a new unclassified panic site), `.` = quiet.\n" % title)
        rows = []
        for d in sorted(m):
            meta_p = os.path.join(ROOT, "seeded", d, "meta.json")
            meta = json.load(open(meta_p)) if os.path.exists(meta_p) else {}
            r = meta.get("round", 1)
            if r != rnd:
                continue
            rows.append((d, m[d], meta))
        if not rows:
            continue
        lib = [r for r in rows if "C01" in r[1]]
        cli = [r for r in rows if "C13" in r[1]]
        for grp, cols in ((lib, ["C%02d" % i for i in range(1, 13)]), (cli, ["C%02d" % i for i in range(13, 21)])):
            if not grp:
                continue
            lines.append("| seeded change | breaks | " + " | ".join(cols) + " | first run (before strengthening) |")
            lines.append("|---|---|" + "|".join(["---"] * len(cols)) + "|---|")
            for d, row, meta in grp:
                cells = []
                for c in cols:
                    v = row.get(c)
                    if not isinstance(v, dict) or v["rc"] == 0:
                        cells.append(".")
                    elif "no-failing-input-found" in v.get("first", "") and v["violations"] == 1:
                        cells.append("v")
                    else:
                        cells.append("**V**")
                first = meta.get("first_run_detected_by")
                if first is None:
                    fr = "; ".join("%s: %s" % (k, v) for k, v in meta.get("detected_by", {}).items() if "miss" in v.lower()) or "detected"
                else:
                    fr = ("detected by " + " ".join(first)) if first else "**missed by every check** - see the strengthening table"
                lines.append("| `%s` | %s | %s | %s |" % (d, " ".join(meta.get("breaks", [])), " | ".join(cells), fr))
            lines.append("")
    # rounds whose changes were run against their target properties (and a few neighbours) rather than against every
    # check: one row per change, from seeded/*/meta.json (`first_run`, `targeted_runs`)
    later = []
    for d in sorted(os.listdir(os.path.join(ROOT, "seeded"))):
        meta_p = os.path.join(ROOT, "seeded", d, "meta.json")
        if not os.path.exists(meta_p):
            continue
        meta = json.load(open(meta_p))
        if meta.get("round", 1) >= 3 and d not in m or meta.get("round", 1) >= 5:
            later.append((d, meta))
    if later:
        lines.append("**Rounds 3-6, targeted runs** - each change applied to `/repo` and run against the properties it breaks and "
                     "their neighbours (`tools/seedtest.py`); `V` / `v` / `.` as above. \"first run\" is the outcome before any "
                     "strengthening prompted by that round.\n")
        lines.append("| seeded change | round | breaks | needs in order to manifest | first run | checks now (targeted) |")
        lines.append("|---|---|---|---|---|---|")
        for d, meta in later:
            first = meta.get("first_run_detected_by")
            fr = "not recorded" if first is None else (("detected by " + " ".join(first)) if first else "**missed by every check run**")
            tr = meta.get("targeted_runs") or {}
            now = " ".join("%s:%s" % (k, v) for k, v in sorted(tr.items())) or "-"
            lines.append("| `%s` | %s | %s | %s | %s | %s |" % (d, meta.get("round"), " ".join(meta.get("breaks", [])), (meta.get("needs_to_manifest") or "see README.md").replace("|", "\\|"), fr, now))
        lines.append("")
    return "\n".join(lines)


def main():
    d = read("DESIGN.md")
    i = d.find(MARK)
    base = d[:i].rstrip() + "\n\n" if i >= 0 else d.rstrip() + "\n\n---------------------------------------------------------------------------------------\n\n"
    parts = [read("tools/asbuilt_head.md"),
             "*generated - table 8.3a: what decides each property*\n\n" + table_83() + "\n\n",
             "*generated - table 8.3b: what the theorems cover and what is trusted (from `tools/props.py`)*\n\n" + table_not_modelled() + "\n\n",
             read("tools/asbuilt_mid.md"),
             "### 8.7 Seeded changes: which checks catch which\n\n*generated from `seeded/MATRIX.json` (`tools/seedmatrix.py`) and `seeded/*/meta.json`*\n\n" + matrix_tables() + "\n",
             read("tools/asbuilt_tail.md")]
    with open(os.path.join(ROOT, "DESIGN.md"), "w") as f:
        f.write(base + "".join(parts))
    print("DESIGN.md section 8 regenerated (%d bytes)" % sum(len(p) for p in parts))


if __name__ == "__main__":
    main()
