//! Independent semantic normal form `N` over full_moon ASTs (C02 oracle).
//!
//! N strips all trivia, drops every `Parentheses` node except those that truncate a
//! multi-value expression in a multi-value position (marked ⟦T … ⟧), makes operator grouping
//! explicit (⟨ … ⟩ around every unary / binary node), decodes string literals to their
//! value, normalises `.5` → `0.5`, rewrites call sugar `f"s"` / `f{t}` to `f("s")` /
//! `f({t})`, replaces table separators by `,` without a trailing one, and drops
//! semicolons. It never consults StyLua.
use crate::lexutil::decode51;
use full_moon::ast::punctuated::{Pair, Punctuated};
use full_moon::ast::span::ContainedSpan;
use full_moon::ast::*;
use full_moon::tokenizer::{StringLiteralQuoteType, Token, TokenReference, TokenType};
use full_moon::visitors::VisitorMut;

fn ident(s: &str) -> TokenReference {
    TokenReference::new(
        vec![],
        Token::new(TokenType::Identifier { identifier: s.into() }),
        vec![Token::new(TokenType::spaces(1))],
    )
}

fn is_marker(c: &ContainedSpan) -> bool {
    c.tokens().0.token().to_string().starts_with('⟦')
}

fn peel(e: &Expression) -> (&Expression, usize) {
    let mut n = 0;
    let mut cur = e;
    while let Expression::Parentheses { expression, .. } = cur {
        cur = expression;
        n += 1;
    }
    (cur, n)
}

fn is_multi(e: &Expression) -> bool {
    match e {
        Expression::FunctionCall(_) => true,
        Expression::Symbol(t) => t.token().to_string() == "...",
        _ => false,
    }
}

/// marks a truncating parenthesis in a multi-value (last) position
fn mark_last(p: &Punctuated<Expression>) -> Punctuated<Expression> {
    let n = p.len();
    let mut out = Punctuated::new();
    for (i, pair) in p.pairs().enumerate() {
        let (v, punct) = match pair {
            Pair::Punctuated(v, t) => (v.clone(), Some(t.clone())),
            Pair::End(v) => (v.clone(), None),
        };
        let v = if i + 1 == n { mark_expr(v) } else { v };
        out.push(Pair::new(v, punct));
    }
    out
}

fn mark_expr(v: Expression) -> Expression {
    let (inner, k) = peel(&v);
    if k > 0 && is_multi(inner) {
        Expression::Parentheses {
            contained: ContainedSpan::new(ident("⟦T"), ident("⟧")),
            expression: Box::new(inner.clone()),
        }
    } else {
        v
    }
}

pub fn long_value(b: &str) -> Vec<u32> {
    let cs: Vec<char> = b.chars().collect();
    let mut out = Vec::new();
    let mut i = 0;
    while i < cs.len() {
        let c = cs[i];
        if c == '\n' || c == '\r' {
            if i + 1 < cs.len() && (cs[i + 1] == '\n' || cs[i + 1] == '\r') && cs[i + 1] != c {
                i += 1;
            }
            out.push(10);
        } else {
            let mut buf = [0u8; 4];
            for x in c.encode_utf8(&mut buf).bytes() {
                out.push(x as u32);
            }
        }
        i += 1;
    }
    if out.first() == Some(&10) {
        out.remove(0);
    }
    out
}

struct Norm;

impl VisitorMut for Norm {
    fn visit_return(&mut self, r: Return) -> Return {
        let rs = mark_last(r.returns());
        r.with_returns(rs)
    }
    fn visit_assignment(&mut self, a: Assignment) -> Assignment {
        let es = mark_last(a.expressions());
        a.with_expressions(es)
    }
    fn visit_local_assignment(&mut self, a: LocalAssignment) -> LocalAssignment {
        let es = mark_last(a.expressions());
        a.with_expressions(es)
    }
    fn visit_generic_for(&mut self, g: GenericFor) -> GenericFor {
        let es = mark_last(g.expressions());
        g.with_expressions(es)
    }
    fn visit_function_args(&mut self, a: FunctionArgs) -> FunctionArgs {
        match a {
            FunctionArgs::Parentheses { parentheses, arguments } => FunctionArgs::Parentheses {
                parentheses,
                arguments: mark_last(&arguments),
            },
            other => other,
        }
    }
    fn visit_function_args_end(&mut self, a: FunctionArgs) -> FunctionArgs {
        let wrap = |e: Expression| {
            let mut p = Punctuated::new();
            p.push(Pair::End(e));
            FunctionArgs::Parentheses {
                parentheses: ContainedSpan::new(ident("("), ident(")")),
                arguments: p,
            }
        };
        match a {
            FunctionArgs::String(t) => wrap(Expression::String(t)),
            FunctionArgs::TableConstructor(t) => wrap(Expression::TableConstructor(t)),
            FunctionArgs::Parentheses { parentheses: _, arguments } => FunctionArgs::Parentheses {
                parentheses: ContainedSpan::new(ident("("), ident(")")),
                arguments,
            },
            other => other,
        }
    }
    fn visit_table_constructor(&mut self, t: TableConstructor) -> TableConstructor {
        // last positional field is a multi-value position
        let n = t.fields().len();
        let mut out = Punctuated::new();
        for (i, pair) in t.fields().pairs().enumerate() {
            let (v, punct) = match pair {
                Pair::Punctuated(v, p) => (v.clone(), Some(p.clone())),
                Pair::End(v) => (v.clone(), None),
            };
            let v = match v {
                Field::NoKey(e) if i + 1 == n => Field::NoKey(mark_expr(e)),
                other => other,
            };
            out.push(Pair::new(v, punct));
        }
        t.with_fields(out)
    }
    fn visit_table_constructor_end(&mut self, t: TableConstructor) -> TableConstructor {
        let n = t.fields().len();
        let mut out = Punctuated::new();
        for (i, pair) in t.fields().pairs().enumerate() {
            let v = pair.value().clone();
            if i + 1 == n {
                out.push(Pair::End(v));
            } else {
                out.push(Pair::Punctuated(v, ident(",")));
            }
        }
        t.with_fields(out)
    }
    fn visit_block_end(&mut self, b: Block) -> Block {
        let stmts: Vec<(Stmt, Option<TokenReference>)> =
            b.stmts_with_semicolon().map(|(s, _)| (s.clone(), None)).collect();
        let last = b.last_stmt_with_semicolon().map(|(l, _)| (l.clone(), None));
        b.with_stmts(stmts).with_last_stmt(last)
    }
    fn visit_expression_end(&mut self, e: Expression) -> Expression {
        match e {
            Expression::Parentheses { contained, expression } => {
                if is_marker(&contained) {
                    Expression::Parentheses { contained, expression }
                } else {
                    *expression
                }
            }
            e @ (Expression::BinaryOperator { .. } | Expression::UnaryOperator { .. } | Expression::TypeAssertion { .. }) => {
                Expression::Parentheses {
                    contained: ContainedSpan::new(ident("⟨"), ident("⟩")),
                    expression: Box::new(e),
                }
            }
            other => other,
        }
    }
    fn visit_eof(&mut self, _t: TokenReference) -> TokenReference {
        TokenReference::new(vec![], Token::new(TokenType::Eof), vec![])
    }
    fn visit_type_info_end(&mut self, t: luau::TypeInfo) -> luau::TypeInfo {
        use luau::TypeInfo;
        let wrap = |t: TypeInfo| {
            let mut p = Punctuated::new();
            p.push(Pair::End(t));
            TypeInfo::Tuple { parentheses: ContainedSpan::new(ident("⟨"), ident("⟩")), types: p }
        };
        match t {
            TypeInfo::Tuple { parentheses, types } => {
                let single = types.len() == 1 && matches!(types.pairs().next(), Some(Pair::End(_)));
                if single && !parentheses.tokens().0.token().to_string().starts_with('⟨') {
                    types.into_iter().next().unwrap()
                } else {
                    TypeInfo::Tuple { parentheses, types }
                }
            }
            // unions and intersections are associative: `(A | B) | C` is the type `A | B | C`
            TypeInfo::Union(u) => {
                let mut members: Vec<TypeInfo> = Vec::new();
                for m in u.types().iter() {
                    match unwrap_marker(m) {
                        Some(TypeInfo::Union(inner)) => members.extend(inner.types().iter().cloned()),
                        _ => members.push(m.clone()),
                    }
                }
                wrap(TypeInfo::Union(luau::TypeUnion::new(None, join(members, "|"))))
            }
            TypeInfo::Intersection(u) => {
                let mut members: Vec<TypeInfo> = Vec::new();
                for m in u.types().iter() {
                    match unwrap_marker(m) {
                        Some(TypeInfo::Intersection(inner)) => members.extend(inner.types().iter().cloned()),
                        _ => members.push(m.clone()),
                    }
                }
                wrap(TypeInfo::Intersection(luau::TypeIntersection::new(None, join(members, "&"))))
            }
            t @ (TypeInfo::Optional { .. } | TypeInfo::Callback { .. } | TypeInfo::Variadic { .. }) => wrap(t),
            TypeInfo::Table { braces, fields } => {
                let n = fields.len();
                let mut out = Punctuated::new();
                for (i, pair) in fields.pairs().enumerate() {
                    let v = pair.value().clone();
                    if i + 1 == n {
                        out.push(Pair::End(v));
                    } else {
                        out.push(Pair::Punctuated(v, ident(",")));
                    }
                }
                TypeInfo::Table { braces, fields: out }
            }
            other => other,
        }
    }
    fn visit_token_reference(&mut self, t: TokenReference) -> TokenReference {
        let tok = match t.token().token_type() {
            TokenType::StringLiteral { literal, quote_type, .. } => {
                let val: Vec<u32> = match quote_type {
                    StringLiteralQuoteType::Brackets => long_value(literal),
                    _ => decode51(literal),
                };
                let text: String = val.iter().map(|x| format!("{:x}.", x)).collect();
                Token::new(TokenType::StringLiteral {
                    literal: text.into(),
                    multi_line_depth: 0,
                    quote_type: StringLiteralQuoteType::Double,
                })
            }
            TokenType::Number { text } => {
                let s = text.to_string();
                let s = if s.starts_with('.') { format!("0{}", s) } else { s };
                Token::new(TokenType::Number { text: s.into() })
            }
            _ => t.token().clone(),
        };
        TokenReference::new(vec![], tok, vec![Token::new(TokenType::spaces(1))])
    }
}

/// the content of a `⟨ … ⟩` grouping marker put around a compound type
fn unwrap_marker(t: &luau::TypeInfo) -> Option<&luau::TypeInfo> {
    if let luau::TypeInfo::Tuple { parentheses, types } = t {
        if types.len() == 1 && parentheses.tokens().0.token().to_string().starts_with('⟨') {
            return types.iter().next();
        }
    }
    None
}

fn join(members: Vec<luau::TypeInfo>, sep: &str) -> Punctuated<luau::TypeInfo> {
    let n = members.len();
    let mut p = Punctuated::new();
    for (i, m) in members.into_iter().enumerate() {
        if i + 1 == n {
            p.push(Pair::End(m));
        } else {
            p.push(Pair::Punctuated(m, ident(sep)));
        }
    }
    p
}

pub fn normal_form(ast: Ast) -> String {
    let mut n = Norm;
    let ast = n.visit_ast(ast);
    ast.to_string()
}
