//! Generated members of the closed set: deterministic program families that the repository's test
//! inputs do not contain. Each member is one small program with its own identity (so a failure
//! is reported, and a known finding is listed, per program and configuration).
use crate::pipe::Item;
use stylua_lib::LuaVersion;

#[derive(Clone, Debug)]
pub enum T {
    N(&'static str),
    Opt(Box<T>),
    Union(Box<T>, Box<T>),
    Inter(Box<T>, Box<T>),
    Fn0(Box<T>),
    Fn1(Box<T>, Box<T>),
    Arr(Box<T>),
    Gen(Box<T>),
}

impl T {
    /// the tree in the model's notation (no parentheses)
    pub fn sexp(&self) -> String {
        match self {
            T::N(n) => format!("N{}", crate::c02t::name_id(n)),
            T::Opt(a) => format!("O({})", a.sexp()),
            T::Union(a, b) => format!("U({},{})", a.sexp(), b.sexp()),
            T::Inter(a, b) => format!("I({},{})", a.sexp(), b.sexp()),
            T::Fn0(r) => format!("F()>{}", r.sexp()),
            T::Fn1(a, r) => format!("F({})>{}", a.sexp(), r.sexp()),
            T::Arr(a) => format!("T({})", a.sexp()),
            T::Gen(a) => format!("G{}(N{},{})", crate::c02t::name_id("Map"), crate::c02t::name_id("string"), a.sexp()),
        }
    }
    fn compound(&self) -> bool {
        !matches!(self, T::N(_) | T::Arr(_) | T::Gen(_))
    }
    /// number of nodes (pre-order positions)
    pub fn size(&self) -> usize {
        match self {
            T::N(_) => 1,
            T::Opt(a) | T::Fn0(a) | T::Arr(a) | T::Gen(a) => 1 + a.size(),
            T::Union(a, b) | T::Inter(a, b) | T::Fn1(a, b) => 1 + a.size() + b.size(),
        }
    }
    /// print; `base` = parentheses around every compound child (0 = none at all),
    /// `extra` = additional pairs around the node at pre-order position `at`
    pub fn print(&self, base: usize, at: usize, extra: usize, pos: &mut usize, top: bool) -> String {
        let me = *pos;
        *pos += 1;
        let inner = match self {
            T::N(n) => n.to_string(),
            T::Opt(a) => format!("{}?", a.print(base, at, extra, pos, false)),
            T::Union(a, b) => {
                let x = a.print(base, at, extra, pos, false);
                let y = b.print(base, at, extra, pos, false);
                format!("{} | {}", x, y)
            }
            T::Inter(a, b) => {
                let x = a.print(base, at, extra, pos, false);
                let y = b.print(base, at, extra, pos, false);
                format!("{} & {}", x, y)
            }
            T::Fn0(r) => format!("() -> {}", r.print(base, at, extra, pos, false)),
            T::Fn1(a, r) => {
                let x = a.print(base, at, extra, pos, true);
                let y = r.print(base, at, extra, pos, false);
                format!("({}) -> {}", x, y)
            }
            T::Arr(a) => format!("{{ {} }}", a.print(base, at, extra, pos, true)),
            T::Gen(a) => format!("Map<string, {}>", a.print(base, at, extra, pos, true)),
        };
        let mut n = if self.compound() && !top { base } else { 0 };
        if me == at {
            n += extra;
        }
        format!("{}{}{}", "(".repeat(n), inner, ")".repeat(n))
    }
}

pub fn cores() -> Vec<T> {
    let l0 = vec![T::N("A")];
    let next = |es: &Vec<T>, second: &'static str| -> Vec<T> {
        let mut v = es.clone();
        for e in es {
            v.push(T::Opt(Box::new(e.clone())));
            v.push(T::Fn0(Box::new(e.clone())));
            v.push(T::Arr(Box::new(e.clone())));
            v.push(T::Gen(Box::new(e.clone())));
        }
        for a in es {
            for b in [T::N(second)].iter().chain(es.iter().take(4)) {
                v.push(T::Union(Box::new(a.clone()), Box::new(b.clone())));
                v.push(T::Inter(Box::new(a.clone()), Box::new(b.clone())));
                v.push(T::Fn1(Box::new(a.clone()), Box::new(b.clone())));
            }
        }
        v
    };
    let l1 = next(&l0, "B");
    next(&l1, "C")
}

/// Luau type expressions with parentheses at every position (the rule of luau.rs that decides
/// which type parentheses are redundant), in the positions a type can stand in
pub fn luau_types() -> Vec<Item> {
    let mut texts: Vec<String> = Vec::new();
    for t in cores() {
        let n = t.size();
        let mut variants: Vec<String> = Vec::new();
        variants.push(t.print(0, usize::MAX, 0, &mut 0, true));
        variants.push(t.print(1, usize::MAX, 0, &mut 0, true));
        variants.push(t.print(2, usize::MAX, 0, &mut 0, true));
        for at in 0..n {
            variants.push(t.print(1, at, 1, &mut 0, true));
            variants.push(t.print(0, at, 2, &mut 0, true));
        }
        for v in variants {
            if !texts.contains(&v) {
                texts.push(v);
            }
        }
    }
    let mut out = Vec::new();
    for (i, ty) in texts.iter().enumerate() {
        let ctxs = [
            format!("type T = {}\n", ty),
            format!("local x: {} = nil\n", ty),
            format!("local function f(a: {}): {}\nend\n", ty, ty),
            format!("local x = y :: {}\n", ty),
            format!("type T = {{ f: {}, [string]: {} }}\n", ty, ty),
        ];
        for (j, text) in ctxs.iter().enumerate() {
            // one context per type in rotation, all five for the first 400
            if i < 400 || i % 5 == j {
                out.push(Item { rel: format!("gen/luau-type#{}.{}", i, j), syntax: LuaVersion::Luau, text: text.clone() });
            }
        }
    }
    out
}

/// multi-line call arguments whose operator chains were wrapped by hand: the one-line form of the chain
/// is close to the column width (just fits / just does not), the text as written is much wider
/// (line breaks and deep space indentation). Layout decisions must not depend on how the input was wrapped.
pub fn wrapped_args() -> Vec<Item> {
    let mut out = Vec::new();
    let mut k = 0;
    for width in [40usize, 80, 120] {
        // the argument sits at one indent level (4 columns) and is followed by a comma
        for slack in -3i64..=12 {
            let target = (width as i64 - 4 - 1 - slack) as usize; // one-line length of the chain
            // four operands joined by " + " (9 characters of operators)
            if target < 9 + 4 {
                continue;
            }
            let body = target - 9;
            let lens = [body / 4 + body % 4, body / 4, body / 4, body / 4];
            let names: Vec<String> = lens.iter().enumerate().map(|(i, l)| format!("{}{}", ["a", "b", "c", "d"][i], "x".repeat(l.saturating_sub(1)))).collect();
            for style in 0..3 {
                let (sep, ind) = match style {
                    0 => ("\n", "            "), // space-indented continuation lines
                    1 => ("\n", "\t\t"),
                    _ => (" ", ""),               // already on one line
                };
                let chain = format!("{}{}{}+ {}{}{}+ {}{}{}+ {}", names[0], sep, ind, names[1], sep, ind, names[2], sep, ind, names[3]);
                let text = format!("register(\n    first,\n    {},\n    last\n)\n", chain);
                out.push(Item { rel: format!("gen/wrapped-args#{}.w{}.s{}.{}", k, width, slack, style), syntax: LuaVersion::Lua51, text });
                let text2 = format!("local v = compute(\n    first,\n    {}\n)\n", chain);
                out.push(Item { rel: format!("gen/wrapped-args#{}.w{}.s{}.{}.local", k, width, slack, style), syntax: LuaVersion::Lua51, text: text2 });
                k += 1;
            }
        }
    }
    out
}

pub fn all() -> Vec<Item> {
    let mut v = luau_types();
    v.extend(wrapped_args());
    v
}
