//! C03 / C10 — ring 2 for Model/Trivia.lean: the leading trivia of the first token of a file
//! goes through `format_token_reference` → `load_token_trivia`; the bytes in front of that
//! token in the real output must equal the model's rendering.
use crate::util::*;
use serde_json::json;
use stylua_lib::{LineEndings, LuaVersion, Range};

pub fn run(tier: &str, seed: u64) -> Sink {
    let n = if tier == "thorough" { 200000 } else { 30000 };
    let texts = ["c", "c  ", " c\t", "", "-", "[x", "a\rb ", "é "];
    let btexts = ["c", "c\nd", "c\r\nd", " c \n\n d ", "", "x\r\ny\nz", "]"];
    let parts = par_map(n, threads(), |i| {
        let mut sink = Sink::default();
        let mut r = Rng::new(seed.wrapping_mul(31337) ^ (i as u64) ^ 0xC03);
        let len = r.below(7);
        let mut src = String::new();
        let mut items: Vec<String> = Vec::new();
        let crlf_input = r.chance(1, 3);
        let nl = if crlf_input { "\r\n" } else { "\n" };
        src.push_str("local aa = 0");
        src.push_str(nl);
        for _ in 0..len {
            match r.below(6) {
                0 | 1 => {
                    src.push_str(nl);
                    items.push("w1".into());
                }
                2 => {
                    let w = ["  ", "\t", " \t "][r.below(3)];
                    src.push_str(w);
                    items.push("w0".into());
                }
                3 | 4 => {
                    let t = texts[r.below(texts.len())];
                    src.push_str("--");
                    src.push_str(t);
                    src.push_str(nl);
                    // full_moon keeps the `\r` of a CRLF ending inside the comment token
                    let tok = format!("{}{}", t, if crlf_input { "\r" } else { "" });
                    items.push(format!("L{}", hex(tok.as_bytes())));
                    items.push("w1".into());
                }
                _ => {
                    let t = btexts[r.below(btexts.len())];
                    let lvl = r.below(3);
                    if lvl == 0 && t.contains(']') {
                        continue;
                    }
                    let eqs = "=".repeat(lvl);
                    src.push_str(&format!("--[{}[{}]{}]", eqs, t, eqs));
                    items.push(format!("B{}.{}", lvl, hex(t.as_bytes())));
                    if r.chance(1, 2) {
                        src.push_str(nl);
                        items.push("w1".into());
                    } else {
                        src.push(' ');
                        items.push("w0".into());
                    }
                }
            }
        }
        // one program in three ends here: the trivia is then the end-of-file token's (Model/Eof.lean)
        let eof_mode = r.chance(1, 3);
        if !eof_mode {
            src.push_str("local zz = 1");
            src.push_str(nl);
        }
        // the tokenizer's own view of the leading trivia (so that the request describes what
        // the code receives): re-lex and compare the comment count as a sanity check
        let mut c = cfg();
        c.syntax = LuaVersion::Lua51;
        let eol_crlf = r.chance(1, 2);
        c.line_endings = if eol_crlf { LineEndings::Windows } else { LineEndings::Unix };
        if !parses(&src, c.syntax) {
            return sink;
        }
        // describe the leading trivia as the tokenizer delivers it (whitespace runs end at a newline)
        items.clear();
        if let Some(toks) = crate::lexutil::tokens(&src, c.syntax) {
            use full_moon::tokenizer::TokenType;
            // skip the first statement and the newline that ends its line
            let mut started = false;
            let mut seen_number = false;
            for t in toks {
                if !started {
                    match t.token_type() {
                        TokenType::Number { .. } => seen_number = true,
                        TokenType::Whitespace { characters } if seen_number && characters.contains('\n') => started = true,
                        _ => {}
                    }
                    continue;
                }
                match t.token_type() {
                    TokenType::Whitespace { characters } => items.push(if characters.contains('\n') { "w1".to_string() } else { "w0".to_string() }),
                    TokenType::SingleLineComment { comment } => items.push(format!("L{}", hex(comment.as_bytes()))),
                    TokenType::MultiLineComment { blocks, comment } => items.push(format!("B{}.{}", blocks, hex(comment.as_bytes()))),
                    TokenType::Shebang { line } => items.push(format!("S{}", hex(line.as_bytes()))),
                    _ => break,
                }
            }
        }
        if eof_mode {
            let first_len = "local aa = 0".len() + nl.len();
            // sometimes a range that ends with the first statement: the end of the file is then outside it
            let ranged = r.chance(1, 4);
            let range = if ranged { Some(Range::from_values(Some(0), Some("local aa = 0".len()))) } else { None };
            if let Outcome::Ok(out) = fmt(&src, c, range, false) {
                let eol = if eol_crlf { "\r\n" } else { "\n" };
                let req = format!("eof {} {} {}", if eol_crlf { "crlf" } else { "lf" }, if ranged { 0 } else { 1 }, if items.is_empty() { "-".to_string() } else { items.join(";") });
                if ranged {
                    // untouched: the bytes after the first statement's line are the input's
                    let tail_in = &src[first_len..];
                    let obs = if out.ends_with(tail_in) && out.len() >= tail_in.len() && !out[..out.len() - tail_in.len()].is_empty() { "untouched".to_string() } else { format!("changed:{}", hex(out.as_bytes())) };
                    if obs.starts_with("changed") && std::env::var("C03_DEBUG").is_ok() {
                        eprintln!("DBG {:?} -> {:?} cfg={}", src, out, cfg_to_string(&c));
                    }
                    sink.q(req, obs);
                } else {
                    let start = format!("local aa = 0{}", eol);
                    if out.starts_with(&start) {
                        let tail = &out[start.len()..];
                        sink.q(req, format!("x{}", if tail.is_empty() { "-".to_string() } else { hex(tail.as_bytes()) }));
                        // C10, independently: a formatted file ends with exactly one line ending
                        if out.ends_with(&format!("{}{}", eol, eol)) || !out.ends_with(eol) || out.ends_with(&format!(" {}", eol)) || out.ends_with(&format!("\t{}", eol)) {
                            sink.v("C10", "eof:not-exactly-one-line-ending", json!({"input": src, "config": cfg_to_string(&c), "output": out}));
                        }
                    } else {
                        sink.v("C03", "trivia:first-statement-changed", json!({"input": src, "config": cfg_to_string(&c), "output": out}));
                    }
                }
            }
            return sink;
        }
        if let Outcome::Ok(out) = fmt(&src, c, None, false) {
            let eol = if eol_crlf { "\r\n" } else { "\n" };
            let start = format!("local aa = 0{}", eol);
            if let (Some(p), true) = (out.find("local zz"), out.starts_with(&start)) {
                if !items.is_empty() {
                    sink.q(
                        format!("trivia {} {}", if eol_crlf { "crlf" } else { "lf" }, items.join(";")),
                        hex(out[start.len()..p].as_bytes()),
                    );
                }
            } else {
                sink.v("C03", "trivia:first-token-swallowed", json!({"input": src, "config": cfg_to_string(&c), "output": out}));
            }
        }
        sink
    });
    let mut sink = Sink::default();
    for s in parts {
        sink.merge(s);
    }
    sink.s(json!({"c03_trivia": {"generated": n}}));
    sink.merge(crate::semi::run(tier, seed));
    sink.merge(crate::semi::run_hang(tier, seed));
    sink.merge(crate::semi::run_fieldkey(tier, seed));
    sink.merge(crate::semi::run_endtoken(tier, seed));
    sink.merge(crate::semi::run_punct(tier, seed));
    sink.merge(crate::semi::run_sugar(tier, seed));
    sink.merge(crate::semi::run_tablefield(tier, seed));
    sink.merge(crate::semi::run_callarg(tier, seed));
    sink
}
