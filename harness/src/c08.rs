//! C08 (ignore directives) and C09 (range formatting): generated blocks.
//! ring 2: `block` protocol — per statement: reproduced verbatim or formatted, semicolon kept
//!         or not — against Model/Block.lean.
//! ring 3: C08: source slice of every ignored statement (with its semicolon) occurs unchanged,
//!         in order; everything else is formatted. C09: statements not wholly inside the range
//!         keep their exact text, bytes before/after the affected region are unchanged,
//!         statements inside come out as in whole-file formatting.
use crate::util::*;
use serde_json::json;
use stylua_lib::{LuaVersion, Range};

#[derive(Clone)]
struct St {
    id: usize,
    kind: &'static str, // assignment | localAssignment | call | repeatB | other
    raw: String,        // unformatted source text of the statement (no semicolon)
    fmt_first: String,  // first line of its formatted form (unique)
    starts_paren: bool,
    semi: bool,
    lines: Vec<&'static str>, // directive classification of the leading comment lines
    lead: String,             // leading comment text (with newlines)
    trail: String,            // trailing comment on the statement's line
    is_last: bool,
    blank: usize, // blank lines in front of the statement's leading comments
}

const DIRECTIVES: &[(&str, &str)] = &[
    ("-- stylua: ignore\n", "ignore"),
    ("--stylua: ignore\n", "ignore"),
    ("--   stylua: ignore   \n", "ignore"),
    ("--[[ stylua: ignore ]]\n", "ignore"),
    ("--[[\n  stylua: ignore\n]]\n", "ignore"),
    ("-- stylua: ignore start\n", "ignoreStart"),
    ("-- stylua: ignore end\n", "ignoreEnd"),
    ("--[[ stylua: ignore start ]]\n", "ignoreStart"),
    ("--[[ stylua: ignore end ]]\n", "ignoreEnd"),
    ("-- stylua:ignore\n", "other"),
    ("-- stylua: ignore next\n", "other"),
    ("-- a comment\n", "other"),
    ("-- stylua: ignore start please\n", "other"),
    // the directive as one line of a block comment that holds other text too (the rule is per comment line)
    ("--[[\n  generated, keep the layout\n  stylua: ignore\n]]\n", "ignore"),
    ("--[[ region\n  stylua: ignore start\n  until further notice\n]]\n", "ignoreStart"),
    ("--[[\n  stylua: ignore end\n  (region above)\n]]\n", "ignoreEnd"),
    ("--[[\n  not a directive: stylua: ignore\n]]\n", "other"),
];

fn make_stmt(r: &mut Rng, id: usize, allow_paren: bool) -> St {
    let k = match r.below(if allow_paren { 16 } else { 14 }) {
        // two shapes whose right-hand side loses redundant parentheses when formatted (the semicolon decision must not
        // depend on whether it looks at the statement before or after formatting), and two that end in a call whose
        // last argument is a function / an empty table (the last token is `)`, not `end` / `}`)
        10 => 100,
        11 => 101,
        12 => 102,
        13 => 103,
        14 => 10,
        15 => 11,
        k => k,
    };
    let (kind, raw, fmt_first, starts_paren): (&'static str, String, String, bool) = match k {
        0 | 1 => ("localAssignment", format!("local   v{}  =  {{  1,2  }}", id), format!("local v{} = {{ 1, 2 }}", id), false),
        2 => ("assignment", format!("v{}   =  f{}", id, id), format!("v{} = f{}", id, id), false),
        3 | 4 => ("call", format!("f{}(  1,2  )", id), format!("f{}(1, 2)", id), false),
        5 => ("repeatB", format!("repeat   x{}=1   until   c{}", id, id), "repeat".to_string(), false),
        6 => ("other", format!("do   local w{}=1   end", id), "do".to_string(), false),
        7 => ("other", format!("if   c{}   then   g{}(  )   end", id, id), format!("if c{} then", id), false),
        8 => ("other", format!("while   c{}   do   g{}(  )   end", id, id), format!("while c{} do", id), false),
        9 => ("other", format!("function   h{}(  a,b  )   return   a   end", id), format!("function h{}(a, b)", id), false),
        100 => {
            let lit = ["1", "{}", "\"s\"", "nil"][r.below(4)];
            ("localAssignment", format!("local   u{}  =  (  {}  )", id, lit), format!("local u{} = {}", id, lit), false)
        }
        101 => ("assignment", format!("u{}   =  ((  function() end  ))", id), format!("u{} = function() end", id), false),
        102 => ("localAssignment", format!("local   u{}  =  f{}(  function() end  )", id, id), format!("local u{} = f{}(function() end)", id, id), false),
        103 => ("call", format!("f{}(  1,  {{}}  )", id), format!("f{}(1, {{}})", id), false),
        10 => ("call", format!("(g{}   or   h{})(  )", id, id), format!("(g{} or h{})()", id, id), true),
        _ => ("assignment", format!("(g{}).x   =  1", id), format!("(g{}).x = 1", id), true),
    };
    let mut lines = Vec::new();
    let mut lead = String::new();
    let nd = match r.below(10) {
        0..=4 => 0,
        5..=7 => 1,
        _ => 2,
    };
    for _ in 0..nd {
        let (t, c) = DIRECTIVES[r.below(DIRECTIVES.len())];
        lead.push_str(t);
        lines.push(c);
    }
    let semi = r.chance(1, 3);
    let trail = if r.chance(1, 5) { format!(" -- t{}", id) } else { String::new() };
    St { id, kind, raw, fmt_first, starts_paren, semi, lines, lead, trail, is_last: false, blank: 0 }
}

struct Prog {
    text: String,
    stmts: Vec<St>,
    spans: Vec<(usize, usize, usize)>, // (start, end of statement text, end incl. semicolon)
}

fn build(stmts: &[St], one_line: bool) -> Prog {
    let mut text = String::new();
    let mut spans = Vec::new();
    for (i, s) in stmts.iter().enumerate() {
        if i == 0 || !one_line {
            for _ in 0..s.blank {
                text.push('\n');
            }
            text.push_str(&s.lead);
        }
        let a = text.len();
        text.push_str(&s.raw);
        let b = text.len();
        if s.semi {
            text.push(';');
        }
        let c = text.len();
        spans.push((a, b, c));
        text.push_str(&s.trail);
        if one_line && s.trail.is_empty() && i + 1 < stmts.len() && stmts[i + 1].lead.is_empty() {
            text.push(' ');
        } else {
            text.push('\n');
        }
    }
    Prog { text, stmts: stmts.to_vec(), spans }
}

/// the harness's own reading of the directive rules (independent of context.rs)
fn expected_ignored(stmts: &[St]) -> Vec<bool> {
    let mut disabled = false;
    let mut out = Vec::new();
    for s in stmts {
        for l in &s.lines {
            if *l == "ignoreStart" {
                disabled = true;
            } else if *l == "ignoreEnd" {
                disabled = false;
            }
        }
        out.push(disabled || s.lines.contains(&"ignore"));
    }
    out
}

pub fn variant() -> String {
    std::env::var("VERIF_BLOCK_VARIANT").unwrap_or_else(|_| "repaired".into())
}

fn descr(s: &St, span: (usize, usize, usize)) -> String {
    format!(
        "{}:{}:{}:{}:{}:{}:{}:{}",
        s.id,
        s.kind,
        s.starts_paren as u8,
        s.semi as u8,
        if s.lines.is_empty() { "-".to_string() } else { s.lines.join("+") },
        span.0,
        span.1,
        blank_observable(s) as u8
    )
}

/// blank lines directly above the statement's own first line, and that line can be found again
fn blank_observable(s: &St) -> bool {
    s.blank > 0 && s.lead.is_empty() && s.fmt_first != "repeat" && s.fmt_first != "do"
}

/// third observation: were the blank lines above the statement removed (`s`) or kept (`k`)?
fn observe_blank(out: &str, s: &St, v: char) -> char {
    if !blank_observable(s) {
        return '-';
    }
    let key = if v == 'V' { s.raw.clone() } else { s.fmt_first.clone() };
    match blank_before(out, &key) {
        Some(0) => 's',
        Some(_) => 'k',
        None => '?',
    }
}

/// observed outcome of one statement in the output: V (verbatim) / F (formatted) / ? and semicolon
fn observe(out: &str, s: &St) -> (char, bool) {
    if let Some(i) = out.find(&s.raw) {
        let after = &out[i + s.raw.len()..];
        return ('V', after.starts_with(';'));
    }
    // formatted: locate its (unique) first line, then the end of the statement
    let key = if s.fmt_first == "repeat" || s.fmt_first == "do" {
        // non-unique first line: find through the unique inner name
        let inner = if s.kind == "repeatB" { format!("x{} = 1", s.id) } else { format!("local w{} = 1", s.id) };
        match out.find(&inner) {
            Some(_) => inner,
            None => return ('?', false),
        }
    } else {
        s.fmt_first.clone()
    };
    match out.find(&key) {
        Some(i) => {
            // the statement's last line: for one-liners the key line itself
            let end_marker = match s.kind {
                "repeatB" => format!("until c{}", s.id),
                _ if s.fmt_first.starts_with("if ") || s.fmt_first.starts_with("while ") || s.fmt_first.starts_with("function ") || key.starts_with("local w") => "end".to_string(),
                _ => key.clone(),
            };
            let rest = &out[i..];
            match rest.find(&end_marker) {
                Some(j) => {
                    let after = &rest[j + end_marker.len()..];
                    ('F', after.starts_with(';'))
                }
                None => ('?', false),
            }
        }
        None => ('?', false),
    }
}

/// number of empty lines directly above the line that starts with `key`
fn blank_before(out: &str, key: &str) -> Option<usize> {
    let lines: Vec<&str> = out.split('\n').collect();
    let i = lines.iter().position(|l| l.trim_start().starts_with(key))?;
    let mut n = 0;
    let mut j = i;
    while j > 0 && lines[j - 1].trim().is_empty() {
        n += 1;
        j -= 1;
    }
    Some(n)
}

pub fn run(tier: &str, seed: u64) -> Sink {
    let thorough = tier == "thorough";
    let n = if thorough { 60000 } else { 8000 };
    let parts = par_map(n, threads(), |i| {
        let mut sink = Sink::default();
        let mut r = Rng::new(seed.wrapping_mul(1000003) ^ (i as u64) ^ 0xC08);
        let len = 1 + r.below(5);
        let mut stmts: Vec<St> = Vec::new();
        for k in 0..len {
            let s = make_stmt(&mut r, i * 10 + k, k > 0);
            stmts.push(s);
        }
        // optionally a last statement
        if r.chance(1, 4) {
            let id = i * 10 + 9;
            let mut s = make_stmt(&mut r, id, false);
            s.kind = "other";
            s.raw = format!("return   v{}", id);
            s.fmt_first = format!("return v{}", id);
            s.starts_paren = false;
            s.is_last = true;
            stmts.push(s);
        }
        // a statement starting with `(` must be separated from an expression-ending statement
        for k in 1..stmts.len() {
            // (a statement that ends in a table constructor cannot be continued by `(`: there the semicolon stays
            // optional in the input, so that "no semicolon written, one needed in the output" occurs as well)
            if stmts[k].starts_paren
                && matches!(stmts[k - 1].kind, "assignment" | "localAssignment" | "call" | "repeatB")
                && !stmts[k - 1].raw.trim_end().ends_with('}')
            {
                stmts[k - 1].semi = true;
            }
        }
        let mut rb = Rng::new(seed.wrapping_mul(104729) ^ (i as u64) ^ 0xB1A);
        for k in 0..stmts.len() {
            if rb.chance(1, 4) {
                stmts[k].blank = 1 + rb.below(2);
            }
        }
        let one_line = r.chance(1, 6);
        if one_line {
            // statements share a line: only the first one can carry leading comments
            for k in 1..stmts.len() {
                stmts[k].lines.clear();
                stmts[k].lead.clear();
                stmts[k].blank = 0;
            }
            for k in 0..stmts.len().saturating_sub(1) {
                stmts[k].trail.clear();
            }
        }
        let nested = r.chance(1, 4);
        let mut prog = build(&stmts, one_line);
        // what follows the last statement (the EOF token's leading trivia): usually nothing, sometimes blank
        // lines / indentation, which a range that ends earlier must leave alone. Drawn from a forked
        // generator so that the programs themselves are the same as without this clause.
        let mut rt = Rng::new(seed.wrapping_mul(7919) ^ (i as u64) ^ 0xE0F);
        let trailer = if !nested && rt.chance(1, 3) { *rt.pick(&["\n", "\n\n", "  \n", "\t\n\n  ", "\n\n\n"]) } else { "" };
        prog.text.push_str(trailer);
        let (text, off) = if nested {
            (format!("do\n{}end\n", prog.text), 3usize)
        } else {
            (prog.text.clone(), 0usize)
        };
        let mut c = cfg();
        c.syntax = LuaVersion::Lua51;
        if r.chance(1, 3) {
            c.column_width = *r.pick(&[60usize, 200, 80]);
        }
        if !parses(&text, c.syntax) {
            return (sink, 0usize, 0usize);
        }
        // ---------- C08: no range
        let exp = expected_ignored(&stmts);
        if let Outcome::Ok(out) = fmt(&text, c, None, false) {
            // C06 on every generated block: a second pass changes nothing (the semicolon, blank-line and directive
            // decisions are stable; these programs have no width-dependent layout)
            if let Outcome::Ok(out2) = fmt(&out, c, None, false) {
                if out2 != out {
                    // D40 (known finding): a statement that shares its line with a preceding *ignored* statement gets its
                    // indentation appended behind the ignored statement's own trailing blanks, once more on every pass
                    let first_diff = out.split('\n').zip(out2.split('\n')).find(|(a, b)| a != b);
                    let after_ignored = match first_diff {
                        Some((a, _)) => stmts.iter().zip(exp.iter()).any(|(s, e)| *e && a.trim_start().starts_with(&s.raw)),
                        None => false,
                    };
                    let sig = if after_ignored { "block:not-idempotent:statement-after-ignored-on-same-line" } else { "block:not-idempotent" };
                    sink.v("C06", sig, json!({"input": text, "config": cfg_to_string(&c), "output": out, "second_pass": out2}));
                }
            }
            let mut obs = Vec::new();
            let mut cursor = 0usize;
            for (k, s) in stmts.iter().enumerate() {
                let (v, semi) = observe(&out, s);
                obs.push(format!("{}{}{}", v, semi as u8, observe_blank(&out, s, v)));
                if exp[k] {
                    // ring 3: slice incl. semicolon unchanged, in order
                    let slice = &prog.text[prog.spans[k].0..prog.spans[k].2];
                    match out[cursor..].find(slice) {
                        Some(p) => cursor += p + slice.len(),
                        None => {
                            let what = if out.contains(&s.raw) { "semicolon-changed" } else { "text-changed" };
                            sink.v("C08", &format!("ignored-stmt:{}", what), json!({"input": text, "config": cfg_to_string(&c), "output": out, "statement": slice}));
                        }
                    }
                    // an ignored statement must not have gained a semicolon either
                    if !s.semi {
                        if let Some(p) = out.find(&s.raw) {
                            if out[p + s.raw.len()..].starts_with(';') {
                                sink.v("C08", "ignored-stmt:semicolon-added", json!({"input": text, "config": cfg_to_string(&c), "output": out, "statement": s.raw}));
                            }
                        }
                    }
                } else if v != 'F' {
                    sink.v("C08", "unignored-stmt-not-formatted", json!({"input": text, "config": cfg_to_string(&c), "output": out, "statement": s.raw}));
                }
            }
            if !nested {
                let d: Vec<String> = stmts.iter().zip(prog.spans.iter()).map(|(s, sp)| descr(s, *sp)).collect();
                sink.q(format!("block {} - - {}", variant(), d.join(",")), obs.join(","));
            }
            match (parse(&text, c.syntax), parse(&out, c.syntax)) {
                (_, None) => sink.v("C01", "block:unparseable-output", json!({"input": text, "config": cfg_to_string(&c), "output": out})),
                (Some(a), Some(b)) => {
                    // the statement sequence (and every statement) means what it meant: a lost `;` in front of
                    // a `(` merges two statements into one call
                    if crate::nf::normal_form(a) != crate::nf::normal_form(b) {
                        sink.v("C02", "block:meaning-changed", json!({"input": text, "config": cfg_to_string(&c), "output": out}));
                    }
                }
                _ => {}
            }
        }
        // ---------- C09: ranges (only programs without directives, so that C08 does not interfere)
        let mut ranges_done = 0usize;
        if stmts.iter().all(|s| s.lines.iter().all(|l| *l == "other")) {
            let whole = match fmt(&text, c, None, false) {
                Outcome::Ok(o) => o,
                _ => return (sink, 1, 0),
            };
            let m = stmts.len();
            let mut cands: Vec<(Option<usize>, Option<usize>)> = Vec::new();
            for a in 0..m {
                for b in a..m {
                    cands.push((Some(prog.spans[a].0 + off), Some(prog.spans[b].2 + off)));
                }
            }
            cands.push((None, Some(prog.spans[0].2 + off)));
            cands.push((Some(prog.spans[m - 1].0 + off), None));
            cands.push((Some(prog.spans[0].0 + off + 1), Some(prog.spans[m - 1].2 + off))); // mid-token start
            cands.push((Some(text.len() + 10), Some(text.len() + 20))); // out of bounds
            cands.push((Some(5), Some(2))); // inverted
            for (rs, re) in cands {
                ranges_done += 1;
                let range = Range::from_values(rs, re);
                let out = match fmt(&text, c, Some(range), false) {
                    Outcome::Ok(o) => o,
                    Outcome::Panic(p) => {
                        sink.v("C07", "panic:range", json!({"input": text, "config": cfg_to_string(&c), "range": [rs, re], "panic": p}));
                        continue;
                    }
                    _ => continue,
                };
                let inside = |k: usize| -> bool {
                    let (a, b, _) = prog.spans[k];
                    rs.map(|x| a + off >= x).unwrap_or(true) && re.map(|x| b + off <= x).unwrap_or(true)
                };
                // a compound statement that the range cuts into is not wholly inside, but statements
                // nested in it may be: such a statement is "affected" and exempt from the verbatim clause
                let compound = |k: usize| -> bool { stmts[k].kind == "other" && !stmts[k].is_last || stmts[k].kind == "repeatB" };
                let intersects = |k: usize| -> bool {
                    let (a, b, _) = prog.spans[k];
                    rs.map(|x| b + off > x).unwrap_or(true) && re.map(|x| a + off < x).unwrap_or(true)
                };
                let affected = |k: usize| -> bool { inside(k) || (compound(k) && intersects(k)) };
                let cut = (0..m).any(|k| !inside(k) && affected(k));
                let mut obs = Vec::new();
                for (k, s) in stmts.iter().enumerate() {
                    let (v, semi) = observe(&out, s);
                    obs.push(format!("{}{}{}", v, semi as u8, observe_blank(&out, s, v)));
                    if !inside(k) && affected(k) {
                        continue;
                    }
                    if !inside(k) {
                        let slice = &prog.text[prog.spans[k].0..prog.spans[k].2];
                        if !out.contains(slice) {
                            let what = if out.contains(&s.raw) { "semicolon-changed" } else { "text-changed" };
                            sink.v("C09", &format!("outside-stmt:{}", what), json!({"input": text, "config": cfg_to_string(&c), "range": [rs, re], "output": out, "statement": slice}));
                        } else if !s.semi {
                            if let Some(p) = out.find(&s.raw) {
                                if out[p + s.raw.len()..].starts_with(';') {
                                    sink.v("C09", "outside-stmt:semicolon-added", json!({"input": text, "config": cfg_to_string(&c), "range": [rs, re], "output": out, "statement": s.raw}));
                                }
                            }
                        }
                    } else if !nested {
                        // inside: same text as whole-file formatting (first line + semicolon)
                        let (vw, semiw) = observe(&whole, s);
                        if (v, semi) != (vw, semiw) {
                            sink.v("C09", "inside-stmt-differs-from-whole-file", json!({"input": text, "config": cfg_to_string(&c), "range": [rs, re], "output": out, "whole": whole, "statement": s.raw}));
                        }
                        // ... including the blank line kept (or not) in front of it (its own leading trivia)
                        if s.lead.is_empty() && s.fmt_first != "repeat" && s.fmt_first != "do" {
                            if let (Some(a), Some(b)) = (blank_before(&out, &s.fmt_first), blank_before(&whole, &s.fmt_first)) {
                                if a != b {
                                    sink.v("C09", "inside-stmt-blank-lines-differ-from-whole-file", json!({"input": text, "config": cfg_to_string(&c), "range": [rs, re], "output": out, "whole": whole, "statement": s.raw, "blank_in_output": a, "blank_whole_file": b}));
                                }
                            }
                        }
                    }
                }
                if !nested {
                    // bytes before the first and after the last affected statement unchanged
                    let first_in = (0..m).find(|k| affected(*k));
                    let last_in = (0..m).rev().find(|k| affected(*k));
                    if let (Some(fi), Some(li)) = (first_in, last_in) {
                        if fi > 0 {
                            let prefix = &prog.text[..prog.spans[fi - 1].2];
                            if !out.starts_with(prefix) {
                                sink.v("C09", "prefix-bytes-changed", json!({"input": text, "config": cfg_to_string(&c), "range": [rs, re], "output": out}));
                            }
                        }
                        if li + 1 < m {
                            let suffix = &prog.text[prog.spans[li + 1].0..];
                            if !out.ends_with(suffix) {
                                sink.v("C09", "suffix-bytes-changed", json!({"input": text, "config": cfg_to_string(&c), "range": [rs, re], "output": out}));
                            }
                        }
                        // the range ends with (or before) the last statement: what follows it is outside
                        if !trailer.is_empty() && re.map(|x| x <= prog.spans[m - 1].2 + off).unwrap_or(false) && !out.ends_with(trailer) {
                            sink.v("C09", "eof-bytes-changed", json!({"input": text, "config": cfg_to_string(&c), "range": [rs, re], "output": out}));
                        }
                    } else if out != text {
                        // nothing inside the range: nothing may change
                        sink.v("C09", "empty-range-changed-something", json!({"input": text, "config": cfg_to_string(&c), "range": [rs, re], "output": out}));
                    }
                    let d: Vec<String> = stmts.iter().zip(prog.spans.iter()).map(|(s, sp)| descr(s, *sp)).collect();
                    let rtxt = |x: Option<usize>| x.map(|v| v.to_string()).unwrap_or_else(|| "-".into());
                    if !cut
                    {
                    sink.q(format!("block {} {} {} {}", variant(), rtxt(rs), rtxt(re), d.join(",")), obs.join(","));
                    }
                }
                if !parses(&out, c.syntax) {
                    sink.v("C01", "range:unparseable-output", json!({"input": text, "config": cfg_to_string(&c), "range": [rs, re], "output": out}));
                }
            }
        }
        // ---------- C08 under ranges: an ignored statement stays verbatim wherever the range boundary falls
        // (also inside the ignored statement itself)
        if exp.iter().any(|x| *x) && !nested {
            let m = stmts.len();
            let mut cands: Vec<(Option<usize>, Option<usize>)> = Vec::new();
            for k in 0..m {
                let (a, b, c3) = prog.spans[k];
                let mid = a + (b - a) / 2;
                cands.push((Some(mid), None));
                cands.push((None, Some(mid)));
                cands.push((Some(a), Some(c3)));
            }
            for (rs, re) in cands {
                ranges_done += 1;
                if let Outcome::Ok(out) = fmt(&text, c, Some(Range::from_values(rs, re)), false) {
                    for (k, s) in stmts.iter().enumerate() {
                        if exp[k] {
                            let slice = &prog.text[prog.spans[k].0..prog.spans[k].2];
                            if !out.contains(slice) {
                                sink.v("C08", "ignored-stmt:text-changed-under-range", json!({"input": text, "config": cfg_to_string(&c), "range": [rs, re], "output": out, "statement": s.raw}));
                                // whole-file formatting leaves it alone, so under a range its text differs from what
                                // whole-file formatting produces: a C09 failure as well
                                sink.v("C09", "ignored-stmt-differs-from-whole-file-under-range", json!({"input": text, "config": cfg_to_string(&c), "range": [rs, re], "output": out, "statement": s.raw}));
                            }
                        }
                    }
                }
            }
        }
        (sink, 1, ranges_done)
    });
    let mut sink = Sink::default();
    let mut progs = 0;
    let mut ranges = 0;
    for (s, p, rg) in parts {
        sink.merge(s);
        progs += p;
        ranges += rg;
    }
    sink.s(json!({"c08": {"generated": n, "programs": progs, "range_runs": ranges, "oracle_evaluations": progs + ranges}}));
    sink
}
