//! Pipeline oracle (ring 3) on the closed corpus set: the properties themselves evaluated
//! on the real `format_code`, by checkers that never consult StyLua.
//!   C01 re-parse · C02 normal form · C03 comment census · C06 idempotence ·
//!   C07 no panic / error only on unparseable / time · C10 whitespace · C11 option rules
use crate::lexutil::tokens;
use crate::nf;
use crate::util::*;
use full_moon::tokenizer::{Token, TokenType};
use serde_json::json;
use std::collections::BTreeMap;
use std::path::{Path, PathBuf};
use std::time::Instant;
use stylua_lib::{CallParenType, CollapseSimpleStatement, Config, IndentType, LineEndings, LuaVersion, QuoteStyle, SpaceAfterFunctionNames};

pub struct Item {
    pub rel: String,
    pub syntax: LuaVersion,
    pub text: String,
}

pub fn corpus_root() -> PathBuf {
    let root = std::env::var("VERIF_ROOT").unwrap_or_else(|_| "/verif".into());
    Path::new(&root).join("corpus")
}

pub fn load_corpus() -> Vec<Item> {
    let mut v = Vec::new();
    let base = corpus_root().join("repo-tests");
    let mut dirs: Vec<_> = std::fs::read_dir(&base).map(|d| d.filter_map(|e| e.ok()).map(|e| e.path()).collect()).unwrap_or_default();
    dirs.sort();
    for d in dirs {
        let name = d.file_name().unwrap().to_string_lossy().to_string();
        let syntax = if name.contains("luau") {
            LuaVersion::Luau
        } else if name.contains("lua52") {
            LuaVersion::Lua52
        } else if name.contains("lua53") {
            LuaVersion::Lua53
        } else if name.contains("lua54") {
            LuaVersion::Lua54
        } else {
            LuaVersion::Lua51
        };
        let mut files: Vec<_> = std::fs::read_dir(&d).map(|d| d.filter_map(|e| e.ok()).map(|e| e.path()).collect()).unwrap_or_default();
        files.sort();
        for f in files {
            if f.extension().map(|e| e == "lua").unwrap_or(false) {
                if let Ok(text) = std::fs::read_to_string(&f) {
                    v.push(Item { rel: format!("{}/{}", name, f.file_name().unwrap().to_string_lossy()), syntax, text });
                }
            }
        }
    }
    // committed construct catalogue / past failures
    let extra = corpus_root().join("catalogue");
    if let Ok(rd) = std::fs::read_dir(&extra) {
        let mut files: Vec<_> = rd.filter_map(|e| e.ok()).map(|e| e.path()).collect();
        files.sort();
        for f in files {
            if let Ok(text) = std::fs::read_to_string(&f) {
                let n = f.file_name().unwrap().to_string_lossy().to_string();
                let syntax = if n.contains("luau") { LuaVersion::Luau } else { LuaVersion::Lua51 };
                if n.ends_with(".lines") {
                    // one program per line
                    for (i, line) in text.lines().enumerate() {
                        if !line.trim().is_empty() {
                            v.push(Item { rel: format!("catalogue/{}#{}", n, i + 1), syntax, text: format!("{}\n", line) });
                        }
                    }
                } else {
                    v.push(Item { rel: format!("catalogue/{}", n), syntax, text });
                }
            }
        }
    }
    v
}

/// the fixed configuration grid of the closed set (seed-independent)
pub fn grid(thorough: bool) -> Vec<(String, Config)> {
    let mut g: Vec<(String, Config)> = Vec::new();
    let mk = |f: &dyn Fn(&mut Config)| {
        let mut c = Config::default();
        f(&mut c);
        c
    };
    g.push(("default".into(), mk(&|_| {})));
    g.push(("w40".into(), mk(&|c| c.column_width = 40)));
    g.push(("w10".into(), mk(&|c| c.column_width = 10)));
    g.push(("w80-sp2-single-crlf".into(), mk(&|c| {
        c.column_width = 80;
        c.indent_type = IndentType::Spaces;
        c.indent_width = 2;
        c.quote_style = QuoteStyle::AutoPreferSingle;
        c.line_endings = LineEndings::Windows;
    })));
    g.push(("w120-callnone-collapse".into(), mk(&|c| {
        c.call_parentheses = CallParenType::None;
        c.collapse_simple_statement = CollapseSimpleStatement::Always;
    })));
    g.push(("w40-nosinglestring-spacealways-sp3".into(), mk(&|c| {
        c.column_width = 40;
        c.call_parentheses = CallParenType::NoSingleString;
        c.space_after_function_names = SpaceAfterFunctionNames::Always;
        c.indent_type = IndentType::Spaces;
        c.indent_width = 3;
    })));
    g.push(("w20-nosingletable-forcesingle".into(), mk(&|c| {
        c.column_width = 20;
        c.call_parentheses = CallParenType::NoSingleTable;
        c.quote_style = QuoteStyle::ForceSingle;
    })));
    g.push(("w1".into(), mk(&|c| c.column_width = 1)));
    g.push(("wmax-input-forcedouble".into(), mk(&|c| {
        c.column_width = usize::MAX;
        c.call_parentheses = CallParenType::Input;
        c.quote_style = QuoteStyle::ForceDouble;
    })));
    g.push(("w60-fnonly-sp8-crlf".into(), mk(&|c| {
        c.column_width = 60;
        c.collapse_simple_statement = CollapseSimpleStatement::FunctionOnly;
        c.indent_type = IndentType::Spaces;
        c.indent_width = 8;
        c.line_endings = LineEndings::Windows;
    })));
    g.push(("w100-condonly-spacedefs".into(), mk(&|c| {
        c.column_width = 100;
        c.collapse_simple_statement = CollapseSimpleStatement::ConditionalOnly;
        c.space_after_function_names = SpaceAfterFunctionNames::Definitions;
    })));
    g.push(("w30-spacecalls-tab2".into(), mk(&|c| {
        c.column_width = 30;
        c.space_after_function_names = SpaceAfterFunctionNames::Calls;
        c.indent_width = 2;
    })));
    {
        for w in [5usize, 15, 25, 50, 70, 90, 200] {
            g.push((format!("w{}", w), mk(&|c| c.column_width = w)));
            g.push((format!("w{}-sp4-crlf-single", w), mk(&|c| {
                c.column_width = w;
                c.indent_type = IndentType::Spaces;
                c.line_endings = LineEndings::Windows;
                c.quote_style = QuoteStyle::AutoPreferSingle;
            })));
        }
        for iw in [1usize, 16] {
            g.push((format!("w80-sp{}", iw), mk(&|c| {
                c.column_width = 80;
                c.indent_type = IndentType::Spaces;
                c.indent_width = iw;
            })));
        }
    }
    if thorough {
        // every enum value of every option on its own, at three width classes
        for w in [120usize, 40, 10] {
            for q in QUOTE_STYLES {
                g.push((format!("w{}-quote{:?}", w, q), mk(&|c| { c.column_width = w; c.quote_style = q; })));
            }
            for p in CALL_PARENS {
                g.push((format!("w{}-call{:?}", w, p), mk(&|c| { c.column_width = w; c.call_parentheses = p; })));
            }
            for p in COLLAPSE {
                g.push((format!("w{}-collapse{:?}", w, p), mk(&|c| { c.column_width = w; c.collapse_simple_statement = p; })));
            }
            for p in SPACE_MODES {
                g.push((format!("w{}-space{:?}", w, p), mk(&|c| { c.column_width = w; c.space_after_function_names = p; })));
            }
        }
    }
    g
}

fn comment_census(toks: &[Token]) -> BTreeMap<(u8, usize, String), usize> {
    let mut m = BTreeMap::new();
    for t in toks {
        let key = match t.token_type() {
            TokenType::SingleLineComment { comment } => Some((0u8, 0usize, comment.trim_end().to_string())),
            TokenType::MultiLineComment { blocks, comment } => Some((1u8, *blocks, comment.replace("\r\n", "\n"))),
            TokenType::Shebang { line } => Some((2u8, 0usize, line.trim_end().to_string())),
            _ => None,
        };
        if let Some(k) = key {
            *m.entry(k).or_insert(0) += 1;
        }
    }
    m
}

/// C10 scan; returns a description of the first offence.
/// Line endings are checked on the text with string-literal contents masked; indentation on
/// the text with string-literal *and* block-comment interiors masked (so a line that starts
/// inside one of them is not a line of code).
fn whitespace_offence(out: &str, toks: &[Token], c: &Config) -> Option<String> {
    let eol = if c.line_endings == LineEndings::Windows { "\r\n" } else { "\n" };
    if !out.is_empty() {
        if !out.ends_with(eol) {
            return Some("output does not end with the configured line ending".into());
        }
        let body = &out[..out.len() - eol.len()];
        if body.ends_with('\n') || body.ends_with('\r') {
            return Some("output ends with more than one line ending".into());
        }
    }
    let mut m1: Vec<u8> = out.as_bytes().to_vec(); // strings masked
    let mut m2: Vec<u8> = out.as_bytes().to_vec(); // strings + block comments masked
    for t in toks {
        let (a, b) = (t.start_position().bytes(), t.end_position().bytes());
        if b > m1.len() || a > b {
            continue;
        }
        match t.token_type() {
            TokenType::StringLiteral { .. } | TokenType::InterpolatedString { .. } => {
                for i in a..b {
                    m1[i] = b'x';
                    m2[i] = b'x';
                }
            }
            TokenType::MultiLineComment { .. } => {
                for i in a..b {
                    m2[i] = b'x';
                }
            }
            _ => {}
        }
    }
    // line endings
    let n = m1.len();
    for i in 0..n {
        if m1[i] == b'\n' {
            let crlf = i > 0 && m1[i - 1] == b'\r';
            if (eol == "\r\n") != crlf {
                return Some(format!("line ending {} at byte {} (configured {:?})", if crlf { "CRLF" } else { "LF" }, i, eol));
            }
        } else if m1[i] == b'\r' && (i + 1 >= n || m1[i + 1] != b'\n') {
            return Some(format!("stray carriage return at byte {}", i));
        }
    }
    // indentation
    let text = String::from_utf8_lossy(&m2).to_string();
    for (ln, line) in text.split('\n').enumerate() {
        let line = line.strip_suffix('\r').unwrap_or(line);
        let lead: String = line.chars().take_while(|ch| *ch == ' ' || *ch == '\t').collect();
        if lead.len() == line.len() {
            if !lead.is_empty() {
                return Some(format!("whitespace-only line {}", ln + 1));
            }
            continue;
        }
        match c.indent_type {
            IndentType::Tabs => {
                if lead.chars().any(|ch| ch != '\t') {
                    return Some(format!("line {}: indentation {:?} is not tabs only", ln + 1, lead));
                }
            }
            IndentType::Spaces => {
                if lead.chars().any(|ch| ch != ' ') {
                    return Some(format!("line {}: indentation {:?} is not spaces only", ln + 1, lead));
                }
                if c.indent_width > 0 && lead.len() % c.indent_width != 0 {
                    return Some(format!("line {}: indentation of {} spaces is not a multiple of {}", ln + 1, lead.len(), c.indent_width));
                }
            }
        }
    }
    None
}

fn first_diff_line(a: &str, b: &str) -> String {
    for (i, (x, y)) in a.lines().zip(b.lines()).enumerate() {
        if x != y {
            return format!("line {}: {:?} vs {:?}", i + 1, x, y);
        }
    }
    format!("length {} vs {}", a.len(), b.len())
}

pub struct CaseResult {
    pub sink: Sink,
    pub formatted: bool,
    pub ms: u128,
}

/// all pipeline oracles on one (input, config)
pub fn check_case(id: &str, text: &str, c: Config, sink: &mut Sink) -> (bool, u128) {
    let cfgs = cfg_to_string(&c);
    let detail = |extra: serde_json::Value| {
        let mut d = json!({"case": id, "config": cfgs});
        if let (Some(o), Some(e)) = (d.as_object_mut(), extra.as_object()) {
            for (k, v) in e {
                o.insert(k.clone(), v.clone());
            }
        }
        d
    };
    let parses_in = parse(text, c.syntax);
    let t0 = Instant::now();
    let res = fmt(text, c, None, false);
    let ms = t0.elapsed().as_millis();
    // C07: time out of proportion (generous: 20 ms per byte + 5 s)
    if ms > 5000 + 20 * text.len() as u128 {
        sink.v("C07", &format!("{}:slow", id), detail(json!({"ms": ms as u64, "bytes": text.len()})));
    }
    let out = match res {
        Outcome::Ok(o) => {
            if parses_in.is_none() {
                sink.v("C07", &format!("{}:ok-on-unparseable", id), detail(json!({})));
            }
            o
        }
        Outcome::ParseError => {
            if parses_in.is_some() {
                sink.v("C07", &format!("{}:parse-error-on-parseable", id), detail(json!({})));
            }
            return (false, ms);
        }
        Outcome::OtherError(e) => {
            sink.v("C07", &format!("{}:error", id), detail(json!({"error": e})));
            return (false, ms);
        }
        Outcome::Panic(m) => {
            // a panic inside the dependency's parser is one finding, whatever the input (as in hx c07)
            match m.rsplit(" @ ").next() {
                Some(site) if m.contains(" @ ") && site.starts_with("full_moon") => sink.v("C07", &format!("panic@{}", site), detail(json!({"panic": m, "input": text}))),
                _ => sink.v("C07", &format!("{}:panic", id), detail(json!({"panic": m}))),
            }
            return (false, ms);
        }
    };
    let ast_in = match parses_in {
        Some(a) => a,
        None => return (true, ms),
    };
    // C01
    let ast_out = match parse(&out, c.syntax) {
        Some(a) => a,
        None => {
            sink.v("C01", &format!("{}:unparseable-output", id), detail(json!({})));
            return (true, ms);
        }
    };
    // C11 (files with ignore directives keep verbatim text: excluded)
    if !text.contains("stylua: ignore") {
        if let Some(to) = tokens(&out, c.syntax) {
            for b in crate::c11::check(&ast_in, &ast_out, &out, &to, &c) {
                sink.v("C11", &format!("{}:option:{}", id, b), detail(json!({"rule": b})));
            }
        }
    }
    // C02
    if !c.sort_requires.enabled {
        let a = nf::normal_form(ast_in);
        let b = nf::normal_form(ast_out);
        if a != b {
            let (x, y) = first_token_diff(&a, &b);
            sink.v("C02", &format!("{}:meaning-changed", id), detail(json!({"input_nf": x, "output_nf": y})));
        }
    }
    // C03
    let tin = tokens(text, c.syntax);
    let tout = tokens(&out, c.syntax);
    if let (Some(ti), Some(to)) = (&tin, &tout) {
        let ci = comment_census(ti);
        let co = comment_census(to);
        if ci != co {
            let mut lost = Vec::new();
            let mut gained = Vec::new();
            for (k, n) in &ci {
                let m = co.get(k).copied().unwrap_or(0);
                if m < *n {
                    lost.push(k.2.chars().take(40).collect::<String>());
                }
                if m > *n {
                    gained.push(k.2.chars().take(40).collect::<String>());
                }
            }
            for (k, _) in &co {
                if !ci.contains_key(k) {
                    gained.push(k.2.chars().take(40).collect::<String>());
                }
            }
            let fp = format!("lost={}|gained={}", lost.join("~"), gained.join("~"));
            sink.v("C03", &format!("{}:comments-changed:{}", id, fp), detail(json!({"lost_or_altered": lost, "gained": gained})));
        }
        // C10 (files with ignore directives keep verbatim text: excluded)
        if !text.contains("stylua: ignore") {
            if let Some(off) = whitespace_offence(&out, to, &c) {
                sink.v("C10", &format!("{}:whitespace", id), detail(json!({"offence": off})));
            }
        }
    }
    // C06
    match fmt(&out, c, None, false) {
        Outcome::Ok(o2) => {
            if o2 != out {
                sink.v("C06", &format!("{}:not-idempotent", id), detail(json!({"diff": first_diff_line(&out, &o2)})));
            }
        }
        Outcome::Panic(m) => sink.v("C07", &format!("{}:panic-second-pass", id), detail(json!({"panic": m}))),
        _ => sink.v("C06", &format!("{}:second-pass-failed", id), detail(json!({}))),
    }
    (true, ms)
}

fn first_token_diff(a: &str, b: &str) -> (String, String) {
    let x: Vec<&str> = a.split(' ').collect();
    let y: Vec<&str> = b.split(' ').collect();
    let mut i = 0;
    while i < x.len() && i < y.len() && x[i] == y[i] {
        i += 1;
    }
    let lo = i.saturating_sub(6);
    (x[lo..(i + 8).min(x.len())].join(" "), y[lo..(i + 8).min(y.len())].join(" "))
}

pub fn run(tier: &str, _seed: u64) -> Sink {
    let thorough = tier == "thorough";
    let items = load_corpus();
    let _ = thorough;
    let g = grid(true); // the closed set is the same in both tiers (it takes seconds)
    // width sweep: every one-line catalogue program at every column width 1..=130
    let sweep_items: Vec<usize> = items.iter().enumerate().filter(|(_, it)| it.rel.contains(".lines#")).map(|(i, _)| i).collect();
    let sweep_n = sweep_items.len() * 130;
    let sweep = par_map(sweep_n, threads(), |k| {
        let it = &items[sweep_items[k / 130]];
        let w = k % 130 + 1;
        let mut c = Config::default();
        c.syntax = it.syntax;
        c.column_width = w;
        let mut sink = Sink::default();
        let id = format!("corpus:{}@sweep-w{}", it.rel, w);
        let (ok, ms) = check_case(&id, &it.text, c, &mut sink);
        (sink, ok, ms)
    });
    // generated families: small grid (layout classes + the options that change decisions)
    let gen_items = crate::gen::all();
    let gg: Vec<(String, Config)> = g.iter().filter(|(n, _)| ["default", "w40", "w10", "w1", "w80-sp2-single-crlf", "w120-callnone-collapse", "w80-sp1"].contains(&n.as_str())).cloned().collect();
    let gen_n = gen_items.len() * gg.len();
    let gen_parts = par_map(gen_n, threads(), |k| {
        let it = &gen_items[k / gg.len()];
        let (gname, gc) = &gg[k % gg.len()];
        let mut c = *gc;
        c.syntax = it.syntax;
        let mut sink = Sink::default();
        let id = format!("corpus:{}@{}", it.rel, gname);
        let (ok, ms) = check_case(&id, &it.text, c, &mut sink);
        (sink, ok, ms)
    });
    // the same files as they look on Windows: every line ending of the input is CRLF (no input of the repository's
    // suite is); the output's line endings are the configured ones, so any `\r` in it was carried over
    let crlf_items: Vec<Item> = items
        .iter()
        .filter(|it| !it.rel.contains(".lines#") && !it.text.contains('\r'))
        .map(|it| Item { rel: format!("{}~crlf-input", it.rel), syntax: it.syntax, text: it.text.replace('\n', "\r\n") })
        .collect();
    let cg: Vec<(String, Config)> = g.iter().filter(|(n, _)| ["default", "w80-sp2-single-crlf", "w40"].contains(&n.as_str())).cloned().collect();
    let crlf_n = crlf_items.len() * cg.len();
    let crlf_parts = par_map(crlf_n, threads(), |k| {
        let it = &crlf_items[k / cg.len()];
        let (gname, gc) = &cg[k % cg.len()];
        let mut c = *gc;
        c.syntax = it.syntax;
        let mut sink = Sink::default();
        let id = format!("corpus:{}@{}", it.rel, gname);
        let (ok, ms) = check_case(&id, &it.text, c, &mut sink);
        (sink, ok, ms)
    });
    let n = items.len() * g.len();
    let parts = par_map(n, threads(), |k| {
        let it = &items[k / g.len()];
        let (gname, gc) = &g[k % g.len()];
        let mut c = *gc;
        c.syntax = it.syntax;
        let mut sink = Sink::default();
        let id = format!("corpus:{}@{}", it.rel, gname);
        let (ok, ms) = check_case(&id, &it.text, c, &mut sink);
        (sink, ok, ms)
    });
    let mut sink = Sink::default();
    let mut formatted = 0usize;
    let mut total_ms: u128 = 0;
    let mut max_ms: u128 = 0;
    for (s, ok, ms) in parts.into_iter().chain(sweep.into_iter()).chain(gen_parts.into_iter()).chain(crlf_parts.into_iter()) {
        sink.merge(s);
        if ok {
            formatted += 1;
        }
        total_ms += ms;
        max_ms = max_ms.max(ms);
    }
    sink.s(json!({"pipeline": {"files": items.len(), "configs": g.len(), "cases": n + sweep_n + gen_n + crlf_n, "width_sweep_cases": sweep_n, "generated_programs": gen_items.len(), "generated_cases": gen_n, "crlf_input_cases": crlf_n, "formatted": formatted, "oracle_evaluations": formatted,
        "cpu_ms": total_ms as u64, "max_case_ms": max_ms as u64, "configs_used": g.iter().map(|x| x.0.clone()).collect::<Vec<_>>()}}));
    sink
}
