//! Seeded random programs from a grammar of the whole language (statements of every kind, nested blocks,
//! expressions, tables, functions, calls with sugar, strings, numbers) in *clean* source form: comments only
//! on their own lines between statements, blank lines only between statements. Every pipeline oracle is
//! applied (re-parse, normal form, comment census, idempotence, whitespace, option rules, panic/time).
//! The closed sets pin known layout defects exactly; this generator is the wide net for everything else.
use crate::pipe::check_case;
use crate::util::*;
use serde_json::json;
use stylua_lib::LuaVersion;

struct G {
    r: Rng,
    luau: bool,
    depth: usize,
}

const NAMES: &[&str] = &["a", "bb", "value", "index", "self", "result", "callback", "longIdentifierName", "t", "x1", "config", "player"];

impl G {
    fn name(&mut self) -> String {
        NAMES[self.r.below(NAMES.len())].to_string()
    }
    fn string(&mut self) -> String {
        let bodies = ["", "s", "hello world", "it's", "say \\\"hi\\\"", "a\\nb", "tab\\there", "\\065", "quote\"inside", "x".repeat(30).as_str().to_owned().leak()];
        let b = bodies[self.r.below(bodies.len())];
        match self.r.below(4) {
            0 if !b.contains('"') || b.contains("\\\"") => format!("\"{}\"", b.replace("quote\"inside", "quote\\\"inside")),
            1 if !b.contains('\'') => format!("'{}'", b),
            2 if !b.contains('\\') && !b.contains(']') => format!("[[{}]]", b),
            _ => format!("\"{}\"", b.replace("quote\"inside", "quote\\\"inside")),
        }
    }
    fn number(&mut self) -> String {
        ["0", "1", "42", "3.14", ".5", "1e10", "0xFF", "1e-3", "100"][self.r.below(9)].to_string()
    }
    fn atom(&mut self) -> String {
        match self.r.below(8) {
            0 => self.number(),
            1 => self.string(),
            2 => "nil".into(),
            3 => "true".into(),
            4 => "...".into(),
            _ => self.name(),
        }
    }
    fn prefix_expr(&mut self, d: usize) -> String {
        let mut s = if self.r.chance(1, 8) { format!("({})", self.expr(d.saturating_sub(1))) } else { self.name() };
        let n = self.r.below(4);
        for _ in 0..n {
            match self.r.below(6) {
                0 => s = format!("{}.{}", s, self.name()),
                1 => s = format!("{}[{}]", s, self.expr(d.saturating_sub(1))),
                2 => s = format!("{}:{}({})", s, self.name(), self.args(d)),
                3 => s = format!("{}({})", s, self.args(d)),
                4 => s = format!("{} {}", s, self.string()),
                _ => s = format!("{} {}", s, self.table(d.saturating_sub(1))),
            }
        }
        s
    }
    fn call(&mut self, d: usize) -> String {
        let p = self.prefix_expr(d);
        if p.ends_with(')') && !p.ends_with("()") || p.ends_with('"') || p.ends_with('\'') || p.ends_with("]]") || p.ends_with('}') {
            if !p.starts_with('(') || p.contains(")(") || p.contains("):") {
                return p;
            }
        }
        format!("{}({})", p, self.args(d))
    }
    fn args(&mut self, d: usize) -> String {
        let n = self.r.below(4);
        (0..n).map(|_| self.expr(d.saturating_sub(1))).collect::<Vec<_>>().join(", ")
    }
    fn table(&mut self, d: usize) -> String {
        let n = self.r.below(5);
        if n == 0 {
            return "{}".into();
        }
        let fields: Vec<String> = (0..n)
            .map(|_| match self.r.below(4) {
                0 => format!("{} = {}", self.name(), self.expr(d.saturating_sub(1))),
                1 => format!("[{}] = {}", self.expr(d.saturating_sub(1)), self.expr(d.saturating_sub(1))),
                _ => self.expr(d.saturating_sub(1)),
            })
            .collect();
        let sep = if self.r.chance(1, 6) { "; " } else { ", " };
        let trailing = if self.r.chance(1, 5) { sep.trim_end() } else { "" };
        if self.r.chance(1, 4) {
            format!("{{\n{}{}\n}}", fields.join(&format!("{}\n", sep.trim_end())), trailing)
        } else {
            format!("{{ {}{} }}", fields.join(sep), trailing)
        }
    }
    fn func(&mut self, d: usize) -> String {
        let n = self.r.below(3);
        let mut ps: Vec<String> = (0..n).map(|_| self.name()).collect();
        if self.r.chance(1, 5) {
            ps.push("...".into());
        }
        let body = self.block2(d.saturating_sub(1));
        format!("function({})\n{}end", ps.join(", "), body)
    }
    fn expr(&mut self, d: usize) -> String {
        if d == 0 {
            return self.atom();
        }
        match self.r.below(12) {
            0 | 1 => self.atom(),
            2 => self.prefix_expr(d),
            3 => self.call(d),
            4 => self.table(d),
            5 => self.func(d),
            6 => format!("({})", self.expr(d - 1)),
            7 => {
                let op = ["-", "not ", "#"][self.r.below(3)];
                let e = self.expr(d - 1);
                if op == "-" && e.starts_with('-') { format!("-({})", e) } else { format!("{}{}", op, e) }
            }
            _ => {
                let ops = ["+", "-", "*", "/", "%", "^", "..", "==", "~=", "<", "<=", ">", ">=", "and", "or"];
                let op = ops[self.r.below(ops.len())];
                let l = self.expr(d - 1);
                let r = self.expr(d - 1);
                // parenthesise compound operands: the generator does not track precedence
                let wrap = |e: String| if e.contains(' ') && !e.starts_with('(') && !e.starts_with('{') && !e.starts_with("function") && !e.starts_with('"') && !e.starts_with('\'') && !e.starts_with("[[") { format!("({})", e) } else { e };
                let r2 = wrap(r);
                let r2 = if op == "-" && r2.starts_with('-') { format!("({})", r2) } else { r2 };
                format!("{} {} {}", wrap(l), op, r2)
            }
        }
    }
    fn exprs(&mut self, d: usize, max: usize) -> String {
        let n = 1 + self.r.below(max);
        (0..n).map(|_| self.expr(d)).collect::<Vec<_>>().join(", ")
    }
    fn stmt(&mut self, d: usize) -> String {
        let e = self.depth.min(3);
        match self.r.below(if d == 0 { 6 } else { 14 }) {
            0 | 1 => format!("local {} = {}", (0..1 + self.r.below(2)).map(|_| self.name()).collect::<Vec<_>>().join(", "), self.exprs(e, 2)),
            2 => format!("{} = {}", self.prefix_expr(1).split(':').next().unwrap().split('(').next().unwrap().split(' ').next().unwrap().to_string(), self.exprs(e, 2)),
            3 | 4 => self.call(e),
            5 => format!("local {}", self.name()),
            6 => format!("if {} then\n{}{}end", self.expr(e), self.block2(d - 1), if self.r.chance(1, 3) { format!("elseif {} then\n{}else\n{}", self.expr(1), self.block(d - 1, 1), self.block(d - 1, 1)) } else if self.r.chance(1, 3) { format!("else\n{}", self.block(d - 1, 1)) } else { String::new() }),
            7 => format!("while {} do\n{}end", self.expr(e), self.block2(d - 1)),
            8 => format!("for {} = {}, {} do\n{}end", self.name(), self.expr(1), self.expr(1), self.block(d - 1, 1)),
            9 => format!("for {}, {} in pairs({}) do\n{}end", self.name(), self.name(), self.expr(1), self.block(d - 1, 1)),
            10 => format!("repeat\n{}until {}", self.block(d - 1, 1), self.expr(e)),
            11 => format!("do\n{}end", self.block2(d - 1)),
            12 => format!("local function {}({})\n{}end", self.name(), self.name(), self.block2(d - 1)),
            _ => format!("function {}.{}:{}({})\n{}end", self.name(), self.name(), self.name(), self.name(), self.block(d - 1, 1)),
        }
    }
    fn block2(&mut self, d: usize) -> String {
        let n = 1 + self.r.below(2);
        self.block(d, n)
    }
    fn block(&mut self, d: usize, n: usize) -> String {
        let mut s = String::new();
        for i in 0..n {
            if i > 0 && self.r.chance(1, 4) {
                s.push('\n');
            }
            if self.r.chance(1, 6) {
                s.push_str(["-- a comment\n", "--[[ block ]]\n", "--- doc\n"][self.r.below(3)]);
            }
            let st = self.stmt(d);
            // a statement that starts with `(` after one that ends with an expression needs a `;`
            if st.starts_with('(') && !s.is_empty() {
                s.push_str(";");
            }
            s.push_str(&st);
            if self.r.chance(1, 8) {
                s.push(';');
            }
            s.push('\n');
        }
        if self.r.chance(1, 5) {
            s.push_str(&format!("return {}\n", self.exprs(1, 2)));
        }
        s
    }
}

pub fn run(tier: &str, seed: u64) -> Sink {
    let n = if tier == "thorough" { 10000 } else { 2500 };
    let parts = par_map(n, threads(), |i| {
        let mut sink = Sink::default();
        let mut g = G { r: Rng::new(seed.wrapping_mul(2147483647) ^ (i as u64) ^ 0x9E7), luau: false, depth: 1 + i % 3 };
        let _ = g.luau;
        let n_st = 1 + g.r.below(4);
        let text = g.block(2, n_st);
        if !parses(&text, LuaVersion::Lua51) {
            return (sink, 0usize, 0usize);
        }
        let mut cfgr = g.r.fork();
        let mut done = 0;
        for _ in 0..2 {
            let mut c = random_cfg(&mut cfgr);
            c.syntax = LuaVersion::Lua51;
            c.sort_requires.enabled = false;
            let id = format!("gen:program#{}", i);
            let mut local = Sink::default();
            let (ok, _) = check_case(&id, &text, c, &mut local);
            if ok {
                done += 1;
            }
            // signatures of generated programs are by oracle kind only (the input is in the detail)
            for line in local.lines {
                let parts: Vec<&str> = line.splitn(4, '\t').collect();
                if parts.len() < 4 || parts[0] != "V" {
                    continue;
                }
                let (p, sig) = (parts[1], parts[2]);
                // decided here: re-parse, meaning, comments, panics. Idempotence at random (often extreme)
                // configurations fails on a fifth of all programs on the unchanged tree - the layout engine's known
                // weakness, pinned exactly by the closed sets instead; timing is not judged on random programs.
                if !(p == "C01" || p == "C02" || p == "C03" || (p == "C07" && sig.contains("panic"))) {
                    continue;
                }
                let mut d: serde_json::Value = serde_json::from_str(parts[3]).unwrap_or(json!({}));
                if let Some(o) = d.as_object_mut() {
                    o.insert("input".into(), json!(text));
                }
                let last = sig.rsplit(':').next().unwrap_or("").to_string();
                let kind = if sig.contains("comments-changed") { "comments-changed".to_string() } else if sig.contains(":option:") { format!("option:{}", last) } else if sig.starts_with("panic@") { sig.to_string() } else { last };
                let sig2 = if sig.starts_with("panic@") { sig.to_string() } else { format!("program:{}", kind) };
                sink.v(p, &sig2, d);
            }
        }
        (sink, 1, done)
    });
    let mut sink = Sink::default();
    let (mut progs, mut cases) = (0, 0);
    for (s, p, c) in parts {
        sink.merge(s);
        progs += p;
        cases += c;
    }
    sink.s(json!({"progen": {"generated": n, "parseable_programs": progs, "cases": cases, "oracle_evaluations": cases}}));
    sink
}
