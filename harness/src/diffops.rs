//! `hx diffops <old> <new>`: the edit script of `similar` (same version StyLua links) between
//! two files, as sequential operations, plus line ids (equal lines get equal ids).
use similar::{DiffOp, TextDiff};
use std::collections::HashMap;

pub fn run(old_path: &str, new_path: &str) {
    let old = std::fs::read_to_string(old_path).unwrap_or_default();
    let new = std::fs::read_to_string(new_path).unwrap_or_default();
    let diff = TextDiff::from_lines(old.as_str(), new.as_str());
    let mut ops = Vec::new();
    for op in diff.ops() {
        match *op {
            // with the auxiliary indices as `similar` reports them (they can be stale after its compaction pass)
            DiffOp::Equal { len, old_index, new_index } => ops.push(format!("E{}@{}:{}", len, old_index, new_index)),
            DiffOp::Delete { old_len, old_index, new_index } => ops.push(format!("D{}@{}:{}", old_len, old_index, new_index)),
            DiffOp::Insert { new_len, old_index, new_index } => ops.push(format!("I{}@{}:{}", new_len, old_index, new_index)),
            DiffOp::Replace { old_len, new_len, old_index, new_index } => ops.push(format!("R{}.{}@{}:{}", old_len, new_len, old_index, new_index)),
        }
    }
    let mut ids: HashMap<&str, usize> = HashMap::new();
    let mut idlist = |text: &'static str| -> Vec<usize> { let _ = text; vec![] };
    let _ = &mut idlist;
    let ol: Vec<&str> = diff.old_slices().to_vec();
    let nl: Vec<&str> = diff.new_slices().to_vec();
    let mut id = |s| {
        let n = ids.len();
        *ids.entry(s).or_insert(n)
    };
    let oi: Vec<String> = ol.iter().map(|s| id(*s).to_string()).collect();
    let ni: Vec<String> = nl.iter().map(|s| id(*s).to_string()).collect();
    println!("{}", if ops.is_empty() { "-".to_string() } else { ops.join(",") });
    println!("{}", if oi.is_empty() { "-".to_string() } else { oi.join(",") });
    println!("{}", if ni.is_empty() { "-".to_string() } else { ni.join(",") });
    // the line texts, JSON encoded, so that the runner can map ids back
    println!("{}", serde_json::to_string(&ol).unwrap());
    println!("{}", serde_json::to_string(&nl).unwrap());
}
