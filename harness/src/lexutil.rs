//! Token-level access to source text through full_moon's tokenizer (the parser the
//! properties name as oracle), plus independent literal decoders.
use full_moon::tokenizer::{Lexer, LexerResult, Token, TokenType};
use stylua_lib::LuaVersion;

pub fn tokens(code: &str, v: LuaVersion) -> Option<Vec<Token>> {
    match Lexer::new(code, crate::util::fm_version(v)).collect() {
        LexerResult::Ok(t) => Some(t),
        _ => None,
    }
}

/// Independent Lua 5.1 string decoder (llex.c read_string); never fails.
pub fn decode51(b: &str) -> Vec<u32> {
    let cs: Vec<char> = b.chars().collect();
    let mut out = Vec::new();
    let mut i = 0;
    let push_utf8 = |out: &mut Vec<u32>, c: char| {
        let mut buf = [0u8; 4];
        for x in c.encode_utf8(&mut buf).bytes() {
            out.push(x as u32);
        }
    };
    while i < cs.len() {
        let c = cs[i];
        if c != '\\' {
            push_utf8(&mut out, c);
            i += 1;
            continue;
        }
        i += 1;
        if i >= cs.len() {
            break;
        }
        let e = cs[i];
        if e.is_ascii_digit() {
            let mut acc = 0u32;
            let mut n = 0;
            while i < cs.len() && n < 3 && cs[i].is_ascii_digit() {
                acc = acc * 10 + (cs[i] as u32 - 48);
                i += 1;
                n += 1;
            }
            out.push(acc);
            continue;
        }
        i += 1;
        match e {
            'n' => out.push(10),
            't' => out.push(9),
            'a' => out.push(7),
            'b' => out.push(8),
            'f' => out.push(12),
            'r' => out.push(13),
            'v' => out.push(11),
            other => push_utf8(&mut out, other),
        }
    }
    out
}

/// Independent Lua 5.2+ decoder; None = not a valid literal of real Lua 5.2+.
/// `\u{X}` is rendered as the opaque unit 1_000_000 + X (as in the Lean spec).
pub fn decode52(b: &str) -> Option<Vec<u32>> {
    let cs: Vec<char> = b.chars().collect();
    let mut out = Vec::new();
    let mut i = 0;
    let push_utf8 = |out: &mut Vec<u32>, c: char| {
        let mut buf = [0u8; 4];
        for x in c.encode_utf8(&mut buf).bytes() {
            out.push(x as u32);
        }
    };
    let hexv = |c: char| c.to_digit(16);
    while i < cs.len() {
        let c = cs[i];
        if c == '\n' || c == '\r' {
            return None;
        }
        if c != '\\' {
            push_utf8(&mut out, c);
            i += 1;
            continue;
        }
        i += 1;
        if i >= cs.len() {
            return None;
        }
        let e = cs[i];
        if e.is_ascii_digit() {
            let mut acc = 0u32;
            let mut n = 0;
            while i < cs.len() && n < 3 && cs[i].is_ascii_digit() {
                acc = acc * 10 + (cs[i] as u32 - 48);
                i += 1;
                n += 1;
            }
            out.push(acc);
            continue;
        }
        i += 1;
        match e {
            'n' => out.push(10),
            't' => out.push(9),
            'a' => out.push(7),
            'b' => out.push(8),
            'f' => out.push(12),
            'r' => out.push(13),
            'v' => out.push(11),
            '\\' | '"' | '\'' => push_utf8(&mut out, e),
            '\n' | '\r' => out.push(10),
            'x' => {
                if i + 1 >= cs.len() {
                    return None;
                }
                let h = hexv(cs[i])?;
                let l = hexv(cs[i + 1])?;
                out.push(h * 16 + l);
                i += 2;
            }
            'z' => {
                while i < cs.len() && matches!(cs[i], ' ' | '\n' | '\r' | '\t' | '\x0b' | '\x0c') {
                    i += 1;
                }
            }
            'u' => {
                if i >= cs.len() || cs[i] != '{' {
                    return None;
                }
                i += 1;
                let mut acc: u64 = 0;
                let mut any = false;
                loop {
                    if i >= cs.len() {
                        return None;
                    }
                    if cs[i] == '}' {
                        i += 1;
                        break;
                    }
                    acc = acc * 16 + hexv(cs[i])? as u64;
                    any = true;
                    i += 1;
                }
                if !any {
                    return None;
                }
                out.push((1_000_000 + acc) as u32);
            }
            _ => return None,
        }
    }
    Some(out)
}

pub fn natlist(v: &[u32]) -> String {
    v.iter().map(|x| x.to_string()).collect::<Vec<_>>().join(",")
}

pub fn string_tokens(toks: &[Token]) -> Vec<(String, String, usize)> {
    let mut v = Vec::new();
    for t in toks {
        if let TokenType::StringLiteral {
            literal,
            multi_line_depth,
            quote_type,
        } = t.token_type()
        {
            v.push((
                format!("{:?}", quote_type),
                literal.to_string(),
                *multi_line_depth,
            ));
        }
    }
    v
}
