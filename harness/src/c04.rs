//! C04 — literal values survive quote and number normalisation.
//! ring 2: real `format_code` token vs `modeld strlit|long|num`, exhaustive small scope.
//! ring 3: independent decoders on input and output literal.
use crate::lexutil::*;
use crate::util::*;
use serde_json::json;
use stylua_lib::{LineEndings, LuaVersion};

const ALPHABET: [&str; 18] = [
    "'", "\"", "\\", "n", "0", "1", "9", "x", "u", "{", "}", "z", "a", "q", "\n", " ", "\r", "é",
];

fn bodies(maxlen: usize) -> Vec<String> {
    let mut all = vec![String::new()];
    let mut frontier = vec![String::new()];
    for _ in 0..maxlen {
        let mut next = Vec::with_capacity(frontier.len() * ALPHABET.len());
        for b in &frontier {
            for a in ALPHABET {
                let mut s = b.clone();
                s.push_str(a);
                next.push(s);
            }
        }
        all.extend(next.iter().cloned());
        frontier = next;
    }
    all
}

fn positions(lit: &str, k: usize) -> String {
    match k {
        0 => format!("local x = {}\n", lit),
        1 => format!("f {}\n", lit),
        2 => format!("local t = {{ [{}] = 1 }}\n", lit),
        _ => format!("local y = t[{}]\n", lit),
    }
}

pub fn run(tier: &str, seed: u64) -> Sink {
    let thorough = tier == "thorough";
    let maxlen = if thorough { 5 } else { 4 };
    let bs = bodies(maxlen);
    let n = bs.len();
    let syntaxes: Vec<LuaVersion> = if thorough {
        vec![LuaVersion::All, LuaVersion::Lua51, LuaVersion::Luau, LuaVersion::LuaJIT]
    } else {
        vec![LuaVersion::All, LuaVersion::Lua51]
    };
    let _ = seed;
    let parts = par_map(n, threads(), |i| {
        let body = &bs[i];
        let mut sink = Sink::default();
        let mut stats = [0usize; 6]; // programs, parsed, formatted, strict_wf, dec52_some, undefined
        // the longest bodies (thorough tier) are run in the two principal modes only: four modes x 371 293
        // bodies x 2 delimiters x 4 quote styles is 51 million requests and 21 GB of runner memory
        let long_body = body.chars().count() >= 5;
        if long_body && i % 3 != 0 {
            // every third of the longest bodies (deterministic): keeps the thorough tier near 5 GB / 2 minutes
            return (sink, stats);
        }
        for (vi, v) in syntaxes.iter().enumerate().filter(|(vi, _)| !long_body || *vi < 2) {
            let (v52, zf) = match v {
                LuaVersion::Lua51 => (false, false),
                LuaVersion::LuaJIT => (false, true),
                _ => (true, true),
            };
            for inq in ['"', '\''] {
                let lit = format!("{}{}{}", inq, body, inq);
                let npos = if body.chars().count() <= 3 { 4 } else { 1 };
                for pos in 0..npos {
                    let prog = positions(&lit, pos);
                    stats[0] += 1;
                    let ok = parses(&prog, *v);
                    if pos == 0 && !body.contains(inq) {
                        // validate Spec.lexOK against full_moon (bodies with a bare delimiter
                        // may still parse as two strings; they are excluded)
                        sink.q(
                            format!("lexok {} {} {} {}", v52 as u8, zf as u8, inq, hex(body.as_bytes())),
                            format!("{}", ok),
                        );
                    }
                    if !ok {
                        continue;
                    }
                    // the input must be exactly one string token whose literal is `body`
                    let in_strs = tokens(&prog, *v).map(|t| string_tokens(&t)).unwrap_or_default();
                    if in_strs.len() != 1 || in_strs[0].1 != *body {
                        continue;
                    }
                    stats[1] += 1;
                    let d51 = decode51(body);
                    let d52 = decode52(body);
                    if vi == 0 && pos == 0 && inq == '"' {
                        sink.q(
                            format!("strval {}", hex(body.as_bytes())),
                            format!(
                                "{} {}",
                                natlist(&d51),
                                match &d52 {
                                    Some(v) => format!("some:{}", natlist(v)),
                                    None => "none".into(),
                                }
                            ),
                        );
                        if d52.is_some() {
                            stats[4] += 1;
                        }
                    }
                    for st in QUOTE_STYLES {
                        let mut c = cfg();
                        c.syntax = *v;
                        c.quote_style = st;
                        let out = match fmt(&prog, c, None, false) {
                            Outcome::Ok(o) => o,
                            Outcome::Panic(m) => {
                                sink.v("C07", "panic:strlit", json!({"input": prog, "config": cfg_to_string(&c), "panic": m}));
                                continue;
                            }
                            _ => {
                                sink.v("C07", "error-on-parseable", json!({"input": prog, "config": cfg_to_string(&c)}));
                                continue;
                            }
                        };
                        stats[2] += 1;
                        let toks = tokens(&out, *v);
                        let strs = toks.as_ref().map(|t| string_tokens(t)).unwrap_or_default();
                        let reparse = parses(&out, *v);
                        if !reparse || strs.len() != 1 {
                            // the output is not one string token any more
                            let strict = {
                                // strict acceptance = accepted by the Lua 5.1 tokenizer rule
                                parses(&positions(&lit, 0), LuaVersion::Lua51)
                            };
                            let sig = if strict { "output-not-a-string" } else { "output-not-a-string:lenient-raw-newline" };
                            sink.v("C04", sig, json!({"input": prog, "config": cfg_to_string(&c), "output": out}));
                            continue;
                        }
                        let (oq, obody, _) = &strs[0];
                        sink.q(
                            format!("strlit {:?} {}", st, hex(body.as_bytes())),
                            format!("{} {}", oq, hex(obody.as_bytes())),
                        );
                        // ring 3: values
                        let o51 = decode51(obody);
                        if o51 != d51 {
                            sink.v("C04", "value51-changed", json!({"input": prog, "config": cfg_to_string(&c), "output": out, "in": natlist(&d51), "out": natlist(&o51)}));
                        }
                        if let Some(v2) = &d52 {
                            let o52 = decode52(obody);
                            if o52.as_ref() != Some(v2) {
                                sink.v("C04", "value52-changed", json!({"input": prog, "config": cfg_to_string(&c), "output": out}));
                            }
                        }
                    }
                }
            }
        }
        // long brackets: body placed in [[ ]] and [==[ ]==], both line endings
        if !body.contains(']') {
            for (open, close) in [("[[", "]]"), ("[=[", "]=]"), ("[==[", "]==]")] {
              for pos in 0..4 {
                let lit = format!("{}{}{}", open, body, close);
                // `t[[[x]]]` / `{ [[[x]]] = 1 }` are not valid input: the source needs the space
                let prog = match pos {
                    2 => format!("local t = {{ [ {} ] = 1 }}\n", lit),
                    3 => format!("local y = t[ {} ]\n", lit),
                    _ => positions(&lit, pos),
                };
                if pos > 0 && body.chars().count() > 2 {
                    continue;
                }
                if !parses(&prog, LuaVersion::All) {
                    continue;
                }
                let in_strs = tokens(&prog, LuaVersion::All).map(|t| string_tokens(&t)).unwrap_or_default();
                if in_strs.len() != 1 || in_strs[0].1 != *body {
                    continue;
                }
                for eol in [LineEndings::Unix, LineEndings::Windows] {
                    let mut c = cfg();
                    c.line_endings = eol;
                    if let Outcome::Ok(out) = fmt(&prog, c, None, false) {
                        let toks = tokens(&out, LuaVersion::All);
                        let strs = toks.as_ref().map(|t| string_tokens(t)).unwrap_or_default();
                        if !parses(&out, LuaVersion::All) || strs.len() != 1 || strs[0].0 != "Brackets" {
                            sink.v("C04", "long-output-not-a-string", json!({"input": prog, "config": cfg_to_string(&c), "output": out}));
                            continue;
                        }
                        sink.q(
                            format!("long {} {}", if eol == LineEndings::Windows { "crlf" } else { "lf" }, hex(body.as_bytes())),
                            hex(strs[0].1.as_bytes()),
                        );
                        if strs[0].2 != open.len() - 2 {
                            sink.v("C04", "long-level-changed", json!({"input": prog, "config": cfg_to_string(&c), "output": out}));
                        }
                        let lone_cr = {
                            let b = body.as_bytes();
                            (0..b.len()).any(|i| b[i] == b'\r' && b.get(i + 1) != Some(&b'\n'))
                        };
                        if long_value(body) != long_value(&strs[0].1) {
                            // C04_long covers bodies without a lone CR; with one (`\n\r` is a single line break for a Lua
                            // reader) the conversion to CRLF adds a line break: C04_long_lone_cr_witness, a known finding
                            let sig = if lone_cr { "long-value-changed:lone-cr" } else { "long-value-changed" };
                            sink.v("C04", sig, json!({"input": prog, "config": cfg_to_string(&c), "output": out}));
                        }
                    }
                }
              }
            }
        }
        (sink, stats)
    });
    let mut sink = Sink::default();
    let mut tot = [0usize; 6];
    for (s, st) in parts {
        sink.merge(s);
        for i in 0..6 {
            tot[i] += st[i];
        }
    }
    numbers(&mut sink);
    sink.s(json!({"c04": {"bodies": n, "max_len": maxlen, "alphabet": ALPHABET.len(), "programs": tot[0], "parsed": tot[1], "formatted": tot[2], "decode52_defined_bodies": tot[4], "syntaxes": syntaxes.len()}}));
    sink
}

fn long_value(b: &str) -> Vec<u32> {
    // Lua: any of \n, \r, \r\n, \n\r is one newline; a first newline is skipped
    let cs: Vec<char> = b.chars().collect();
    let mut out = Vec::new();
    let mut i = 0;
    while i < cs.len() {
        let c = cs[i];
        if c == '\n' || c == '\r' {
            if i + 1 < cs.len() && (cs[i + 1] == '\n' || cs[i + 1] == '\r') && cs[i + 1] != c {
                i += 1;
            }
            out.push(10);
        } else {
            let mut buf = [0u8; 4];
            for x in c.encode_utf8(&mut buf).bytes() {
                out.push(x as u32);
            }
        }
        i += 1;
    }
    if out.first() == Some(&10) {
        out.remove(0);
    }
    out
}

/// number spellings per dialect, grammar-generated
fn numbers(sink: &mut Sink) {
    let ints = ["0", "1", "007", "12", "1_000", "0_"];
    let fracs = ["", ".", ".5", ".50", "._5"];
    let exps = ["", "e1", "E+2", "e-3", "e1_0"];
    let sufs = ["", "LL", "ULL", "i", "ll"];
    let mut lits: Vec<String> = Vec::new();
    for i in ints {
        for f in fracs {
            for e in exps {
                for s in sufs {
                    lits.push(format!("{}{}{}{}", i, f, e, s));
                }
            }
        }
    }
    for f in [".5", ".0", ".5e3", ".1e-2", ".5_0"] {
        lits.push(f.to_string());
    }
    for h in ["0x1", "0XfF", "0x.8", "0x1p4", "0xA.8p-1", "0x_1", "0b101", "0B1_0", "0x1LL", "0xffULL", "0x1i", "0b1__0"] {
        lits.push(h.to_string());
    }
    let mut n = 0;
    let mut changed = 0;
    for l in &lits {
        for v in SYNTAXES {
            let prog = format!("local x = {}\n", l);
            if !parses(&prog, v) {
                continue;
            }
            let mut c = cfg();
            c.syntax = v;
            if let Outcome::Ok(out) = fmt(&prog, c, None, false) {
                let toks = match tokens(&out, v) {
                    Some(t) => t,
                    None => {
                        sink.v("C04", "number-output-unlexable", json!({"input": prog, "config": cfg_to_string(&c), "output": out}));
                        continue;
                    }
                };
                let nums: Vec<String> = toks
                    .iter()
                    .filter_map(|t| match t.token_type() {
                        full_moon::tokenizer::TokenType::Number { text } => Some(text.to_string()),
                        _ => None,
                    })
                    .collect();
                if nums.len() != 1 {
                    sink.v("C04", "number-token-count", json!({"input": prog, "config": cfg_to_string(&c), "output": out}));
                    continue;
                }
                n += 1;
                sink.q(format!("num {}", hex(l.as_bytes())), hex(nums[0].as_bytes()));
                // ring 3: value: only a leading "0" may be added before "."
                let expect = if l.starts_with('.') { format!("0{}", l) } else { l.clone() };
                if nums[0] != expect {
                    sink.v("C04", "number-spelling-changed", json!({"input": prog, "config": cfg_to_string(&c), "output": out}));
                }
                if nums[0] != *l {
                    changed += 1;
                }
            }
        }
    }
    sink.s(json!({"c04_numbers": {"spellings": lits.len(), "accepted_x_syntax": n, "rewritten": changed}}));
}
