//! C02 / C01 for Luau types: the type-parenthesis rule (luau.rs keep_parentheses + contexts) against
//! Model/TypeParen.lean.
//!  ring 2  `tyfmt <in> <out>`: the type full_moon reads from the input and the type it reads from the
//!          formatted output, as trees; the model must admit the output (over all layout oracles).
//!          `tywf <tree> <read>`: validation of the spec's `wf`: a tree printed bare and what
//!          full_moon reads from that text.
//!  ring 3  is the generated family `gen/luau-type` of `hx pipe` (normal form, re-parse, idempotence).
use crate::gen::{cores, T};
use crate::util::*;
use full_moon::ast::luau::{TypeFieldKey, TypeInfo};
use full_moon::ast::punctuated::Pair;
use full_moon::ast::Stmt;
use serde_json::json;
use stylua_lib::LuaVersion;

pub fn name_id(s: &str) -> u32 {
    match s {
        "A" => 0,
        "B" => 1,
        "C" => 2,
        "string" => 10,
        "Map" => 11,
        _ => {
            let mut h: u32 = 2166136261;
            for b in s.bytes() {
                h = (h ^ b as u32).wrapping_mul(16777619);
            }
            1000 + h % 100000
        }
    }
}

fn list<'a, I: Iterator<Item = &'a TypeInfo>>(it: I) -> String {
    it.map(sexp).collect::<Vec<_>>().join(",")
}

/// full_moon type tree -> the model's notation
pub fn sexp(t: &TypeInfo) -> String {
    match t {
        TypeInfo::Basic(tok) => format!("N{}", name_id(&tok.token().to_string())),
        TypeInfo::Optional { base, .. } => format!("O({})", sexp(base)),
        TypeInfo::Union(u) => format!("U({})", list(u.types().iter())),
        TypeInfo::Intersection(u) => format!("I({})", list(u.types().iter())),
        TypeInfo::Callback { arguments, return_type, .. } => {
            format!("F({})>{}", list(arguments.iter().map(|a| a.type_info())), sexp(return_type))
        }
        TypeInfo::Tuple { types, .. } => {
            let single = types.len() == 1 && matches!(types.pairs().next(), Some(Pair::End(_)));
            if single {
                format!("P({})", sexp(types.iter().next().unwrap()))
            } else {
                format!("K({})", list(types.iter()))
            }
        }
        TypeInfo::Variadic { type_info, .. } => format!("V({})", sexp(type_info)),
        TypeInfo::Generic { base, generics, .. } => format!("G{}({})", name_id(&base.token().to_string()), list(generics.iter())),
        TypeInfo::Array { type_info, .. } => format!("T({})", sexp(type_info)),
        TypeInfo::Table { fields, .. } => {
            let parts: Vec<String> = fields
                .iter()
                .map(|f| match f.key() {
                    TypeFieldKey::IndexSignature { inner, .. } => format!("X({};{})", sexp(inner), sexp(f.value())),
                    _ => sexp(f.value()),
                })
                .collect();
            format!("T({})", parts.join(","))
        }
        other => format!("N{}", name_id(&other.to_string().chars().filter(|c| !c.is_whitespace()).collect::<String>())),
    }
}

fn type_of(ast: &full_moon::ast::Ast) -> Option<TypeInfo> {
    match ast.nodes().stmts().next()? {
        Stmt::TypeDeclaration(d) => Some(d.type_definition().clone()),
        _ => None,
    }
}

pub fn run(tier: &str, _seed: u64) -> Sink {
    let thorough = tier == "thorough";
    let cs = cores();
    // every core tree in four positions, with parentheses: none / around every compound child /
    // doubled / one extra pair at each node
    let mut programs: Vec<String> = Vec::new();
    let mut bare: Vec<(String, String)> = Vec::new();
    for t in &cs {
        let n = t.size();
        let mut variants: Vec<String> = vec![t.print(0, usize::MAX, 0, &mut 0, true), t.print(1, usize::MAX, 0, &mut 0, true), t.print(2, usize::MAX, 0, &mut 0, true)];
        for at in 0..n {
            variants.push(t.print(1, at, 1, &mut 0, true));
            variants.push(t.print(0, at, 2, &mut 0, true));
        }
        variants.dedup();
        bare.push((t.sexp(), format!("type T = {}\n", variants[0])));
        for (i, v) in variants.iter().enumerate() {
            programs.push(format!("type T = {}\n", v));
            if i % 4 == 0 {
                programs.push(format!("type T = {{ f: {}, [{}]: {} }}\n", v, v, v));
                programs.push(format!("type T = Map<{}, ({})>\n", v, v));
                programs.push(format!("type T = ({}, ...{}) -> ({})?\n", v, v, v));
            }
        }
    }
    programs.sort();
    programs.dedup();
    let widths: &[usize] = if thorough { &[120, 60, 40, 20, 10, 1] } else { &[120, 40, 10] };
    let n = programs.len();
    let parts = par_map(n, threads(), |i| {
        let mut sink = Sink::default();
        let mut st = [0usize; 4];
        let src = &programs[i];
        let ast_in = match parse(src, LuaVersion::Luau) {
            Some(a) => a,
            None => return (sink, st),
        };
        let tin = match type_of(&ast_in) {
            Some(t) => sexp(&t),
            None => return (sink, st),
        };
        st[0] += 1;
        for w in widths {
            let mut c = cfg();
            c.syntax = LuaVersion::Luau;
            c.column_width = *w;
            let out = match fmt(src, c, None, false) {
                Outcome::Ok(o) => o,
                _ => continue,
            };
            st[1] += 1;
            let tout = parse(&out, LuaVersion::Luau).and_then(|a| type_of(&a)).map(|t| sexp(&t)).unwrap_or_else(|| "none".into());
            if tout != tin {
                st[2] += 1;
            }
            sink.q(format!("tyfmt {} {}", tin, tout), "ok".into());
        }
        (sink, st)
    });
    let mut sink = Sink::default();
    let mut tot = [0usize; 4];
    for (s, st) in parts {
        sink.merge(s);
        for k in 0..4 {
            tot[k] += st[k];
        }
    }
    // spec validation: the bare printing of every core tree, as full_moon reads it
    let mut wf_asked = 0;
    for (tree, text) in &bare {
        let read = parse(text, LuaVersion::Luau).and_then(|a| type_of(&a)).map(|t| sexp(&t)).unwrap_or_else(|| "none".into());
        sink.q(format!("tywf {} {}", tree, read), "ok".into());
        wf_asked += 1;
    }
    sink.s(json!({"c02t": {"core_trees": cs.len(), "programs": n, "parsed": tot[0], "formatted": tot[1], "type_changed": tot[2], "widths": widths.len(), "wf_validations": wf_asked, "oracle_evaluations": tot[1]}}));
    sink
}
