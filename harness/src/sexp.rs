//! Abstract expression trees shared with the Lean model (`Model/Expr.lean`) and their
//! extraction from full_moon ASTs.
use full_moon::ast::{self, BinOp, Expression, UnOp};

#[derive(Clone, Debug, PartialEq, Eq, Hash)]
pub enum E {
    Atom(u32),
    Call(u32),
    Varargs,
    Paren(Box<E>),
    Un(&'static str, Box<E>),
    Bin(&'static str, Box<E>, Box<E>),
    Assert(Box<E>),
    Ifx(Box<E>, Box<E>, Box<E>),
    IfxAtom(u32),
}

pub const BINOPS: [(&str, &str, u8, bool); 21] = [
    ("caret", "^", 12, true),
    ("percent", "%", 10, false),
    ("slash", "/", 10, false),
    ("star", "*", 10, false),
    ("dslash", "//", 10, false),
    ("minus", "-", 9, false),
    ("plus", "+", 9, false),
    ("concat", "..", 8, true),
    ("shl", "<<", 7, false),
    ("shr", ">>", 7, false),
    ("band", "&", 6, false),
    ("bxor", "~", 5, false),
    ("bor", "|", 4, false),
    ("gt", ">", 3, false),
    ("ge", ">=", 3, false),
    ("lt", "<", 3, false),
    ("le", "<=", 3, false),
    ("ne", "~=", 3, false),
    ("eq", "==", 3, false),
    ("and", "and", 2, false),
    ("or", "or", 1, false),
];
pub const UNOPS: [(&str, &str); 4] = [("m", "-"), ("n", "not "), ("h", "#"), ("t", "~")];

pub fn bin_text(name: &str) -> &'static str {
    BINOPS.iter().find(|b| b.0 == name).unwrap().1
}
pub fn un_text(name: &str) -> &'static str {
    UNOPS.iter().find(|b| b.0 == name).unwrap().1
}

impl E {
    pub fn sexp(&self) -> String {
        match self {
            E::Atom(n) => format!("a{}", n),
            E::Call(n) => format!("c{}", n),
            E::Varargs => "v".into(),
            E::Paren(e) => format!("P({})", e.sexp()),
            E::Un(o, e) => format!("U{}({})", o, e.sexp()),
            E::Bin(o, l, r) => format!("B{}({},{})", o, l.sexp(), r.sexp()),
            E::Assert(e) => format!("A({})", e.sexp()),
            E::Ifx(..) => format!("i{}", self.ifx_id()),
            E::IfxAtom(n) => format!("i{}", n),
        }
    }
    /// identity of an if-expression: its parts modulo parentheses (they are formatted as
    /// separate entries)
    pub fn ifx_id(&self) -> u32 {
        hash(&self.norm(false))
    }
    /// replaces structured if-expressions by their opaque form
    pub fn abstracted(&self) -> E {
        match self {
            E::Ifx(..) => E::IfxAtom(self.ifx_id()),
            E::Paren(e) => E::Paren(Box::new(e.abstracted())),
            E::Un(o, e) => E::Un(o, Box::new(e.abstracted())),
            E::Assert(e) => E::Assert(Box::new(e.abstracted())),
            E::Bin(o, l, r) => E::Bin(o, Box::new(l.abstracted()), Box::new(r.abstracted())),
            x => x.clone(),
        }
    }
    /// Lua source; `pad` lengthens identifiers to steer the layout engine.
    pub fn lua(&self, pad: usize) -> String {
        self.lua_(pad, false)
    }
    /// `tight`: unary minus printed without a separating space, as StyLua prints it
    pub fn lua_(&self, pad: usize, tight: bool) -> String {
        let p = "x".repeat(pad);
        match self {
            // atoms 700..=799 are long-bracket strings (their first character is `[`)
            E::Atom(n) if (700..800).contains(n) => format!("[[s{}{}]]", n, p),
            E::Atom(n) => format!("a{}{}", n, p),
            E::Call(n) => format!("c{}{}()", n, p),
            E::Varargs => "...".into(),
            E::Paren(e) => format!("({})", e.lua_(pad, tight)),
            E::Un(o, e) => {
                let t = un_text(o);
                let inner = e.lua_(pad, tight);
                if *o == "m" && inner.starts_with('-') && !tight {
                    format!("{} {}", t, inner) // `- -x` must be written with a space
                } else {
                    format!("{}{}", t, inner)
                }
            }
            E::Bin(o, l, r) => format!("{} {} {}", l.lua_(pad, tight), bin_text(o), r.lua_(pad, tight)),
            E::Assert(e) => format!("{} :: T", e.lua_(pad, tight)),
            E::Ifx(c, t, e) => format!("if {} then {} else {}", c.lua_(pad, tight), t.lua_(pad, tight), e.lua_(pad, tight)),
            E::IfxAtom(n) => format!("if i{} then 1 else 2", n),
        }
    }
    /// `assert` directly over a unary operator: full_moon's `::` postfix has a corner case
    /// there (`-x :: T :: U`); outside the validated domain of the spec's `faithful`
    pub fn has_assert_over_un(&self) -> bool {
        match self {
            E::Assert(e) => matches!(**e, E::Un(..)) || e.has_assert_over_un(),
            E::Paren(e) | E::Un(_, e) => e.has_assert_over_un(),
            E::Bin(_, l, r) => l.has_assert_over_un() || r.has_assert_over_un(),
            E::Ifx(c, t, e) => c.has_assert_over_un() || t.has_assert_over_un() || e.has_assert_over_un(),
            _ => false,
        }
    }
    pub fn depth(&self) -> usize {
        match self {
            E::Atom(_) | E::Call(_) | E::Varargs | E::IfxAtom(_) => 0,
            E::Paren(e) | E::Un(_, e) | E::Assert(e) => 1 + e.depth(),
            E::Bin(_, l, r) => 1 + l.depth().max(r.depth()),
            E::Ifx(c, t, e) => 1 + c.depth().max(t.depth()).max(e.depth()),
        }
    }
    /// independent semantic normal form: parentheses forgotten; `multi` = this expression
    /// stands in a position where all its values are used (then `(f())`/`(...)` truncate)
    pub fn norm(&self, multi: bool) -> String {
        match self {
            E::Atom(n) => format!("a{}", n),
            E::Call(n) => format!("c{}", n),
            E::Varargs => "v".into(),
            E::Paren(e) => {
                let mut inner: &E = e;
                while let E::Paren(x) = inner {
                    inner = x;
                }
                if multi && matches!(inner, E::Call(_) | E::Varargs) {
                    format!("T({})", inner.norm(false))
                } else {
                    inner.norm(false)
                }
            }
            E::Un(o, e) => format!("U{}({})", o, e.norm(false)),
            E::Bin(o, l, r) => format!("B{}({},{})", o, l.norm(false), r.norm(false)),
            E::Assert(e) => format!("A({})", e.norm(false)),
            E::Ifx(c, t, e) => format!("I({},{},{})", c.norm(false), t.norm(false), e.norm(false)),
            E::IfxAtom(n) => format!("i{}", n),
        }
    }
}

fn name_num(s: &str) -> Option<(char, u32)> {
    let mut cs = s.chars();
    let k = cs.next()?;
    let digits: String = cs.take_while(|c| c.is_ascii_digit()).collect();
    Some((k, digits.parse().ok()?))
}

pub fn binop_name(b: &BinOp) -> &'static str {
    match b {
        BinOp::And(_) => "and",
        BinOp::Caret(_) => "caret",
        BinOp::GreaterThan(_) => "gt",
        BinOp::GreaterThanEqual(_) => "ge",
        BinOp::LessThan(_) => "lt",
        BinOp::LessThanEqual(_) => "le",
        BinOp::Minus(_) => "minus",
        BinOp::Or(_) => "or",
        BinOp::Percent(_) => "percent",
        BinOp::Plus(_) => "plus",
        BinOp::Slash(_) => "slash",
        BinOp::Star(_) => "star",
        BinOp::TildeEqual(_) => "ne",
        BinOp::TwoDots(_) => "concat",
        BinOp::TwoEqual(_) => "eq",
        BinOp::Ampersand(_) => "band",
        BinOp::DoubleSlash(_) => "dslash",
        BinOp::DoubleLessThan(_) => "shl",
        BinOp::DoubleGreaterThan(_) => "shr",
        BinOp::Pipe(_) => "bor",
        BinOp::Tilde(_) => "bxor",
        _ => "?",
    }
}

/// Converts a full_moon expression built from the generator's vocabulary; anything else
/// becomes an opaque atom numbered by a hash of its text.
pub fn of_ast(e: &Expression) -> E {
    match e {
        Expression::Parentheses { expression, .. } => E::Paren(Box::new(of_ast(expression))),
        Expression::UnaryOperator { unop, expression } => {
            let o = match unop {
                UnOp::Minus(_) => "m",
                UnOp::Not(_) => "n",
                UnOp::Hash(_) => "h",
                UnOp::Tilde(_) => "t",
                _ => "?",
            };
            E::Un(o, Box::new(of_ast(expression)))
        }
        Expression::BinaryOperator { lhs, binop, rhs } => {
            E::Bin(binop_name(binop), Box::new(of_ast(lhs)), Box::new(of_ast(rhs)))
        }
        Expression::TypeAssertion { expression, .. } => E::Assert(Box::new(of_ast(expression))),
        Expression::IfExpression(ifx) => {
            if ifx.else_if_expressions().map(|v| v.len()).unwrap_or(0) == 0 {
                E::Ifx(
                    Box::new(of_ast(ifx.condition())),
                    Box::new(of_ast(ifx.if_expression())),
                    Box::new(of_ast(ifx.else_expression())),
                )
            } else {
                opaque(e)
            }
        }
        Expression::FunctionCall(fc) => {
            if let ast::Prefix::Name(n) = fc.prefix() {
                if let Some(('c', k)) = name_num(&n.token().to_string()) {
                    return E::Call(k);
                }
            }
            // any other call is still a multi-value call
            E::Call(1_000_000 + hash(&strip(e)))
        }
        Expression::String(t) if t.token().to_string().starts_with("[[s7") => {
            match name_num(&t.token().to_string()[2..]) {
                Some(('s', k)) if (700..800).contains(&k) => E::Atom(k),
                _ => opaque(e),
            }
        }
        Expression::Symbol(t) if t.token().to_string() == "..." => E::Varargs,
        Expression::Var(ast::Var::Name(n)) => match name_num(&n.token().to_string()) {
            Some(('a', k)) => E::Atom(k),
            _ => opaque(e),
        },
        _ => opaque(e),
    }
}

fn strip(e: &Expression) -> String {
    // text without whitespace (atoms are compared modulo layout)
    e.to_string().chars().filter(|c| !c.is_whitespace()).collect()
}
fn hash(s: &str) -> u32 {
    let mut h: u32 = 2166136261;
    for b in s.bytes() {
        h = (h ^ b as u32).wrapping_mul(16777619);
    }
    h % 900_000
}
fn opaque(e: &Expression) -> E {
    E::Atom(1_000_000 + hash(&strip(e)))
}
