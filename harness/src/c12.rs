//! C12 — require sorting only permutes statements inside a require block.
//! ring 2: `sortreq` protocol (output order of statement ids) vs Model/SortReq.lean.
//! ring 3: the clauses of the property checked on the re-parsed output by the harness's own
//!         grouping; comment census; range + sort (C09).
use crate::lexutil::tokens;
use crate::util::*;
use full_moon::tokenizer::TokenType;
use serde_json::json;
use std::collections::BTreeMap;
use stylua_lib::{LuaVersion, Range, SortRequiresConfig};

#[derive(Clone)]
struct It {
    id: usize,
    kind: char, // r | g | -
    name: String,
    text: String, // statement text without leading comments
    lead: String, // leading comment lines (own lines)
    lines: Vec<&'static str>,
    blank_before: bool,
    semi: bool,
    trail: String,
    multi: usize, // number of source lines the statement spans
    key: String,  // unique text that survives formatting
}

const NAMES: &[&str] = &["a", "B", "b", "Zed", "aa", "a1", "_x", "Module", "module", "z", "É", "ab"];
const DIRS: &[(&str, &str)] = &[
    ("-- stylua: ignore\n", "ignore"),
    ("-- stylua: ignore start\n", "ignoreStart"),
    ("-- stylua: ignore end\n", "ignoreEnd"),
    ("-- a note\n", "other"),
];

fn make(r: &mut Rng, id: usize, luau: bool, force_require: bool) -> It {
    let name = NAMES[r.below(NAMES.len())].to_string();
    let name = if name == "É" && !luau { "E".to_string() } else { name };
    let k = if force_require { r.below(5) } else { r.below(12) };
    let (kind, text, multi): (char, String, usize) = match k {
        0..=4 => ('r', format!("local {} = require(\"m{}\")", name, id), 1),
        5 => ('r', format!("local {}   =   require  \"m{}\"", name, id), 1),
        6 | 7 => ('g', format!("local {} = game:GetService(\"S{}\")", name, id), 1),
        8 => ('-', format!("local {}, extra{} = require(\"m{}\")", name, id, id), 1),
        9 => ('-', format!("local v{} = {}", id, id), 1),
        10 => ('-', format!("f{}()", id), 1),
        _ => {
            if luau {
                ('r', format!("local {} = require(\"m{}\") :: any", name, id), 1)
            } else {
                ('r', format!("local {} =\n\trequire(\"m{}\")", name, id), 2)
            }
        }
    };
    let mut lead = String::new();
    let mut lines = Vec::new();
    if r.chance(1, 5) {
        let (t, c) = DIRS[r.below(DIRS.len())];
        lead.push_str(t);
        lines.push(c);
    }
    let key = match kind {
        'r' => format!("\"m{}\"", id),
        'g' => format!("\"S{}\"", id),
        _ => {
            if text.starts_with("local v") {
                format!("local v{} ", id)
            } else if text.starts_with('f') {
                format!("f{}()", id)
            } else {
                format!("\"m{}\"", id)
            }
        }
    };
    It {
        id,
        kind,
        name,
        key,
        text,
        lead,
        lines,
        blank_before: r.chance(1, 6),
        semi: r.chance(1, 8),
        trail: if r.chance(1, 6) { format!(" -- t{}", id) } else { String::new() },
        multi,
    }
}

struct Built {
    text: String,
    name_line: Vec<usize>,
    end_line: Vec<usize>,
    spans: Vec<(usize, usize)>,
}

fn build(items: &[It]) -> Built {
    let mut text = String::new();
    let mut line = 1usize;
    let mut name_line = Vec::new();
    let mut end_line = Vec::new();
    let mut spans = Vec::new();
    for it in items {
        if it.blank_before {
            text.push('\n');
            line += 1;
        }
        text.push_str(&it.lead);
        line += it.lead.matches('\n').count();
        name_line.push(line);
        let a = text.len();
        text.push_str(&it.text);
        if it.semi {
            text.push(';');
        }
        spans.push((a, text.len()));
        line += it.multi - 1;
        end_line.push(line);
        text.push_str(&it.trail);
        text.push('\n');
        line += 1;
    }
    Built { text, name_line, end_line, spans }
}

/// ids of the top-level statements of `src`, in order (each statement carries its id in a
/// string / name that survives formatting)
fn ids_in(src: &str, items: &[It]) -> Vec<usize> {
    let mut found: Vec<(usize, usize)> = Vec::new();
    for it in items {
        let key = it.key.clone();
        if let Some(p) = src.find(&key) {
            found.push((p, it.id));
        }
    }
    found.sort();
    found.into_iter().map(|x| x.1).collect()
}

fn comment_census(src: &str, v: LuaVersion) -> BTreeMap<String, usize> {
    let mut m = BTreeMap::new();
    if let Some(toks) = tokens(src, v) {
        for t in toks {
            let k = match t.token_type() {
                TokenType::SingleLineComment { comment } => Some(comment.trim_end().to_string()),
                TokenType::MultiLineComment { comment, .. } => Some(comment.to_string()),
                _ => None,
            };
            if let Some(k) = k {
                *m.entry(k).or_insert(0) += 1;
            }
        }
    }
    m
}

pub fn variant() -> String {
    std::env::var("VERIF_SORT_VARIANT").unwrap_or_else(|_| "repaired".into())
}

pub fn run(tier: &str, seed: u64) -> Sink {
    let n = if tier == "thorough" { 80000 } else { 12000 };
    let parts = par_map(n, threads(), |i| {
        let mut sink = Sink::default();
        let mut r = Rng::new(seed.wrapping_mul(7919) ^ (i as u64) ^ 0xC12);
        let luau = r.chance(1, 4);
        // one program in 25 is a single long require block (sorting algorithms change behaviour with the length;
        // with 12 names duplicates are certain, so stability is observable)
        let long = i % 25 == 7;
        let len = if long { 21 + r.below(20) } else { 2 + r.below(7) };
        let mut items: Vec<It> = (0..len).map(|k| make(&mut r, i * 64 + k, luau, long)).collect();
        // occasionally a same-line leading block comment (travels with its statement)
        if r.chance(1, 8) {
            let k = r.below(items.len());
            items[k].text = format!("--[[c{}]] {}", items[k].id, items[k].text);
        }
        items[0].blank_before = false;
        if long {
            // one contiguous group: no blank lines, no directives
            for it in items.iter_mut() {
                it.blank_before = false;
                it.lead.clear();
                it.lines.clear();
            }
        }
        let b = build(&items);
        let syntax = if luau { LuaVersion::Luau } else { LuaVersion::Lua51 };
        if !parses(&b.text, syntax) {
            return (sink, 0usize);
        }
        let mut c = cfg();
        c.syntax = syntax;
        let enabled = !r.chance(1, 8);
        c.sort_requires = SortRequiresConfig { enabled };
        // range (sometimes): statement-aligned
        let range = if r.chance(1, 4) {
            let a = r.below(items.len());
            let z = a + r.below(items.len() - a);
            Some((b.spans[a].0, b.spans[z].1))
        } else {
            None
        };
        let rg = range.map(|(a, z)| Range::from_values(Some(a), Some(z)));
        let out = match fmt(&b.text, c, rg, false) {
            Outcome::Ok(o) => o,
            Outcome::Panic(p) => {
                sink.v("C07", "panic:sort-requires", json!({"input": b.text, "config": cfg_to_string(&c), "panic": p}));
                return (sink, 1);
            }
            _ => return (sink, 1),
        };
        let in_ids: Vec<usize> = items.iter().map(|x| x.id).collect();
        let out_ids = ids_in(&out, &items);
        let in_range = |k: usize| -> bool {
            match range {
                None => true,
                Some((a, z)) => b.spans[k].0 >= a && b.spans[k].1 <= z,
            }
        };
        // ---- ring 2
        let descr: Vec<String> = items
            .iter()
            .enumerate()
            .map(|(k, it)| {
                // a leading same-line block comment does not change the kind; name token line = statement line
                format!(
                    "{}:{}:{}:{}:{}:{}:{}",
                    it.id,
                    it.kind,
                    if it.kind == '-' { "-".to_string() } else { hex(it.name.as_bytes()) },
                    b.name_line[k],
                    b.end_line[k],
                    if it.lines.is_empty() { "-".to_string() } else { it.lines.join("+") },
                    in_range(k) as u8
                )
            })
            .collect();
        sink.q(
            format!("sortreq {} {} {}", variant(), enabled as u8, descr.join(",")),
            out_ids.iter().map(|x| x.to_string()).collect::<Vec<_>>().join(","),
        );
        // ---- ring 3
        let detail = || json!({"input": b.text, "config": cfg_to_string(&c), "range": range.map(|x| vec![x.0, x.1]), "output": out});
        let mut a = in_ids.clone();
        let mut z = out_ids.clone();
        a.sort();
        z.sort();
        if a != z {
            sink.v("C12", "not-a-permutation", detail());
            return (sink, 1);
        }
        if !enabled && out_ids != in_ids {
            sink.v("C12", "order-changed-with-option-off", detail());
        }
        // the harness's own grouping, from the property text
        let mut groups: Vec<Vec<usize>> = Vec::new(); // indices
        let mut disabled = false;
        let mut ignored = vec![false; items.len()];
        for (k, it) in items.iter().enumerate() {
            for l in &it.lines {
                if *l == "ignoreStart" {
                    disabled = true;
                } else if *l == "ignoreEnd" {
                    disabled = false;
                }
            }
            ignored[k] = disabled || it.lines.contains(&"ignore");
            let joins = k > 0
                && it.kind != '-'
                && items[k - 1].kind == it.kind
                && !it.blank_before
                && it.lead.is_empty()
                && groups.last().map(|g| *g.last().unwrap() == k - 1).unwrap_or(false);
            if it.kind != '-' {
                if joins {
                    groups.last_mut().unwrap().push(k);
                } else {
                    groups.push(vec![k]);
                }
            }
        }
        let pos_out: BTreeMap<usize, usize> = out_ids.iter().enumerate().map(|(p, id)| (*id, p)).collect();
        let mut in_group = vec![false; items.len()];
        for g in &groups {
            for k in g {
                in_group[*k] = true;
            }
            // index set preserved
            let mut want: Vec<usize> = g.clone();
            let mut got: Vec<usize> = g.iter().map(|k| pos_out[&items[*k].id]).collect();
            want.sort();
            got.sort();
            if want != got {
                sink.v("C12", "statement-left-its-group", detail());
                continue;
            }
            let frozen = !enabled || g.iter().any(|k| ignored[*k] || !in_range(*k));
            let out_members: Vec<usize> = want.iter().map(|p| out_ids[*p]).collect();
            let in_members: Vec<usize> = g.iter().map(|k| items[*k].id).collect();
            if frozen {
                if out_members != in_members {
                    let sig = if g.iter().any(|k| ignored[*k]) { "ignored-group-reordered" } else { "out-of-range-group-reordered" };
                    sink.v("C12", sig, detail());
                    if !g.iter().any(|k| ignored[*k]) {
                        sink.v("C09", "sort:out-of-range-stmt-moved", detail());
                    } else {
                        sink.v("C08", "sort:ignored-stmt-moved", detail());
                    }
                }
            } else {
                // sorted by NAME bytes, stable
                let mut expect: Vec<(Vec<u8>, usize, usize)> = g.iter().enumerate().map(|(ord, k)| (items[*k].name.as_bytes().to_vec(), ord, items[*k].id)).collect();
                expect.sort();
                let expect_ids: Vec<usize> = expect.into_iter().map(|x| x.2).collect();
                if out_members != expect_ids {
                    sink.v("C12", "group-not-sorted-by-name", detail());
                }
            }
        }
        for (k, it) in items.iter().enumerate() {
            if !in_group[k] && pos_out[&it.id] != k {
                sink.v("C12", "non-group-statement-moved", detail());
                break;
            }
        }
        if comment_census(&b.text, syntax) != comment_census(&out, syntax) {
            sink.v("C12", "comment-lost-or-changed", detail());
            sink.v("C03", "sort:comment-lost-or-changed", detail());
        }
        if !parses(&out, syntax) {
            sink.v("C01", "sort:unparseable-output", detail());
        }
        (sink, 1)
    });
    let mut sink = Sink::default();
    let mut progs = 0;
    for (s, p) in parts {
        sink.merge(s);
        progs += p;
    }
    sink.s(json!({"c12": {"generated": n, "programs": progs, "oracle_evaluations": progs}}));
    sink
}
