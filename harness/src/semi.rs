//! C03 — ring 2 for Model/Semi.lean: the trivia of a statement's semicolon in format_block.
//! For a statement A followed by B, the harness observes (i) T, the trailing trivia the formatter
//! gives A when there is no semicolon, and (ii) the bytes between A's last token and B's first token
//! when the semicolon with its comments is there. The model must produce (ii) from T, the semicolon's
//! own trivia, "written" and "required" (B begins with a parenthesis and A can end in an expression).
use crate::util::*;
use full_moon::tokenizer::{Token, TokenType};
use serde_json::json;
use stylua_lib::{LineEndings, LuaVersion};

fn significant(t: &Token) -> bool {
    !matches!(
        t.token_type(),
        TokenType::Whitespace { .. } | TokenType::SingleLineComment { .. } | TokenType::MultiLineComment { .. } | TokenType::Shebang { .. } | TokenType::Eof
    )
}

fn is_semicolon(t: &Token) -> bool {
    matches!(t.token_type(), TokenType::Symbol { symbol } if symbol.to_string() == ";")
}

/// input trivia tokens (the tokenizer's view) as protocol items
fn triv_items(toks: &[Token]) -> String {
    let mut v = Vec::new();
    for t in toks {
        match t.token_type() {
            TokenType::Whitespace { characters } => v.push(if characters.contains('\n') { "w1".to_string() } else { "w0".to_string() }),
            TokenType::SingleLineComment { comment } => v.push(format!("L{}", hex(comment.as_bytes()))),
            TokenType::MultiLineComment { blocks, comment } => v.push(format!("B{}.{}", blocks, hex(comment.as_bytes()))),
            _ => {}
        }
    }
    if v.is_empty() { "-".into() } else { v.join(";") }
}

/// output trivia tokens as protocol items: n (line ending), s (one space), i (other blanks), comments
fn out_items(toks: &[Token]) -> Option<String> {
    let mut v = Vec::new();
    for t in toks {
        match t.token_type() {
            TokenType::Whitespace { characters } => {
                if characters.contains('\n') {
                    let stripped = characters.trim_end_matches('\n').trim_end_matches('\r');
                    if !stripped.is_empty() {
                        return None;
                    }
                    v.push("n".to_string())
                } else if characters.as_str() == " " {
                    v.push("s".to_string())
                } else {
                    return None;
                }
            }
            // in CRLF output the tokenizer leaves the `\r` of the line ending inside a line comment
            TokenType::SingleLineComment { comment } => v.push(format!("L{}", hex(comment.trim_end_matches('\r').as_bytes()))),
            TokenType::MultiLineComment { blocks, comment } => v.push(format!("B{}.{}", blocks, hex(comment.as_bytes()))),
            _ => return None,
        }
    }
    Some(if v.is_empty() { "-".into() } else { v.join(";") })
}

/// a random indentation setting; returns the text of one indentation level
fn pick_indent(r: &mut Rng, c: &mut stylua_lib::Config) -> String {
    if r.chance(1, 2) {
        c.indent_type = stylua_lib::IndentType::Tabs;
        "\t".to_string()
    } else {
        c.indent_type = stylua_lib::IndentType::Spaces;
        c.indent_width = [2, 3, 4, 8][r.below(4)];
        " ".repeat(c.indent_width)
    }
}

pub fn run(tier: &str, seed: u64) -> Sink {
    let n = if tier == "thorough" { 40000 } else { 6000 };
    let stmts: [(&str, usize, bool); 6] = [
        // text, number of significant tokens, can need a semicolon
        ("local aa = ff", 4, true),
        ("aa = ff", 3, true),
        ("ff(aa)", 4, true),
        ("repeat until aa", 3, true),
        ("do end", 2, false),
        ("while aa do end", 4, false),
    ];
    let ctexts = ["c", "c  ", "", "é"];
    let btexts = ["b", "b\nb", ""];
    let parts = par_map(n, threads(), |i| {
        let mut sink = Sink::default();
        let mut r = Rng::new(seed.wrapping_mul(7177) ^ (i as u64) ^ 0x5E31);
        let (a, a_sig, can) = stmts[r.below(stmts.len())];
        let paren_next = r.chance(1, 2);
        let b = if paren_next { "(gg)(1)" } else { "gg(1)" };
        let comment = |r: &mut Rng, allow_line: bool| -> (String, bool) {
            if allow_line && r.chance(1, 2) {
                (format!("--{}", ctexts[r.below(ctexts.len())]), true)
            } else {
                let lvl = r.below(2);
                let eqs = "=".repeat(lvl);
                (format!("--[{}[{}]{}]", eqs, btexts[r.below(btexts.len())], eqs), false)
            }
        };
        // trailing comments of A (on A's line; a line comment ends the line)
        let mut a_trail = String::new();
        let mut line_open = true;
        for _ in 0..r.below(3) {
            if !line_open {
                break;
            }
            let (c, is_line) = comment(&mut r, true);
            a_trail.push(' ');
            a_trail.push_str(&c);
            if is_line {
                line_open = false;
            }
        }
        // without a semicolon `ff⏎(gg)(1)` is one call chain: a required semicolon is always a written one
        let written = (can && paren_next) || r.chance(3, 4);
        // the semicolon: on A's line (if still open), or on a line of its own, possibly below comment lines
        let mut semi = String::new();
        if written {
            let own_line = !line_open || r.chance(1, 3);
            if own_line {
                semi.push('\n');
                for _ in 0..r.below(3) {
                    let (c, is_line) = comment(&mut r, true);
                    semi.push_str(&c);
                    semi.push_str(if is_line || r.chance(1, 2) { "\n" } else { " " });
                }
            } else if r.chance(1, 2) {
                semi.push(' ');
            }
            semi.push(';');
            let mut open = true;
            for _ in 0..r.below(3) {
                if !open {
                    break;
                }
                let (c, is_line) = comment(&mut r, true);
                semi.push(' ');
                semi.push_str(&c);
                if is_line {
                    open = false;
                }
            }
        }
        let with_semi = format!("{}{}{}\n{}\n", a, a_trail, semi, b);
        let without = format!("{}{}\ngg(1)\n", a, a_trail);
        let mut c = cfg();
        c.syntax = LuaVersion::Lua51;
        let crlf = r.chance(1, 3);
        c.line_endings = if crlf { LineEndings::Windows } else { LineEndings::Unix };
        if !parses(&with_semi, c.syntax) || !parses(&without, c.syntax) {
            return sink;
        }
        // the semicolon's own trivia, as the tokenizer splits it: trailing trivia of a token runs to the end of its line
        let in_toks = match crate::lexutil::tokens(&with_semi, c.syntax) {
            Some(t) => t,
            None => return sink,
        };
        let mut sig_seen = 0;
        let mut idx_last_a = 0;
        for (k, t) in in_toks.iter().enumerate() {
            if significant(t) {
                sig_seen += 1;
                if sig_seen == a_sig {
                    idx_last_a = k;
                    break;
                }
            }
        }
        let (mut sl, mut st) = ("-".to_string(), "-".to_string());
        if written {
            let semi_idx = match (idx_last_a + 1..in_toks.len()).find(|&k| is_semicolon(&in_toks[k])) {
                Some(k) => k,
                None => return sink,
            };
            // A's trailing trivia: up to and including the first newline-bearing whitespace after A's last token
            let mut k = idx_last_a + 1;
            while k < semi_idx {
                let is_nl = matches!(in_toks[k].token_type(), TokenType::Whitespace { characters } if characters.contains('\n'));
                let is_line_comment_end = false;
                k += 1;
                if is_nl || is_line_comment_end {
                    break;
                }
            }
            sl = triv_items(&in_toks[k.min(semi_idx)..semi_idx]);
            let mut e = semi_idx + 1;
            while e < in_toks.len() && !significant(&in_toks[e]) {
                let is_nl = matches!(in_toks[e].token_type(), TokenType::Whitespace { characters } if characters.contains('\n'));
                e += 1;
                if is_nl {
                    break;
                }
            }
            st = triv_items(&in_toks[semi_idx + 1..e]);
        }
        // T: A's trailing trivia in the output of the program without the semicolon; `a_text` = A as formatted
        let (t_items, a_text) = match fmt(&without, c, None, false) {
            Outcome::Ok(out) => {
                let toks = match crate::lexutil::tokens(&out, c.syntax) {
                    Some(t) => t,
                    None => return sink,
                };
                let mut seen = 0;
                let mut from = 0;
                let mut a_end = 0;
                for (k, t) in toks.iter().enumerate() {
                    if significant(t) {
                        seen += 1;
                        if seen == a_sig {
                            from = k + 1;
                            a_end = t.end_position().bytes();
                            break;
                        }
                    }
                }
                let to = (from..toks.len()).find(|&k| significant(&toks[k])).unwrap_or(toks.len());
                match out_items(&toks[from..to]) {
                    Some(s) => (s, out[..a_end].to_string()),
                    None => return sink,
                }
            }
            _ => return sink,
        };
        if let Outcome::Ok(out) = fmt(&with_semi, c, None, false) {
            // located by text, not by tokens: a line comment that swallows the semicolon (ring 3's business) must not
            // hide what the formatter emitted
            let eol = if crlf { "\r\n" } else { "\n" };
            let b_text = format!("{}{}", b, eol);
            if out.starts_with(&a_text) && out.ends_with(&b_text) && out.len() >= a_text.len() + b_text.len() {
                let required = can && paren_next;
                sink.q(
                    format!("semi {} {} {} {} {} {}", if crlf { "crlf" } else { "lf" }, required as u8, written as u8, t_items, sl, st),
                    { let s = &out[a_text.len()..out.len() - b_text.len()]; if s.is_empty() { "-".to_string() } else { hex(s.as_bytes()) } },
                );
            } else {
                sink.v("C03", "semi:statement-text-missing", json!({"input": with_semi, "config": cfg_to_string(&c), "output": out}));
            }
        }
        sink
    });
    let mut sink = Sink::default();
    for s in parts {
        sink.merge(s);
    }
    sink.s(json!({"c03_semi": {"generated": n}}));
    sink
}

/// C03 — ring 2 for Model/HangOp.lean: a hung binary operator with comments in front of it, behind it and in
/// front of its right operand; the bytes between the two operands must be the model's rendering.
pub fn run_hang(tier: &str, seed: u64) -> Sink {
    let n = if tier == "thorough" { 30000 } else { 5000 };
    let ops = ["+", "..", "and", "==", "^", "*"];
    let ctexts = ["c", "c  ", "", "é"];
    let btexts = ["b", "b\nb", ""];
    let parts = par_map(n, threads(), |i| {
        let mut sink = Sink::default();
        let mut r = Rng::new(seed.wrapping_mul(9973) ^ (i as u64) ^ 0x4A46);
        let op = ops[r.below(ops.len())];
        let comment = |r: &mut Rng| -> (String, bool) {
            if r.chance(1, 2) {
                (format!("--{}", ctexts[r.below(ctexts.len())]), true)
            } else {
                let lvl = r.below(2);
                let eqs = "=".repeat(lvl);
                (format!("--[{}[{}]{}]", eqs, btexts[r.below(btexts.len())], eqs), false)
            }
        };
        let nested = r.chance(1, 3);
        let pad = if nested { "\t" } else { "" };
        let mut src = String::new();
        if nested {
            src.push_str("do\n");
        }
        src.push_str(pad);
        src.push_str("local total = first_value_name\n");
        // comments in front of the operator: on lines of their own
        let mut count = 0;
        for _ in 0..r.below(3) {
            let (c, is_line) = comment(&mut r);
            src.push_str(pad);
            src.push_str("\t");
            src.push_str(&c);
            src.push_str(if is_line || r.chance(2, 3) { "\n" } else { " " });
            count += 1;
        }
        src.push_str(pad);
        src.push_str("\t");
        src.push_str(op);
        // comments behind the operator, on its line
        let mut open = true;
        for _ in 0..r.below(3) {
            if !open {
                break;
            }
            let (c, is_line) = comment(&mut r);
            src.push(' ');
            src.push_str(&c);
            count += 1;
            if is_line {
                open = false;
            }
        }
        if !open || r.chance(1, 2) {
            src.push('\n');
            // comments in front of the right operand: on lines of their own
            for _ in 0..r.below(3) {
                let (c, is_line) = comment(&mut r);
                src.push_str(pad);
                src.push_str("\t");
                src.push_str(&c);
                src.push_str(if is_line || r.chance(2, 3) { "\n" } else { " " });
                count += 1;
            }
            src.push_str(pad);
            src.push_str("\t");
        } else {
            src.push(' ');
        }
        src.push_str("second_value_name\n");
        if nested {
            src.push_str("end\n");
        }
        if count == 0 {
            return sink;
        }
        let mut c = cfg();
        c.syntax = LuaVersion::Lua51;
        let crlf = r.chance(1, 3);
        c.line_endings = if crlf { LineEndings::Windows } else { LineEndings::Unix };
        let ind = pick_indent(&mut r, &mut c);
        if !parses(&src, c.syntax) {
            return sink;
        }
        let toks = match crate::lexutil::tokens(&src, c.syntax) {
            Some(t) => t,
            None => return sink,
        };
        let is_ident = |t: &Token, name: &str| matches!(t.token_type(), TokenType::Identifier { identifier } if identifier.as_str() == name);
        let li = match toks.iter().position(|t| is_ident(t, "first_value_name")) { Some(k) => k, None => return sink };
        let ri = match toks.iter().position(|t| is_ident(t, "second_value_name")) { Some(k) => k, None => return sink };
        let oi = match (li + 1..ri).find(|&k| significant(&toks[k])) { Some(k) => k, None => return sink };
        // the left operand's trailing trivia ends with the line; the operator's leading trivia is what follows
        let mut k = li + 1;
        while k < oi {
            let is_nl = matches!(toks[k].token_type(), TokenType::Whitespace { characters } if characters.contains('\n'));
            k += 1;
            if is_nl {
                break;
            }
        }
        let op_lead = triv_items(&toks[k.min(oi)..oi]);
        let mut e = oi + 1;
        while e < ri {
            let is_nl = matches!(toks[e].token_type(), TokenType::Whitespace { characters } if characters.contains('\n'));
            e += 1;
            if is_nl {
                break;
            }
        }
        let op_trail = triv_items(&toks[oi + 1..e.min(ri)]);
        let rhs_lead = triv_items(&toks[e.min(ri)..ri]);
        if let Outcome::Ok(out) = fmt(&src, c, None, false) {
            let a = match out.find("first_value_name") { Some(p) => p + "first_value_name".len(), None => return sink };
            let b = match out.rfind("second_value_name") { Some(p) => p, None => return sink };
            if a > b {
                return sink;
            }
            let indent = if nested { ind.repeat(2) } else { ind.clone() };
            // comments on the operator itself force the hanging path (binop_expression_contains_comments); with comments
            // only in front of the right operand the layout may keep the operator where it is - then hang_binop did not run
            let eol = if crlf { "\r\n" } else { "\n" };
            let hung = out[a..b].ends_with(&format!("{}{}{} ", eol, indent, op));
            let on_operator = op_lead.contains('L') || op_lead.contains('B') || op_trail.contains('L') || op_trail.contains('B');
            if !hung && !on_operator {
                return sink;
            }
            sink.q(
                format!("hangop {} {} {} {} {} {}", if crlf { "crlf" } else { "lf" }, hex(indent.as_bytes()), hex(op.as_bytes()), op_lead, op_trail, rhs_lead),
                hex(out[a..b].as_bytes()),
            );
        }
        sink
    });
    let mut sink = Sink::default();
    for s in parts {
        sink.merge(s);
    }
    sink.s(json!({"c03_hangop": {"generated": n}}));
    sink
}

/// C03 — ring 2 for Model/HangOp.lean `FieldKey`: a named field of a multi-line table with comments in front of
/// the key, behind it and around `=`; the bytes in front of the key must be the model's rendering, and ` = ` must
/// be all there is between key and value.
pub fn run_fieldkey(tier: &str, seed: u64) -> Sink {
    let n = if tier == "thorough" { 30000 } else { 5000 };
    let ctexts = ["c", "c  ", "", "é"];
    let btexts = ["b", "b\nb", ""];
    let parts = par_map(n, threads(), |i| {
        let mut sink = Sink::default();
        let mut r = Rng::new(seed.wrapping_mul(4421) ^ (i as u64) ^ 0xF1E1D);
        let comment = |r: &mut Rng, allow_line: bool| -> (String, bool) {
            if allow_line && r.chance(1, 2) {
                (format!("--{}", ctexts[r.below(ctexts.len())]), true)
            } else {
                let lvl = r.below(2);
                let eqs = "=".repeat(lvl);
                (format!("--[{}[{}]{}]", eqs, btexts[r.below(btexts.len())], eqs), false)
            }
        };
        let bracket = r.chance(1, 2);
        let key_text = if bracket { "[\"key_name\"]" } else { "key_name" };
        let mut src = String::from("local tbl = {\n\tfirst_field = 1,\n");
        let mut count = 0;
        // in front of the key: lines of their own (blank lines allowed)
        for _ in 0..r.below(3) {
            if r.chance(1, 4) {
                src.push('\n');
            }
            let (c, is_line) = comment(&mut r, true);
            src.push('\t');
            src.push_str(&c);
            src.push_str(if is_line || r.chance(2, 3) { "\n" } else { " " });
            count += 1;
        }
        src.push('\t');
        src.push_str(key_text);
        // behind the key
        let mut open = true;
        for _ in 0..r.below(3) {
            if !open {
                break;
            }
            let (c, is_line) = comment(&mut r, true);
            src.push(' ');
            src.push_str(&c);
            count += 1;
            if is_line {
                open = false;
            }
        }
        if !open || r.chance(1, 3) {
            src.push('\n');
            for _ in 0..r.below(2) {
                let (c, is_line) = comment(&mut r, true);
                src.push('\t');
                src.push_str(&c);
                src.push_str(if is_line || r.chance(1, 2) { "\n" } else { " " });
                count += 1;
            }
            src.push('\t');
        } else {
            src.push(' ');
        }
        src.push('=');
        let mut open = true;
        for _ in 0..r.below(3) {
            if !open {
                break;
            }
            let (c, is_line) = comment(&mut r, true);
            src.push(' ');
            src.push_str(&c);
            count += 1;
            if is_line {
                open = false;
            }
        }
        src.push_str(if open { " " } else { "\n\t" });
        src.push_str("value_name,\n}\n");
        if count == 0 {
            return sink;
        }
        let mut c = cfg();
        c.syntax = LuaVersion::Lua51;
        let crlf = r.chance(1, 3);
        c.line_endings = if crlf { LineEndings::Windows } else { LineEndings::Unix };
        let ind = pick_indent(&mut r, &mut c);
        if !parses(&src, c.syntax) {
            return sink;
        }
        let toks = match crate::lexutil::tokens(&src, c.syntax) {
            Some(t) => t,
            None => return sink,
        };
        let is_ident = |t: &Token, name: &str| matches!(t.token_type(), TokenType::Identifier { identifier } if identifier.as_str() == name);
        // first and last token of the key: the name itself, or `[` and `]`
        let (ki, kj) = if bracket {
            let si = match toks.iter().position(|t| matches!(t.token_type(), TokenType::StringLiteral { literal, .. } if literal.as_str() == "key_name")) { Some(k) => k, None => return sink };
            (si - 1, si + 1)
        } else {
            match toks.iter().position(|t| is_ident(t, "key_name")) { Some(k) => (k, k), None => return sink }
        };
        let vi = match toks.iter().position(|t| is_ident(t, "value_name")) { Some(k) => k, None => return sink };
        let ei = match (kj + 1..vi).find(|&k| significant(&toks[k])) { Some(k) => k, None => return sink };
        // previous significant token: the comma of the first field; its trailing trivia runs to the end of its line
        let pi = match (0..ki).rev().find(|&k| significant(&toks[k])) { Some(k) => k, None => return sink };
        let line_end = |from: usize, to: usize| -> usize {
            let mut k = from;
            while k < to {
                let is_nl = matches!(toks[k].token_type(), TokenType::Whitespace { characters } if characters.contains('\n'));
                k += 1;
                if is_nl {
                    break;
                }
            }
            k.min(to)
        };
        let kl_from = line_end(pi + 1, ki);
        let key_lead = triv_items(&toks[kl_from..ki]);
        let kt_to = line_end(kj + 1, ei);
        let key_trail = triv_items(&toks[kj + 1..kt_to]);
        let eq_lead = triv_items(&toks[kt_to..ei]);
        let et_to = line_end(ei + 1, vi);
        let eq_trail = triv_items(&toks[ei + 1..et_to]);
        if et_to != vi && toks[et_to..vi].iter().any(|t| !matches!(t.token_type(), TokenType::Whitespace { .. })) {
            return sink; // comments in front of the value belong to the value (not generated)
        }
        if let Outcome::Ok(out) = fmt(&src, c, None, false) {
            let eol = if crlf { "\r\n" } else { "\n" };
            let head = format!("local tbl = {{{}{}first_field = 1,{}", eol, ind, eol);
            let kpos = match out.rfind(key_text) { Some(p) => p, None => return sink };
            if !out.starts_with(&head) || kpos < head.len() {
                sink.v("C03", "fieldkey:first-field-changed", json!({"input": src, "config": cfg_to_string(&c), "output": out}));
                return sink;
            }
            sink.q(
                format!("fieldkey {} {} {} {} {} {} {}", if crlf { "crlf" } else { "lf" }, hex(ind.as_bytes()), if bracket { "bracket" } else { "name" }, key_lead, key_trail, eq_lead, eq_trail),
                { let s = &out[head.len()..kpos]; if s.is_empty() { "-".to_string() } else { hex(s.as_bytes()) } },
            );
            if !out[kpos..].starts_with(&format!("{} = value_name", key_text)) {
                sink.v("C03", "fieldkey:trivia-left-between-key-and-value", json!({"input": src, "config": cfg_to_string(&c), "output": out}));
            }
        }
        sink
    });
    let mut sink = Sink::default();
    for s in parts {
        sink.merge(s);
    }
    sink.s(json!({"c03_fieldkey": {"generated": n}}));
    sink
}

/// C03 / C10 — ring 2 for Model/EndToken.lean: random trivia (blank lines, indentation, comments) in front of the
/// token that closes a block; the bytes between the last statement's line and the token must be the model's rendering.
pub fn run_endtoken(tier: &str, seed: u64) -> Sink {
    let n = if tier == "thorough" { 40000 } else { 6000 };
    let texts = ["c", "c  ", " c\t", "", "-", "é "];
    let btexts = ["c", "c\nd", " c \n\n d ", "", "]"];
    // (`repeat … until` is not here: its `until` goes through fmt_symbol!, not through format_end_token)
    let blocks: [(&str, &str, &str); 5] = [
        ("do\n\tlocal aa = 0\n", "end", ""),
        ("while cond do\n\tlocal aa = 0\n", "end", ""),
        ("for kk in pairs(tt) do\n\tlocal aa = 0\n", "end", ""),
        ("local function ff()\n\tlocal aa = 0\n", "end", ""),
        ("if cond then\n\tlocal aa = 0\n", "end", ""),
    ];
    let parts = par_map(n, threads(), |i| {
        let mut sink = Sink::default();
        let mut r = Rng::new(seed.wrapping_mul(6151) ^ (i as u64) ^ 0xE4D);
        let (head, closer, tail) = blocks[r.below(blocks.len())];
        let mut src = String::from(head);
        let len = r.below(7);
        for _ in 0..len {
            match r.below(6) {
                0 | 1 => src.push('\n'),
                2 => src.push_str(["  ", "\t", " \t "][r.below(3)]),
                3 | 4 => {
                    src.push_str("--");
                    src.push_str(texts[r.below(texts.len())]);
                    src.push('\n');
                }
                _ => {
                    let t = btexts[r.below(btexts.len())];
                    let lvl = r.below(3);
                    if lvl == 0 && t.contains(']') {
                        continue;
                    }
                    let eqs = "=".repeat(lvl);
                    src.push_str(&format!("--[{}[{}]{}]", eqs, t, eqs));
                    src.push_str(if r.chance(1, 2) { "\n" } else { " " });
                }
            }
        }
        src.push_str(closer);
        src.push_str(tail);
        src.push('\n');
        let mut c = cfg();
        c.syntax = LuaVersion::Lua51;
        let crlf = r.chance(1, 3);
        c.line_endings = if crlf { LineEndings::Windows } else { LineEndings::Unix };
        let ind = pick_indent(&mut r, &mut c);
        if !parses(&src, c.syntax) {
            return sink;
        }
        let toks = match crate::lexutil::tokens(&src, c.syntax) {
            Some(t) => t,
            None => return sink,
        };
        // leading trivia of the closing token: everything after the line of `local aa = 0`
        let zi = match toks.iter().position(|t| matches!(t.token_type(), TokenType::Number { .. })) { Some(k) => k, None => return sink };
        let mut k = zi + 1;
        while k < toks.len() {
            let is_nl = matches!(toks[k].token_type(), TokenType::Whitespace { characters } if characters.contains('\n'));
            k += 1;
            if is_nl {
                break;
            }
        }
        let ci = match (k..toks.len()).find(|&j| significant(&toks[j])) { Some(j) => j, None => return sink };
        let items = triv_items(&toks[k..ci]);
        if let Outcome::Ok(out) = fmt(&src, c, None, false) {
            let eol = if crlf { "\r\n" } else { "\n" };
            let stmt = format!("{}local aa = 0{}", ind, eol);
            let a = match out.find(&stmt) { Some(p) => p + stmt.len(), None => return sink };
            let closing = format!("{}{}{}", closer, tail, eol);
            if !out.ends_with(&closing) || out.len() - closing.len() < a {
                sink.v("C03", "endtoken:closing-token-missing", json!({"input": src, "config": cfg_to_string(&c), "output": out}));
                return sink;
            }
            let s = &out[a..out.len() - closing.len()];
            sink.q(
                format!("endtoken {} {} {}", if crlf { "crlf" } else { "lf" }, hex(ind.as_bytes()), items),
                if s.is_empty() { "-".to_string() } else { hex(s.as_bytes()) },
            );
        }
        sink
    });
    let mut sink = Sink::default();
    for s in parts {
        sink.merge(s);
    }
    sink.s(json!({"c03_endtoken": {"generated": n}}));
    sink
}

/// C03 — ring 2 for Model/HangOp.lean `Punct`: a value list laid out one value per line (`return a, b`), with
/// comments behind the first value, around its comma and in front of the second value; the bytes between the two
/// values must be the model's rendering.
pub fn run_punct(tier: &str, seed: u64) -> Sink {
    let n = if tier == "thorough" { 30000 } else { 5000 };
    let ctexts = ["c", "c  ", "", "é"];
    let btexts = ["b", "b\nb", ""];
    let parts = par_map(n, threads(), |i| {
        let mut sink = Sink::default();
        let mut r = Rng::new(seed.wrapping_mul(8111) ^ (i as u64) ^ 0x9C7);
        let comment = |r: &mut Rng| -> (String, bool) {
            if r.chance(1, 2) {
                (format!("--{}", ctexts[r.below(ctexts.len())]), true)
            } else {
                let lvl = r.below(2);
                let eqs = "=".repeat(lvl);
                (format!("--[{}[{}]{}]", eqs, btexts[r.below(btexts.len())], eqs), false)
            }
        };
        let head = if r.chance(1, 2) { "return " } else { "local aa, bb = " };
        let mut src = String::from(head);
        src.push_str("first_value_name");
        let mut count = 0;
        let mut open = true;
        let mut same_line = |src: &mut String, r: &mut Rng, open: &mut bool, count: &mut usize| {
            for _ in 0..r.below(3) {
                if !*open {
                    break;
                }
                let (c, is_line) = comment(r);
                src.push(' ');
                src.push_str(&c);
                *count += 1;
                if is_line {
                    *open = false;
                }
            }
        };
        let own_lines = |src: &mut String, r: &mut Rng, count: &mut usize| {
            for _ in 0..r.below(3) {
                let (c, is_line) = comment(r);
                src.push('\t');
                src.push_str(&c);
                src.push_str(if is_line || r.chance(2, 3) { "\n" } else { " " });
                *count += 1;
            }
        };
        same_line(&mut src, &mut r, &mut open, &mut count);
        if !open || r.chance(1, 3) {
            src.push('\n');
            own_lines(&mut src, &mut r, &mut count);
            src.push('\t');
        }
        src.push(',');
        let mut open = true;
        same_line(&mut src, &mut r, &mut open, &mut count);
        if !open || r.chance(1, 2) {
            src.push('\n');
            own_lines(&mut src, &mut r, &mut count);
            src.push('\t');
        } else {
            src.push(' ');
        }
        src.push_str("second_value_name\n");
        if count == 0 {
            return sink;
        }
        let mut c = cfg();
        c.syntax = LuaVersion::Lua51;
        let crlf = r.chance(1, 3);
        c.line_endings = if crlf { LineEndings::Windows } else { LineEndings::Unix };
        let ind = pick_indent(&mut r, &mut c);
        if !parses(&src, c.syntax) {
            return sink;
        }
        let toks = match crate::lexutil::tokens(&src, c.syntax) {
            Some(t) => t,
            None => return sink,
        };
        let is_ident = |t: &Token, name: &str| matches!(t.token_type(), TokenType::Identifier { identifier } if identifier.as_str() == name);
        let li = match toks.iter().position(|t| is_ident(t, "first_value_name")) { Some(k) => k, None => return sink };
        let ri = match toks.iter().position(|t| is_ident(t, "second_value_name")) { Some(k) => k, None => return sink };
        let pi = match (li + 1..ri).find(|&k| significant(&toks[k])) { Some(k) => k, None => return sink };
        let line_end = |from: usize, to: usize| -> usize {
            let mut k = from;
            while k < to {
                let is_nl = matches!(toks[k].token_type(), TokenType::Whitespace { characters } if characters.contains('\n'));
                k += 1;
                if is_nl {
                    break;
                }
            }
            k.min(to)
        };
        let vt_to = line_end(li + 1, pi);
        let v_trail = triv_items(&toks[li + 1..vt_to]);
        let p_lead = triv_items(&toks[vt_to..pi]);
        let pt_to = line_end(pi + 1, ri);
        let p_trail = triv_items(&toks[pi + 1..pt_to]);
        let n_lead = triv_items(&toks[pt_to..ri]);
        if let Outcome::Ok(out) = fmt(&src, c, None, false) {
            let a = match out.find("first_value_name") { Some(p) => p + "first_value_name".len(), None => return sink };
            let b = match out.rfind("second_value_name") { Some(p) => p, None => return sink };
            if a > b {
                return sink;
            }
            sink.q(
                // the comma takes the shape of the first value: the block's for `return`, the hanging one for an assignment
                format!("punct {} {} {} {} {} {} {}", if crlf { "crlf" } else { "lf" }, if head == "return " { "-".to_string() } else { hex(ind.as_bytes()) }, hex(ind.as_bytes()), v_trail, p_lead, p_trail, n_lead),
                hex(out[a..b].as_bytes()),
            );
        }
        sink
    });
    let mut sink = Sink::default();
    for s in parts {
        sink.merge(s);
    }
    sink.s(json!({"c03_punct": {"generated": n}}));
    sink
}

/// C03 — ring 2 for Model/HangOp.lean `Sugar`: a call with a single string argument whose parentheses are dropped
/// (call_parentheses = None) or added (Always), with comments in every gap of the argument list; the bytes after the
/// callee must be the model's rendering.
pub fn run_sugar(tier: &str, seed: u64) -> Sink {
    let n = if tier == "thorough" { 30000 } else { 5000 };
    let ctexts = ["c", "c  ", "", "é"];
    let btexts = ["b", "b\nb", ""];
    let parts = par_map(n, threads(), |i| {
        let mut sink = Sink::default();
        let mut r = Rng::new(seed.wrapping_mul(5237) ^ (i as u64) ^ 0x5A6);
        let comment = |r: &mut Rng| -> (String, bool) {
            if r.chance(1, 3) {
                (format!("--{}", ctexts[r.below(ctexts.len())]), true)
            } else {
                let lvl = r.below(2);
                let eqs = "=".repeat(lvl);
                (format!("--[{}[{}]{}]", eqs, btexts[r.below(btexts.len())], eqs), false)
            }
        };
        // comments on the current line (returns whether the line is still open), then optionally lines of their own
        let gap = |src: &mut String, r: &mut Rng, count: &mut usize, may_break: bool| {
            let mut open = true;
            for _ in 0..r.below(3) {
                if !open {
                    break;
                }
                let (c, is_line) = comment(r);
                src.push(' ');
                src.push_str(&c);
                *count += 1;
                if is_line {
                    open = false;
                }
            }
            if !open || (may_break && r.chance(1, 4)) {
                src.push('\n');
                for _ in 0..r.below(2) {
                    let (c, is_line) = comment(r);
                    src.push('\t');
                    src.push_str(&c);
                    src.push_str(if is_line || r.chance(1, 2) { "\n" } else { " " });
                    *count += 1;
                }
                src.push('\t');
            } else {
                src.push(' ');
            }
        };
        let drop = r.chance(1, 2);
        // the single argument: a string or an empty table (two tokens: the trivia of interest sits in front of `{` and behind `}`)
        let table_arg = r.chance(1, 3);
        let arg_text = if table_arg { "{}" } else { "\"x\"" };
        let mut src = String::from("callee_name");
        let mut count = 0;
        if drop {
            src.push('(');
            gap(&mut src, &mut r, &mut count, true);
            src.push_str(arg_text);
            gap(&mut src, &mut r, &mut count, true);
            src.push(')');
        } else {
            gap(&mut src, &mut r, &mut count, false);
            src.push_str(arg_text);
        }
        // behind the call, on its line
        let mut open = true;
        for _ in 0..r.below(3) {
            if !open {
                break;
            }
            let (c, is_line) = comment(&mut r);
            src.push(' ');
            src.push_str(&c);
            count += 1;
            if is_line {
                open = false;
            }
        }
        src.push('\n');
        if count == 0 {
            return sink;
        }
        let mut c = cfg();
        c.syntax = LuaVersion::Lua51;
        c.call_parentheses = if drop { stylua_lib::CallParenType::None } else { stylua_lib::CallParenType::Always };
        let crlf = r.chance(1, 3);
        c.line_endings = if crlf { LineEndings::Windows } else { LineEndings::Unix };
        if !parses(&src, c.syntax) {
            return sink;
        }
        let toks = match crate::lexutil::tokens(&src, c.syntax) {
            Some(t) => t,
            None => return sink,
        };
        let sig: Vec<usize> = (0..toks.len()).filter(|&k| significant(&toks[k])).collect();
        let line_end = |from: usize, to: usize| -> usize {
            let mut k = from;
            while k < to {
                let is_nl = matches!(toks[k].token_type(), TokenType::Whitespace { characters } if characters.contains('\n'));
                k += 1;
                if is_nl {
                    break;
                }
            }
            k.min(to)
        };
        // trivia between consecutive significant tokens a < b: (trailing of a, leading of b)
        let split = |a: usize, b: usize| -> (String, String) {
            let m = line_end(a + 1, b);
            (triv_items(&toks[a + 1..m]), triv_items(&toks[m..b]))
        };
        let eof = toks.len();
        let req = if drop {
            if sig.len() != if table_arg { 5 } else { 4 } {
                return sink;
            }
            let last_arg = if table_arg { sig[3] } else { sig[2] };
            let close = if table_arg { sig[4] } else { sig[3] };
            let (callee_trail, open_lead) = split(sig[0], sig[1]);
            if callee_trail != "-" && callee_trail.contains(|ch| ch == 'L' || ch == 'B') {
                return sink;
            }
            let (open_trail, arg_lead) = split(sig[1], sig[2]);
            let (arg_trail, close_lead) = split(last_arg, close);
            let close_trail = triv_items(&toks[close + 1..line_end(close + 1, eof)]);
            format!("sugar drop {} {} {} {} {} {} {} {}", if crlf { "crlf" } else { "lf" }, hex(arg_text.as_bytes()), open_lead, open_trail, arg_lead, arg_trail, close_lead, close_trail)
        } else {
            if sig.len() != if table_arg { 3 } else { 2 } {
                return sink;
            }
            let last_arg = if table_arg { sig[2] } else { sig[1] };
            let (callee_trail, arg_lead) = split(sig[0], sig[1]);
            if callee_trail.contains(|ch| ch == 'L' || ch == 'B') {
                // a comment behind the callee is the callee's (not modelled here)
                return sink;
            }
            let arg_trail = triv_items(&toks[last_arg + 1..line_end(last_arg + 1, eof)]);
            format!("sugar add {} {} {} {}", if crlf { "crlf" } else { "lf" }, hex(arg_text.as_bytes()), arg_lead, arg_trail)
        };
        if let Outcome::Ok(out) = fmt(&src, c, None, false) {
            let eol = if crlf { "\r\n" } else { "\n" };
            if !out.starts_with("callee_name") || !out.ends_with(eol) {
                return sink;
            }
            let s = &out["callee_name".len()..out.len() - eol.len()];
            sink.q(req, if s.is_empty() { "-".to_string() } else { hex(s.as_bytes()) });
        }
        sink
    });
    let mut sink = Sink::default();
    for s in parts {
        sink.merge(s);
    }
    sink.s(json!({"c03_sugar": {"generated": n}}));
    sink
}

/// C03 — ring 2 for Model/HangOp.lean `TableField`: the last token of a field's value in a multi-line table, with
/// comments behind the value and around the separator (or no separator: last field); the bytes up to the next line
/// must be the model's rendering.
pub fn run_tablefield(tier: &str, seed: u64) -> Sink {
    let n = if tier == "thorough" { 30000 } else { 5000 };
    let ctexts = ["c", "c  ", "", "é"];
    let btexts = ["b", "b\nb", ""];
    let parts = par_map(n, threads(), |i| {
        let mut sink = Sink::default();
        let mut r = Rng::new(seed.wrapping_mul(3571) ^ (i as u64) ^ 0x7AB);
        let comment = |r: &mut Rng| -> (String, bool) {
            if r.chance(1, 2) {
                (format!("--{}", ctexts[r.below(ctexts.len())]), true)
            } else {
                let lvl = r.below(2);
                let eqs = "=".repeat(lvl);
                (format!("--[{}[{}]{}]", eqs, btexts[r.below(btexts.len())], eqs), false)
            }
        };
        let same_line = |src: &mut String, r: &mut Rng, count: &mut usize| -> bool {
            let mut open = true;
            for _ in 0..r.below(3) {
                if !open {
                    break;
                }
                let (c, is_line) = comment(r);
                src.push(' ');
                src.push_str(&c);
                *count += 1;
                if is_line {
                    open = false;
                }
            }
            open
        };
        let has_sep = r.chance(3, 4);
        let positional = r.chance(1, 3);
        let mut src = String::from("local tbl = {\n\t");
        src.push_str(if positional { "value_name" } else { "first_field = value_name" });
        let mut count = 0;
        let open = same_line(&mut src, &mut r, &mut count);
        if has_sep {
            if !open || r.chance(1, 4) {
                src.push('\n');
                for _ in 0..r.below(2) {
                    let (c, is_line) = comment(&mut r);
                    src.push('\t');
                    src.push_str(&c);
                    src.push_str(if is_line || r.chance(1, 2) { "\n" } else { " " });
                    count += 1;
                }
                src.push('\t');
            }
            src.push(',');
            same_line(&mut src, &mut r, &mut count);
            src.push_str("\n\tsecond_field = 2,\n}\n");
        } else {
            src.push_str("\n}\n");
        }
        if count == 0 {
            return sink;
        }
        let mut c = cfg();
        c.syntax = LuaVersion::Lua51;
        let crlf = r.chance(1, 3);
        c.line_endings = if crlf { LineEndings::Windows } else { LineEndings::Unix };
        let ind = pick_indent(&mut r, &mut c);
        if !parses(&src, c.syntax) {
            return sink;
        }
        let toks = match crate::lexutil::tokens(&src, c.syntax) {
            Some(t) => t,
            None => return sink,
        };
        let is_ident = |t: &Token, name: &str| matches!(t.token_type(), TokenType::Identifier { identifier } if identifier.as_str() == name);
        let vi = match toks.iter().position(|t| is_ident(t, "value_name")) { Some(k) => k, None => return sink };
        let ni = match (vi + 1..toks.len()).find(|&k| significant(&toks[k])) { Some(k) => k, None => return sink };
        let line_end = |from: usize, to: usize| -> usize {
            let mut k = from;
            while k < to {
                let is_nl = matches!(toks[k].token_type(), TokenType::Whitespace { characters } if characters.contains('\n'));
                k += 1;
                if is_nl {
                    break;
                }
            }
            k.min(to)
        };
        let vt_to = line_end(vi + 1, ni);
        let v_trail = triv_items(&toks[vi + 1..vt_to]);
        let (p_lead, p_trail) = if has_sep {
            let after = (ni + 1..toks.len()).find(|&k| significant(&toks[k])).unwrap_or(toks.len());
            (triv_items(&toks[vt_to..ni]), triv_items(&toks[ni + 1..line_end(ni + 1, after)]))
        } else {
            // comments between the value's line and `}` belong to the closing brace (format_end_token)
            if toks[vt_to..ni].iter().any(|t| !matches!(t.token_type(), TokenType::Whitespace { .. })) {
                return sink;
            }
            ("-".to_string(), "-".to_string())
        };
        if let Outcome::Ok(out) = fmt(&src, c, None, false) {
            let eol = if crlf { "\r\n" } else { "\n" };
            let a = match out.find("value_name") { Some(p) => p + "value_name".len(), None => return sink };
            let next_s = if has_sep { format!("{}second_field = 2,", ind) } else { "}".to_string() };
            let next = next_s.as_str();
            let b = match out.rfind(&format!("{}{}", next, eol)) { Some(p) => p, None => return sink };
            if a > b {
                return sink;
            }
            sink.q(
                format!("tablefield {} {} {} {} {} {}", if crlf { "crlf" } else { "lf" }, hex(ind.as_bytes()), v_trail, has_sep as u8, p_lead, p_trail),
                { let s = &out[a..b]; if s.is_empty() { "-".to_string() } else { hex(s.as_bytes()) } },
            );
        }
        sink
    });
    let mut sink = Sink::default();
    for s in parts {
        sink.merge(s);
    }
    sink.s(json!({"c03_tablefield": {"generated": n}}));
    sink
}

/// C03 — ring 2 for Model/HangOp.lean `CallArg`: an argument of a multi-line argument list, with comments behind the
/// argument and around its comma (or no comma: last argument); the bytes up to the next line must be the model's rendering.
pub fn run_callarg(tier: &str, seed: u64) -> Sink {
    let n = if tier == "thorough" { 30000 } else { 5000 };
    let ctexts = ["c", "c  ", "", "é"];
    let btexts = ["b", "b\nb", ""];
    let parts = par_map(n, threads(), |i| {
        let mut sink = Sink::default();
        let mut r = Rng::new(seed.wrapping_mul(2749) ^ (i as u64) ^ 0xCA1);
        let comment = |r: &mut Rng| -> (String, bool) {
            if r.chance(1, 2) {
                (format!("--{}", ctexts[r.below(ctexts.len())]), true)
            } else {
                let lvl = r.below(2);
                let eqs = "=".repeat(lvl);
                (format!("--[{}[{}]{}]", eqs, btexts[r.below(btexts.len())], eqs), false)
            }
        };
        let same_line = |src: &mut String, r: &mut Rng, count: &mut usize| -> bool {
            let mut open = true;
            for _ in 0..r.below(3) {
                if !open {
                    break;
                }
                let (c, is_line) = comment(r);
                src.push(' ');
                src.push_str(&c);
                *count += 1;
                if is_line {
                    open = false;
                }
            }
            open
        };
        let has_sep = r.chance(3, 4);
                let mut src = String::from("callee_name(\n\tvalue_name");
        let mut count = 0;
        let open = same_line(&mut src, &mut r, &mut count);
        if has_sep {
            if !open || r.chance(1, 4) {
                src.push('\n');
                for _ in 0..r.below(2) {
                    let (c, is_line) = comment(&mut r);
                    src.push('\t');
                    src.push_str(&c);
                    src.push_str(if is_line || r.chance(1, 2) { "\n" } else { " " });
                    count += 1;
                }
                src.push('\t');
            }
            src.push(',');
            same_line(&mut src, &mut r, &mut count);
            src.push_str("\n\tsecond_argument\n)\n");
        } else {
            src.push_str("\n)\n");
        }
        if count == 0 {
            return sink;
        }
        let mut c = cfg();
        c.syntax = LuaVersion::Lua51;
        let crlf = r.chance(1, 3);
        c.line_endings = if crlf { LineEndings::Windows } else { LineEndings::Unix };
        let ind = pick_indent(&mut r, &mut c);
        if !parses(&src, c.syntax) {
            return sink;
        }
        let toks = match crate::lexutil::tokens(&src, c.syntax) {
            Some(t) => t,
            None => return sink,
        };
        let is_ident = |t: &Token, name: &str| matches!(t.token_type(), TokenType::Identifier { identifier } if identifier.as_str() == name);
        let vi = match toks.iter().position(|t| is_ident(t, "value_name")) { Some(k) => k, None => return sink };
        let ni = match (vi + 1..toks.len()).find(|&k| significant(&toks[k])) { Some(k) => k, None => return sink };
        let line_end = |from: usize, to: usize| -> usize {
            let mut k = from;
            while k < to {
                let is_nl = matches!(toks[k].token_type(), TokenType::Whitespace { characters } if characters.contains('\n'));
                k += 1;
                if is_nl {
                    break;
                }
            }
            k.min(to)
        };
        let vt_to = line_end(vi + 1, ni);
        let v_trail = triv_items(&toks[vi + 1..vt_to]);
        let (p_lead, p_trail) = if has_sep {
            let after = (ni + 1..toks.len()).find(|&k| significant(&toks[k])).unwrap_or(toks.len());
            (triv_items(&toks[vt_to..ni]), triv_items(&toks[ni + 1..line_end(ni + 1, after)]))
        } else {
            // comments between the argument's line and `)` belong to the closing parenthesis
            if toks[vt_to..ni].iter().any(|t| !matches!(t.token_type(), TokenType::Whitespace { .. })) {
                return sink;
            }
            ("-".to_string(), "-".to_string())
        };
        if let Outcome::Ok(out) = fmt(&src, c, None, false) {
            let eol = if crlf { "\r\n" } else { "\n" };
            // a lone argument followed only by block comments stays on one line: the multi-line formatter did not run
            if !out.starts_with(&format!("callee_name({}", eol)) {
                return sink;
            }
            let a = match out.find("value_name") { Some(p) => p + "value_name".len(), None => return sink };
            let next_s = if has_sep { format!("{}second_argument", ind) } else { ")".to_string() };
            let next = next_s.as_str();
            let b = match out.rfind(&format!("{}{}", next, eol)) { Some(p) => p, None => return sink };
            if a > b {
                return sink;
            }
            sink.q(
                format!("callarg {} {} {} {} {} {}", if crlf { "crlf" } else { "lf" }, hex(ind.as_bytes()), v_trail, has_sep as u8, p_lead, p_trail),
                { let s = &out[a..b]; if s.is_empty() { "-".to_string() } else { hex(s.as_bytes()) } },
            );
        }
        sink
    });
    let mut sink = Sink::default();
    for s in parts {
        sink.merge(s);
    }
    sink.s(json!({"c03_callarg": {"generated": n}}));
    sink
}
