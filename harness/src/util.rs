//! Shared helpers: hex, PRNG, config construction, panic-safe formatting, parallel map.
use std::sync::atomic::{AtomicUsize, Ordering};
use std::sync::Mutex;
use stylua_lib::{
    CallParenType, CollapseSimpleStatement, Config, IndentType, LineEndings, LuaVersion,
    OutputVerification, QuoteStyle, Range, SortRequiresConfig, SpaceAfterFunctionNames,
};

pub fn hex(s: &[u8]) -> String {
    if s.is_empty() {
        return "-".to_string();
    }
    let mut o = String::with_capacity(s.len() * 2);
    for b in s {
        o.push_str(&format!("{:02x}", b));
    }
    o
}

pub fn unhex(s: &str) -> Vec<u8> {
    if s == "-" {
        return vec![];
    }
    (0..s.len() / 2)
        .map(|i| u8::from_str_radix(&s[2 * i..2 * i + 2], 16).unwrap())
        .collect()
}

#[derive(Clone)]
pub struct Rng(pub u64);
impl Rng {
    pub fn new(seed: u64) -> Self {
        Rng(seed.wrapping_mul(0x9E3779B97F4A7C15) ^ 0xD1B54A32D192ED03)
    }
    pub fn next(&mut self) -> u64 {
        self.0 = self.0.wrapping_add(0x9E3779B97F4A7C15);
        let mut z = self.0;
        z = (z ^ (z >> 30)).wrapping_mul(0xBF58476D1CE4E5B9);
        z = (z ^ (z >> 27)).wrapping_mul(0x94D049BB133111EB);
        z ^ (z >> 31)
    }
    pub fn below(&mut self, n: usize) -> usize {
        if n == 0 {
            0
        } else {
            (self.next() % n as u64) as usize
        }
    }
    pub fn chance(&mut self, num: usize, den: usize) -> bool {
        self.below(den) < num
    }
    pub fn pick<'a, T>(&mut self, v: &'a [T]) -> &'a T {
        &v[self.below(v.len())]
    }
    pub fn fork(&mut self) -> Rng {
        Rng::new(self.next())
    }
}

pub const QUOTE_STYLES: [QuoteStyle; 4] = [
    QuoteStyle::AutoPreferDouble,
    QuoteStyle::AutoPreferSingle,
    QuoteStyle::ForceDouble,
    QuoteStyle::ForceSingle,
];
pub const CALL_PARENS: [CallParenType; 5] = [
    CallParenType::Always,
    CallParenType::NoSingleString,
    CallParenType::NoSingleTable,
    CallParenType::None,
    CallParenType::Input,
];
pub const SPACE_MODES: [SpaceAfterFunctionNames; 4] = [
    SpaceAfterFunctionNames::Never,
    SpaceAfterFunctionNames::Definitions,
    SpaceAfterFunctionNames::Calls,
    SpaceAfterFunctionNames::Always,
];
pub const COLLAPSE: [CollapseSimpleStatement; 4] = [
    CollapseSimpleStatement::Never,
    CollapseSimpleStatement::FunctionOnly,
    CollapseSimpleStatement::ConditionalOnly,
    CollapseSimpleStatement::Always,
];
pub const SYNTAXES: [LuaVersion; 7] = [
    LuaVersion::All,
    LuaVersion::Lua51,
    LuaVersion::Lua52,
    LuaVersion::Lua53,
    LuaVersion::Lua54,
    LuaVersion::Luau,
    LuaVersion::LuaJIT,
];
pub const WIDTHS: [usize; 7] = [1, 10, 20, 40, 80, 120, usize::MAX];

pub fn cfg() -> Config {
    Config::default()
}

/// Compact, replayable textual form of a configuration.
pub fn cfg_to_string(c: &Config) -> String {
    format!(
        "syntax={:?} width={} eol={:?} indent={:?}/{} quote={:?} call={:?} collapse={:?} sort={} space={:?}",
        c.syntax,
        c.column_width,
        c.line_endings,
        c.indent_type,
        c.indent_width,
        c.quote_style,
        c.call_parentheses,
        c.collapse_simple_statement,
        c.sort_requires.enabled,
        c.space_after_function_names
    )
}

pub fn cfg_from_string(s: &str) -> Config {
    let mut c = Config::default();
    for kv in s.split_whitespace() {
        let (k, v) = match kv.split_once('=') {
            Some(x) => x,
            None => continue,
        };
        match k {
            "syntax" => c.syntax = v.parse().expect("syntax"),
            "width" => c.column_width = v.parse().expect("width"),
            "eol" => c.line_endings = v.parse().expect("eol"),
            "indent" => {
                let (t, w) = v.split_once('/').expect("indent");
                c.indent_type = t.parse().expect("indent type");
                c.indent_width = w.parse().expect("indent width");
            }
            "quote" => c.quote_style = v.parse().expect("quote"),
            "call" => c.call_parentheses = v.parse().expect("call"),
            "collapse" => c.collapse_simple_statement = v.parse().expect("collapse"),
            "sort" => {
                c.sort_requires = SortRequiresConfig {
                    enabled: v == "true",
                }
            }
            "space" => c.space_after_function_names = v.parse().expect("space"),
            _ => {}
        }
    }
    c
}

pub fn random_cfg(r: &mut Rng) -> Config {
    let mut c = Config::default();
    c.column_width = *r.pick(&WIDTHS);
    c.line_endings = if r.chance(1, 3) {
        LineEndings::Windows
    } else {
        LineEndings::Unix
    };
    c.indent_type = if r.chance(1, 2) {
        IndentType::Spaces
    } else {
        IndentType::Tabs
    };
    c.indent_width = *r.pick(&[1usize, 2, 3, 4, 8, 16]);
    c.quote_style = *r.pick(&QUOTE_STYLES);
    c.call_parentheses = *r.pick(&CALL_PARENS);
    c.collapse_simple_statement = *r.pick(&COLLAPSE);
    c.space_after_function_names = *r.pick(&SPACE_MODES);
    c
}

thread_local! {
    pub static IN_FMT: std::cell::Cell<bool> = std::cell::Cell::new(false);
    /// location of the last panic caught inside the code under test (set by the panic hook)
    pub static LAST_PANIC_AT: std::cell::RefCell<String> = std::cell::RefCell::new(String::new());
}

pub enum Outcome {
    Ok(String),
    ParseError,
    OtherError(String),
    Panic(String),
}

/// Runs `format_code` catching panics. Runs on the caller's thread (callers use big-stack threads).
pub fn fmt(code: &str, c: Config, range: Option<Range>, verify: bool) -> Outcome {
    let v = if verify {
        OutputVerification::Full
    } else {
        OutputVerification::None
    };
    IN_FMT.with(|f| f.set(true));
    let res = std::panic::catch_unwind(std::panic::AssertUnwindSafe(|| {
        stylua_lib::format_code(code, c, range, v)
    }));
    IN_FMT.with(|f| f.set(false));
    match res {
        Ok(Ok(s)) => Outcome::Ok(s),
        Ok(Err(stylua_lib::Error::ParseError(_))) => Outcome::ParseError,
        Ok(Err(e)) => Outcome::OtherError(format!("{}", e)),
        Err(p) => {
            let msg = if let Some(s) = p.downcast_ref::<String>() {
                s.clone()
            } else if let Some(s) = p.downcast_ref::<&str>() {
                s.to_string()
            } else {
                "panic".to_string()
            };
            let at = LAST_PANIC_AT.with(|l| l.borrow().clone());
            Outcome::Panic(format!("{} @ {}", msg, at))
        }
    }
}

pub fn fm_version(v: LuaVersion) -> full_moon::LuaVersion {
    v.into()
}

/// full_moon parse, panic-safe (full_moon itself can panic, e.g. `a << b` under Luau)
pub fn parse(code: &str, v: LuaVersion) -> Option<full_moon::ast::Ast> {
    IN_FMT.with(|f| f.set(true));
    let r = std::panic::catch_unwind(|| full_moon::parse_fallible(code, fm_version(v)).into_result());
    IN_FMT.with(|f| f.set(false));
    match r {
        Ok(Ok(a)) => Some(a),
        _ => None,
    }
}

pub fn parses(code: &str, v: LuaVersion) -> bool {
    parse(code, v).is_some()
}

/// Parallel map over `0..n` on big-stack threads; results returned in index order.
pub fn par_map<T: Send, F: Fn(usize) -> T + Sync>(n: usize, threads: usize, f: F) -> Vec<T> {
    let next = AtomicUsize::new(0);
    let out: Mutex<Vec<(usize, T)>> = Mutex::new(Vec::with_capacity(n));
    std::thread::scope(|s| {
        for _ in 0..threads.max(1) {
            std::thread::Builder::new()
                .stack_size(256 << 20)
                .spawn_scoped(s, || {
                    let mut local = Vec::new();
                    loop {
                        let i = next.fetch_add(1, Ordering::Relaxed);
                        if i >= n {
                            break;
                        }
                        local.push((i, f(i)));
                        if local.len() >= 256 {
                            out.lock().unwrap().append(&mut local);
                        }
                    }
                    out.lock().unwrap().append(&mut local);
                })
                .unwrap();
        }
    });
    let mut v = out.into_inner().unwrap();
    v.sort_by_key(|x| x.0);
    v.into_iter().map(|x| x.1).collect()
}

pub fn threads() -> usize {
    std::env::var("VERIF_THREADS")
        .ok()
        .and_then(|s| s.parse().ok())
        .unwrap_or_else(|| std::thread::available_parallelism().map(|n| n.get()).unwrap_or(8))
}

pub fn json_str(s: &str) -> String {
    serde_json::to_string(s).unwrap()
}

/// Output sink: ring-2 requests (`Q`), ring-3 violations (`V`), stats (`S`).
#[derive(Default)]
pub struct Sink {
    pub lines: Vec<String>,
}
impl Sink {
    pub fn q(&mut self, req: String, expected: String) {
        self.lines.push(format!("Q\t{}\t{}", req, expected));
    }
    /// ring-3 violation: `sig` is the finding signature used to match known findings
    pub fn v(&mut self, prop: &str, sig: &str, detail: serde_json::Value) {
        self.lines.push(format!("V\t{}\t{}\t{}", prop, sig, detail));
    }
    pub fn s(&mut self, v: serde_json::Value) {
        self.lines.push(format!("S\t{}", v));
    }
    pub fn merge(&mut self, mut o: Sink) {
        self.lines.append(&mut o.lines);
    }
    pub fn flush(self) {
        use std::io::Write;
        let so = std::io::stdout();
        let mut w = std::io::BufWriter::new(so.lock());
        for l in self.lines {
            let _ = writeln!(w, "{}", l);
        }
    }
}
