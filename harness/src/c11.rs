//! C11 oracle: every string token / call site / function header of the output satisfies the
//! rule of its option value. Applied to re-parsed output (and, for `Input`, compared with the
//! re-parsed input). Independent of StyLua: walks full_moon ASTs with a Visitor.
use full_moon::ast::{self, Call, Expression, FunctionArgs, Suffix};
use full_moon::node::Node;
use full_moon::tokenizer::{StringLiteralQuoteType, Token, TokenType};
use full_moon::visitors::Visitor;
use stylua_lib::{CallParenType, Config, QuoteStyle, SpaceAfterFunctionNames};

#[derive(Debug, Clone, PartialEq, Eq)]
pub struct CallSite {
    pub form: char,      // P parentheses | S string sugar | T table sugar
    pub single: char,    // for P: s (single direct string arg) | t (single direct table arg) | - otherwise
    pub obscure: bool,   // an index or a method call follows
    pub paren_pos: usize, // byte offset of `(` (P) or of the argument (S/T)
    pub has_comment: bool, // comments between the parentheses
}

#[derive(Default)]
struct Calls {
    sites: Vec<CallSite>,
    def_parens: Vec<usize>,
}

fn classify(args: &FunctionArgs, obscure: bool) -> CallSite {
    match args {
        FunctionArgs::Parentheses { parentheses, arguments } => {
            let single = if arguments.len() == 1 {
                match arguments.iter().next().unwrap() {
                    Expression::String(_) => 's',
                    Expression::TableConstructor(_) => 't',
                    _ => '-',
                }
            } else {
                '-'
            };
            let (open, close) = parentheses.tokens();
            let has_comment = open.trailing_trivia().any(is_comment)
                || close.leading_trivia().any(is_comment)
                || arguments.iter().any(|a| a.tokens().any(|t| t.leading_trivia().any(is_comment) || t.trailing_trivia().any(is_comment)));
            CallSite { form: 'P', single, obscure, paren_pos: open.token().start_position().bytes(), has_comment }
        }
        FunctionArgs::String(t) => CallSite { form: 'S', single: 's', obscure, paren_pos: t.token().start_position().bytes(), has_comment: false },
        FunctionArgs::TableConstructor(t) => CallSite {
            form: 'T',
            single: 't',
            obscure,
            paren_pos: t.braces().tokens().0.token().start_position().bytes(),
            has_comment: false,
        },
        _ => CallSite { form: '?', single: '-', obscure, paren_pos: 0, has_comment: false },
    }
}

fn is_comment(t: &Token) -> bool {
    matches!(t.token_type(), TokenType::SingleLineComment { .. } | TokenType::MultiLineComment { .. })
}

fn walk_suffixes<'a>(sites: &mut Vec<CallSite>, suffixes: impl Iterator<Item = &'a Suffix>) {
    let v: Vec<&Suffix> = suffixes.collect();
    for (i, s) in v.iter().enumerate() {
        let obscure = matches!(v.get(i + 1), Some(Suffix::Index(_)) | Some(Suffix::Call(Call::MethodCall(_))));
        match s {
            Suffix::Call(Call::AnonymousCall(args)) => sites.push(classify(args, obscure)),
            Suffix::Call(Call::MethodCall(m)) => sites.push(classify(m.args(), obscure)),
            _ => {}
        }
    }
}

impl Visitor for Calls {
    fn visit_function_call(&mut self, fc: &ast::FunctionCall) {
        walk_suffixes(&mut self.sites, fc.suffixes());
    }
    fn visit_var_expression(&mut self, ve: &ast::VarExpression) {
        walk_suffixes(&mut self.sites, ve.suffixes());
    }
    fn visit_function_body(&mut self, fb: &ast::FunctionBody) {
        self.def_parens.push(fb.parameters_parentheses().tokens().0.token().start_position().bytes());
    }
}

pub fn call_sites(ast: &ast::Ast) -> (Vec<CallSite>, Vec<usize>) {
    let mut c = Calls::default();
    c.visit_ast(ast);
    (c.sites, c.def_parens)
}

/// returns descriptions of rule breaches
pub fn check(input: &ast::Ast, output: &ast::Ast, out_text: &str, out_tokens: &[Token], c: &Config) -> Vec<String> {
    let mut bad = Vec::new();
    // ---- quotes
    for t in out_tokens {
        if let TokenType::StringLiteral { literal, quote_type, .. } = t.token_type() {
            let singles = literal.matches('\'').count();
            let doubles = literal.matches('"').count();
            let ok = match (c.quote_style, quote_type) {
                (_, StringLiteralQuoteType::Brackets) => true,
                (QuoteStyle::ForceDouble, q) => *q == StringLiteralQuoteType::Double,
                (QuoteStyle::ForceSingle, q) => *q == StringLiteralQuoteType::Single,
                (QuoteStyle::AutoPreferDouble, StringLiteralQuoteType::Double) => !(singles < doubles),
                (QuoteStyle::AutoPreferDouble, StringLiteralQuoteType::Single) => singles < doubles,
                (QuoteStyle::AutoPreferSingle, StringLiteralQuoteType::Single) => !(doubles < singles),
                (QuoteStyle::AutoPreferSingle, StringLiteralQuoteType::Double) => doubles < singles,
                _ => true,
            };
            if !ok {
                bad.push(format!("quote:{:?}:{}", c.quote_style, literal.chars().take(20).collect::<String>()));
            }
            // exactly the chosen delimiter is escaped: no bare delimiter is possible (it lexed), and
            // the other quote must not be escaped
            let other = match quote_type {
                StringLiteralQuoteType::Double => Some("\\'"),
                StringLiteralQuoteType::Single => Some("\\\""),
                _ => None,
            };
            if let Some(o) = other {
                // an escaped other-quote preceded by an odd number of backslashes only
                let bytes = literal.as_bytes();
                let ob = o.as_bytes()[1];
                let mut i = 0;
                while i < bytes.len() {
                    if bytes[i] == b'\\' && i + 1 < bytes.len() {
                        if bytes[i + 1] == ob {
                            bad.push(format!("escape:other-quote-escaped:{}", literal.chars().take(20).collect::<String>()));
                            break;
                        }
                        i += 2;
                    } else {
                        i += 1;
                    }
                }
            }
        }
    }
    // ---- call parentheses
    let (ins, _) = call_sites(input);
    let (outs, defs) = call_sites(output);
    let omit_s = matches!(c.call_parentheses, CallParenType::None | CallParenType::NoSingleString);
    let omit_t = matches!(c.call_parentheses, CallParenType::None | CallParenType::NoSingleTable);
    match c.call_parentheses {
        CallParenType::Input => {
            let a: String = ins.iter().map(|s| s.form).collect();
            let b: String = outs.iter().map(|s| s.form).collect();
            if a != b {
                bad.push(format!("call:Input:forms-changed:{}->{}", a, b));
            }
        }
        _ => {
            for s in &outs {
                let want_sugar = |k: char| (k == 's' && omit_s) || (k == 't' && omit_t);
                match s.form {
                    'S' | 'T' => {
                        if !want_sugar(s.single) || s.obscure {
                            bad.push(format!("call:{:?}:sugar-kept:{}{}", c.call_parentheses, s.form, if s.obscure { ":obscure" } else { "" }));
                        }
                    }
                    'P' => {
                        if want_sugar(s.single) && !s.obscure {
                            bad.push(format!("call:{:?}:parens-kept:{}{}", c.call_parentheses, s.single, if s.has_comment { ":comment" } else { "" }));
                        }
                    }
                    _ => {}
                }
            }
        }
    }
    // ---- space after function names
    let ob = out_text.as_bytes();
    let space_before = |p: usize| -> Option<bool> {
        if p == 0 || p > ob.len() {
            return None;
        }
        match ob[p - 1] {
            b' ' => Some(true),
            b'\n' | b'\t' | b'\r' => None, // the parenthesis starts a line: not a spacing decision
            b'>' => None, // generic parameters: the spacing decision sits in front of `<`
            _ => Some(false),
        }
    };
    let call_space = matches!(c.space_after_function_names, SpaceAfterFunctionNames::Always | SpaceAfterFunctionNames::Calls);
    let def_space = matches!(c.space_after_function_names, SpaceAfterFunctionNames::Always | SpaceAfterFunctionNames::Definitions);
    for s in &outs {
        if s.form == 'P' {
            if let Some(sp) = space_before(s.paren_pos) {
                if sp != call_space {
                    bad.push(format!("space:{:?}:call:{}", c.space_after_function_names, if sp { "space" } else { "no-space" }));
                }
                if sp && s.paren_pos >= 2 && ob[s.paren_pos - 2] == b' ' {
                    bad.push(format!("space:{:?}:call:two-spaces", c.space_after_function_names));
                }
            }
        }
    }
    for p in &defs {
        if let Some(sp) = space_before(*p) {
            if sp != def_space {
                bad.push(format!("space:{:?}:definition:{}", c.space_after_function_names, if sp { "space" } else { "no-space" }));
            }
        }
    }
    bad.sort();
    bad.dedup();
    bad
}
