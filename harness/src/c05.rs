//! C05 — parentheses are dropped only where they cannot matter.
//! ring 2: `expr` protocol — real output tree must be one the model admits (single-line
//!         result or a hanging result for some layout oracle); `faithful` validated against
//!         full_moon round trips.
//! ring 3: independent normal form of input vs re-parsed output.
use crate::sexp::{self, E};
use crate::util::*;
use full_moon::ast::{self, Expression, LastStmt, Stmt};
use serde_json::json;
use std::collections::HashSet;
use stylua_lib::LuaVersion;

pub struct Ctx {
    pub name: &'static str,
    pub pre: &'static str,
    pub post: &'static str,
    pub entry: &'static str,
    pub multi: bool,
}

pub const CTXS: [Ctx; 13] = [
    Ctx { name: "local", pre: "local x = ", post: "\n", entry: "std", multi: true },
    Ctx { name: "assign", pre: "x = ", post: "\n", entry: "std", multi: true },
    Ctx { name: "return", pre: "return ", post: "\n", entry: "std", multi: true },
    Ctx { name: "if", pre: "if ", post: " then end\n", entry: "cond", multi: false },
    Ctx { name: "while", pre: "while ", post: " do end\n", entry: "cond", multi: false },
    Ctx { name: "repeat", pre: "repeat until ", post: "\n", entry: "cond", multi: false },
    Ctx { name: "arg", pre: "f(", post: ")\n", entry: "std", multi: true },
    Ctx { name: "arg-mid", pre: "f(a9, ", post: ", a8)\n", entry: "std", multi: false },
    Ctx { name: "field", pre: "local t = { ", post: " }\n", entry: "std", multi: true },
    Ctx { name: "field-named", pre: "local t = { k = ", post: " }\n", entry: "std", multi: false },
    Ctx { name: "index", pre: "local y = t[ ", post: " ]\n", entry: "std", multi: false },
    Ctx { name: "key", pre: "local t = { [ ", post: " ] = 1 }\n", entry: "std", multi: false },
    Ctx { name: "prefix", pre: "local y = (", post: ").k\n", entry: "prefix", multi: false },
];

fn first_stmt(ast: &ast::Ast) -> Option<&Stmt> {
    ast.nodes().stmts().next()
}

fn call_args(fc: &ast::FunctionCall) -> Option<Vec<&Expression>> {
    for s in fc.suffixes() {
        if let ast::Suffix::Call(ast::Call::AnonymousCall(ast::FunctionArgs::Parentheses { arguments, .. })) = s {
            return Some(arguments.iter().collect());
        }
    }
    None
}

pub fn extract(ast: &ast::Ast, ctx: &str) -> Option<Expression> {
    match ctx {
        "local" => match first_stmt(ast)? {
            Stmt::LocalAssignment(l) => l.expressions().iter().next().cloned(),
            _ => None,
        },
        "assign" => match first_stmt(ast)? {
            Stmt::Assignment(a) => a.expressions().iter().next().cloned(),
            _ => None,
        },
        "return" => match ast.nodes().last_stmt()? {
            LastStmt::Return(r) => r.returns().iter().next().cloned(),
            _ => None,
        },
        "if" => match first_stmt(ast)? {
            Stmt::If(i) => Some(i.condition().clone()),
            _ => None,
        },
        "while" => match first_stmt(ast)? {
            Stmt::While(w) => Some(w.condition().clone()),
            _ => None,
        },
        "repeat" => match first_stmt(ast)? {
            Stmt::Repeat(r) => Some(r.until().clone()),
            _ => None,
        },
        "arg" => match first_stmt(ast)? {
            Stmt::FunctionCall(fc) => call_args(fc)?.first().map(|e| (*e).clone()),
            _ => None,
        },
        "arg-mid" => match first_stmt(ast)? {
            Stmt::FunctionCall(fc) => call_args(fc)?.get(1).map(|e| (*e).clone()),
            _ => None,
        },
        "field" | "field-named" => match first_stmt(ast)? {
            Stmt::LocalAssignment(l) => match l.expressions().iter().next()? {
                Expression::TableConstructor(t) => match t.fields().iter().next()? {
                    ast::Field::NoKey(e) => Some(e.clone()),
                    ast::Field::NameKey { value, .. } => Some(value.clone()),
                    _ => None,
                },
                _ => None,
            },
            _ => None,
        },
        "index" => match first_stmt(ast)? {
            Stmt::LocalAssignment(l) => match l.expressions().iter().next()? {
                Expression::Var(ast::Var::Expression(ve)) => match ve.suffixes().next()? {
                    ast::Suffix::Index(ast::Index::Brackets { expression, .. }) => Some(expression.clone()),
                    _ => None,
                },
                _ => None,
            },
            _ => None,
        },
        "key" => match first_stmt(ast)? {
            Stmt::LocalAssignment(l) => match l.expressions().iter().next()? {
                Expression::TableConstructor(t) => match t.fields().iter().next()? {
                    ast::Field::ExpressionKey { key, .. } => Some(key.clone()),
                    _ => None,
                },
                _ => None,
            },
            _ => None,
        },
        "prefix" => match first_stmt(ast)? {
            Stmt::LocalAssignment(l) => match l.expressions().iter().next()? {
                Expression::Var(ast::Var::Expression(ve)) => match ve.prefix() {
                    ast::Prefix::Expression(e) => Some((**e).clone()),
                    _ => None,
                },
                _ => None,
            },
            _ => None,
        },
        _ => None,
    }
}

fn gen(depth: usize, ops: &[&'static str], unops: &[&'static str], leaves: &[E], luau: bool) -> Vec<E> {
    if depth == 0 {
        return leaves.to_vec();
    }
    let s = gen(depth - 1, ops, unops, leaves, luau);
    let mut out = leaves.to_vec();
    for e in &s {
        out.push(E::Paren(Box::new(e.clone())));
    }
    for u in unops {
        for e in &s {
            out.push(E::Un(u, Box::new(e.clone())));
        }
    }
    if luau {
        for e in &s {
            out.push(E::Assert(Box::new(e.clone())));
        }
    }
    for o in ops {
        for l in &s {
            for r in &s {
                out.push(E::Bin(o, Box::new(l.clone()), Box::new(r.clone())));
            }
        }
    }
    out
}

fn random_tree(r: &mut Rng, depth: usize, luau: bool) -> E {
    if depth == 0 || r.chance(1, 6) {
        return match r.below(6) {
            0 => E::Call(r.below(3) as u32),
            1 => E::Varargs,
            _ => E::Atom(r.below(4) as u32),
        };
    }
    match r.below(if luau { 12 } else { 10 }) {
        0 | 1 | 2 => E::Paren(Box::new(random_tree(r, depth - 1, luau))),
        3 | 4 => {
            let u = *r.pick(&["m", "n", "h", "m"]);
            E::Un(u, Box::new(random_tree(r, depth - 1, luau)))
        }
        10 => E::Assert(Box::new(random_tree(r, depth - 1, luau))),
        11 => E::Ifx(
            // the parts of an if-expression are separate formatting entries: leaves here
            Box::new(E::Atom(r.below(4) as u32)),
            Box::new(E::Atom(r.below(4) as u32)),
            Box::new(if r.chance(1, 2) { E::Atom(r.below(4) as u32) } else { E::Call(r.below(3) as u32) }),
        ),
        _ => {
            let o = sexp::BINOPS[r.below(sexp::BINOPS.len())].0;
            let o = if luau && matches!(o, "shl" | "shr" | "band" | "bxor" | "bor") { "dslash" } else { o };
            E::Bin(o, Box::new(random_tree(r, depth - 1, luau)), Box::new(random_tree(r, depth - 1, luau)))
        }
    }
}

pub fn variant() -> String {
    std::env::var("VERIF_PAREN_VARIANT").unwrap_or_else(|_| "repaired".into())
}

/// one case: tree → source in context → format at width → extract → Q + oracle
fn case(e: &E, pad: usize, ctx: &Ctx, width: usize, syntax: LuaVersion, sink: &mut Sink, seen_faithful: &mut HashSet<String>, st: &mut [usize; 8]) {
    let src = format!("{}{}{}", ctx.pre, e.lua(pad), ctx.post);
    st[0] += 1;
    // validate Spec.Prec.faithful: the tree survives print (StyLua's spacing: no space after a
    // unary minus) → full_moon parse. Asked whether or not the printed text parses.
    let expected_tree = if ctx.entry == "prefix" { E::Paren(Box::new(e.abstracted())) } else { e.abstracted() };
    if ctx.name == "local" && !e.has_assert_over_un() && seen_faithful.insert(e.sexp()) {
        let tight = format!("{}{}{}", ctx.pre, e.lua_(pad, true), ctx.post);
        let back = parse(&tight, syntax).and_then(|a| extract(&a, ctx.name)).map(|x| sexp::of_ast(&x).abstracted());
        sink.q(format!("faithful {}", e.abstracted().sexp()), format!("{}", back.as_ref() == Some(&expected_tree)));
        // validate Spec/Parser.lean (the token-level mirror of full_moon's expression parser): the tree
        // full_moon reads from the tight printing must be the tree the mirror reads from the token list
        // (`--` in the tight printing is a comment: a lexical effect the token-level mirror cannot see)
        if ctx.entry != "prefix" && !tight.contains("--") {
            sink.q(format!("parse {}", e.abstracted().sexp()), back.as_ref().map(|b| b.sexp()).unwrap_or_else(|| "none".into()));
        }
    }
    let ast_in = match parse(&src, syntax) {
        Some(a) => a,
        None => {
            st[1] += 1;
            return;
        }
    };
    let ein_ast = match extract(&ast_in, ctx.name) {
        Some(x) => x,
        None => {
            st[1] += 1;
            return;
        }
    };
    let ein = sexp::of_ast(&ein_ast).abstracted();
    let mut c = cfg();
    c.syntax = syntax;
    c.column_width = width;
    let out = match fmt(&src, c, None, false) {
        Outcome::Ok(o) => o,
        Outcome::Panic(m) => {
            sink.v("C07", "panic:expr", json!({"input": src, "config": cfg_to_string(&c), "panic": m}));
            return;
        }
        _ => return,
    };
    st[2] += 1;
    // known finding D27: `-` applied to a type assertion over a `-…` operand is printed `--…`, a comment that
    // swallows the rest of the line; depending on what follows the output fails to parse or parses as
    // something else. One finding, one signature - whatever the swallowed text happens to be.
    if minus_assert_minus(&ein) && out.contains("--") {
        sink.v("C05", "output-unparseable:minus-assert-minus", json!({"input": src, "config": cfg_to_string(&c), "output": out, "tree": ein.sexp()}));
        sink.v("C01", "expr:output-unparseable:minus-assert-minus", json!({"input": src, "config": cfg_to_string(&c), "output": out}));
        return;
    }
    let ast_out = match parse(&out, syntax) {
        Some(a) => a,
        None => {
            let sig = if minus_assert_minus(&ein) { "output-unparseable:minus-assert-minus" } else { "output-unparseable" };
            sink.v("C05", sig, json!({"input": src, "config": cfg_to_string(&c), "output": out, "tree": ein.sexp()}));
            sink.v("C01", &format!("expr:{}", sig), json!({"input": src, "config": cfg_to_string(&c), "output": out}));
            return;
        }
    };
    let eout_ast = match extract(&ast_out, ctx.name) {
        Some(x) => x,
        None => {
            sink.v("C05", "output-shape-changed", json!({"input": src, "config": cfg_to_string(&c), "output": out}));
            return;
        }
    };
    let eout = sexp::of_ast(&eout_ast).abstracted();
    if out.contains('\n') && out.trim_end().contains('\n') {
        st[3] += 1; // multi-line output: a hanging path was taken somewhere
    }
    if eout != ein {
        st[4] += 1;
    }
    sink.q(format!("expr {} {} {} {}", variant(), ctx.entry, ein.sexp(), eout.sexp()), "ok".into());
    // ring 3: independent normal form
    let multi = ctx.multi && ctx.entry != "cond";
    if ein.norm(multi) != eout.norm(multi) {
        let sig = classify(&ein, &eout);
        sink.v("C05", &sig, json!({"input": src, "config": cfg_to_string(&c), "output": out, "tree_in": ein.sexp(), "tree_out": eout.sexp()}));
        sink.v("C02", &format!("expr:{}", sig), json!({"input": src, "config": cfg_to_string(&c), "output": out}));
    }
}

/// `-(-x :: T)` written without parentheses (`- -x :: T :: U` in full_moon's reading): a
/// unary minus whose operand is a type assertion over a unary minus
fn minus_assert_minus(e: &E) -> bool {
    fn starts_minus_through_assert(e: &E) -> bool {
        match e {
            E::Assert(x) => matches!(**x, E::Un("m", _)) || starts_minus_through_assert(x),
            _ => false,
        }
    }
    match e {
        E::Un("m", x) => starts_minus_through_assert(x) || minus_assert_minus(x),
        E::Un(_, x) | E::Paren(x) | E::Assert(x) => minus_assert_minus(x),
        E::Bin(_, l, r) => minus_assert_minus(l) || minus_assert_minus(r),
        _ => false,
    }
}

fn classify(i: &E, o: &E) -> String {
    // coarse signature of what changed, for known-finding bookkeeping
    let a = i.norm(true);
    let b = o.norm(true);
    if a.replace("T(", "(") == b.replace("T(", "(") {
        "truncation-changed".into()
    } else {
        "operator-tree-changed".into()
    }
}

pub fn run(tier: &str, seed: u64) -> Sink {
    let thorough = tier == "thorough";
    let leaves = vec![E::Atom(0), E::Call(0), E::Varargs];
    let ops: Vec<&'static str> = vec!["or", "lt", "concat", "plus", "caret"];
    let unops: Vec<&'static str> = vec!["m", "n"];
    let mut trees = gen(2, &ops, &unops, &leaves, false);
    // Luau: type assertions at depth 2 over a smaller alphabet
    let luau_trees = gen(2, &["plus", "caret", "lt"], &["m"], &[E::Atom(0), E::Call(0)], true);
    let nluau = luau_trees.len();
    let mut rng = Rng::new(seed ^ 0xC05);
    let nrand = if thorough { 60000 } else { 6000 };
    let mut rand_trees = Vec::new();
    for i in 0..nrand {
        let d = 3 + (i % 3);
        rand_trees.push((random_tree(&mut rng, d, i % 4 == 0), i % 4 == 0));
    }
    // unary / parenthesis chains (length <= 4) as operand of every representative operator
    let mut chains: Vec<E> = leaves.clone();
    let mut frontier: Vec<E> = leaves.clone();
    for _ in 0..4 {
        let mut next = Vec::new();
        for e in &frontier {
            next.push(E::Paren(Box::new(e.clone())));
            for u in ["m", "n", "h"] {
                next.push(E::Un(u, Box::new(e.clone())));
            }
        }
        chains.extend(next.iter().cloned());
        frontier = next;
    }
    for c in &chains {
        trees.push(c.clone());
        for o in &ops {
            trees.push(E::Bin(o, Box::new(c.clone()), Box::new(E::Atom(1))));
            trees.push(E::Bin(o, Box::new(E::Atom(1)), Box::new(c.clone())));
        }
    }
    // long-bracket strings as leaves (they matter where the expression follows a `[`: index, table key)
    trees.extend(gen(2, &["concat", "eq", "or"], &["h", "n"], &[E::Atom(700), E::Atom(0)], false).into_iter().filter(|t| t.sexp().contains("a700")));
    let nexh = trees.len();
    trees.extend(luau_trees);
    let total = trees.len() + rand_trees.len();
    let widths_pads: Vec<(usize, usize)> = if thorough {
        vec![(120, 0), (40, 8), (20, 8), (10, 8), (1, 0), (60, 14)]
    } else {
        vec![(120, 0), (40, 8), (10, 8)]
    };
    let parts = par_map(total, threads(), |i| {
        let mut sink = Sink::default();
        let mut st = [0usize; 8];
        let mut seen = HashSet::new();
        let (e, luau) = if i < trees.len() { (trees[i].clone(), i >= nexh) } else { rand_trees[i - trees.len()].clone() };
        let syntax = if luau { LuaVersion::Luau } else { LuaVersion::All };
        let exhaustive = i < trees.len();
        for (k, ctx) in CTXS.iter().enumerate() {
            // random trees: two contexts each (chosen by index) to bound the cost
            if !exhaustive && !(k == i % CTXS.len() || k == (i / 7) % CTXS.len()) {
                continue;
            }
            for (w, pad) in &widths_pads {
                case(&e, *pad, ctx, *w, syntax, &mut sink, &mut seen, &mut st);
            }
        }
        (sink, st)
    });
    let mut sink = Sink::default();
    let mut tot = [0usize; 8];
    for (s, st) in parts {
        sink.merge(s);
        for i in 0..8 {
            tot[i] += st[i];
        }
    }
    sink.s(json!({"c05": {"exhaustive_trees_depth2_plus_chains": nexh, "luau_trees": nluau, "random_trees": nrand, "contexts": CTXS.len(), "widths": widths_pads.len(),
        "programs": tot[0], "unparseable_or_other_shape": tot[1], "formatted": tot[2], "multiline_outputs": tot[3], "tree_changed": tot[4], "oracle_evaluations": tot[2]}}));
    sink
}
