//! C11 ring 2: exhaustive decision tables.
//!  `callform`: 5 modes x call forms x next suffix x layouts; `fnspace`: 4 modes x sites;
//!  `strlit`: quote choice on a small exhaustive body set (the full set is C04's).
use crate::c11::call_sites;
use crate::lexutil::{string_tokens, tokens};
use crate::util::*;
use serde_json::json;
use stylua_lib::LuaVersion;

pub fn run(_tier: &str, _seed: u64) -> Sink {
    let mut sink = Sink::default();
    let long = "x".repeat(70);
    let forms: Vec<(&str, String)> = vec![
        ("P1s", "(\"s\")".into()),
        ("P1s", format!("(\"{}\")", long)),
        ("P1s", "([[long]])".into()),
        ("P1t", "({ a = 1 })".into()),
        ("P1t", format!("({{ a = \"{}\", b = 2 }})", long)),
        ("P1t", "({\n\ta = 1,\n})".into()),
        ("P1o", "(a)".into()),
        ("P1o", "((\"s\"))".into()),
        ("P2o", "(\"s\", \"t\")".into()),
        ("P2o", "({}, 1)".into()),
        ("P0o", "()".into()),
        ("S", " \"s\"".into()),
        ("S", format!(" \"{}\"", long)),
        ("S", " [[long]]".into()),
        ("T", " { a = 1 }".into()),
        ("T", " {\n\ta = 1,\n}".into()),
    ];
    let nexts: Vec<(&str, &str, bool)> = vec![("", "none", false), (".field", "index", true), ("[1]", "index", true), (":m()", "method", true), ("()", "call", false)];
    let prefixes = ["f", "obj:meth", "a.b"];
    let stmts: Vec<(&str, &str)> = vec![("local v = ", ""), ("", ""), ("return ", "")];
    let mut n = 0usize;
    for mode in CALL_PARENS {
        for (fname, ftext) in &forms {
            for (ntext, _nname, obscure) in &nexts {
                for pre in prefixes {
                    for (spre, spost) in &stmts {
                        if spre.is_empty() && (ntext.starts_with('.') || ntext.starts_with('[')) {
                            continue; // an index expression is not a statement
                        }
                        for w in [120usize, 40] {
                            let src = format!("{}{}{}{}{}\n", spre, pre, ftext, ntext, spost);
                            let mut c = cfg();
                            c.syntax = LuaVersion::Lua51;
                            c.call_parentheses = mode;
                            c.column_width = w;
                            let ain = match parse(&src, c.syntax) {
                                Some(a) => a,
                                None => continue,
                            };
                            let out = match fmt(&src, c, None, false) {
                                Outcome::Ok(o) => o,
                                _ => continue,
                            };
                            let aout = match parse(&out, c.syntax) {
                                Some(a) => a,
                                None => {
                                    sink.v("C01", "callform:unparseable-output", json!({"input": src, "config": cfg_to_string(&c), "output": out}));
                                    continue;
                                }
                            };
                            let (si, _) = call_sites(&ain);
                            let (so, _) = call_sites(&aout);
                            if si.is_empty() || so.len() != si.len() {
                                continue;
                            }
                            // the first call site is the one under test
                            let got = if so[0].form == 'P' { "parens" } else { "sugar" };
                            n += 1;
                            sink.q(format!("callform {:?} {} {}", mode, *obscure as u8, fname), got.into());
                        }
                    }
                }
            }
        }
    }
    // function-name spacing
    for mode in SPACE_MODES {
        let src = "f(a)\nobj:m(a)\nfunction g(a) end\nlocal function h(a) end\nlocal k = function(a) end\nfunction t.u.v:w(a) end\nf(a)(b)\n";
        let mut c = cfg();
        c.syntax = LuaVersion::Lua51;
        c.space_after_function_names = mode;
        if let Outcome::Ok(out) = fmt(src, c, None, false) {
            if let Some(a) = parse(&out, c.syntax) {
                let (so, defs) = call_sites(&a);
                let ob = out.as_bytes();
                let sp = |p: usize| (p > 0 && ob[p - 1] == b' ') as u8;
                let calls: Vec<u8> = so.iter().filter(|s| s.form == 'P').map(|s| sp(s.paren_pos)).collect();
                let ds: Vec<u8> = defs.iter().map(|p| sp(*p)).collect();
                let all_same = |v: &Vec<u8>| v.iter().all(|x| *x == v[0]);
                if !calls.is_empty() && !ds.is_empty() && all_same(&calls) && all_same(&ds) {
                    sink.q(format!("fnspace {:?}", mode), format!("{} {}", calls[0], ds[0]));
                } else {
                    sink.q(format!("fnspace {:?}", mode), format!("mixed calls={:?} defs={:?}", calls, ds));
                }
            }
        }
    }
    // quote choice, small exhaustive set
    let alphabet = ["'", "\"", "\\", "a", "n"];
    let mut bodies = vec![String::new()];
    let mut frontier = vec![String::new()];
    for _ in 0..4 {
        let mut next = Vec::new();
        for b in &frontier {
            for a in alphabet {
                next.push(format!("{}{}", b, a));
            }
        }
        bodies.extend(next.iter().cloned());
        frontier = next;
    }
    for body in &bodies {
        for inq in ['"', '\''] {
            let prog = format!("local x = {}{}{}\n", inq, body, inq);
            if !parses(&prog, LuaVersion::Lua51) {
                continue;
            }
            let ins = tokens(&prog, LuaVersion::Lua51).map(|t| string_tokens(&t)).unwrap_or_default();
            if ins.len() != 1 || ins[0].1 != *body {
                continue;
            }
            for st in QUOTE_STYLES {
                let mut c = cfg();
                c.syntax = LuaVersion::Lua51;
                c.quote_style = st;
                if let Outcome::Ok(out) = fmt(&prog, c, None, false) {
                    let strs = tokens(&out, LuaVersion::Lua51).map(|t| string_tokens(&t)).unwrap_or_default();
                    if strs.len() == 1 {
                        sink.q(format!("strlit {:?} {}", st, hex(body.as_bytes())), format!("{} {}", strs[0].0, hex(strs[0].1.as_bytes())));
                    }
                }
            }
        }
    }
    sink.s(json!({"c11gen": {"callform_cases": n, "quote_bodies": bodies.len(), "oracle_evaluations": n}}));
    sink
}
