//! C06 / table layout decision (table.rs format_table_constructor) against Model/Table.lean.
//! ring 2 `tabledec <width> <col> <hasFields> <nlAfterOpen> <span> <wsAfterOpen> <wsBeforeClose> <expand>`:
//!        the decision's inputs are measured on the input AST here, the decision is observed in the output.
//! ring 3: idempotence of the same programs (the growth case is the known layout finding).
use crate::util::*;
use full_moon::ast::{Expression, Stmt};
use full_moon::node::Node;
use full_moon::tokenizer::TokenKind;
use serde_json::json;
use stylua_lib::LuaVersion;

fn table_of(ast: &full_moon::ast::Ast) -> Option<full_moon::ast::TableConstructor> {
    match ast.nodes().stmts().next()? {
        Stmt::LocalAssignment(l) => match l.expressions().iter().next()? {
            Expression::TableConstructor(t) => match t.fields().iter().next()? {
                full_moon::ast::Field::NoKey(Expression::TableConstructor(inner)) => Some(inner.clone()),
                _ => None,
            },
            _ => None,
        },
        _ => None,
    }
}

pub fn run(tier: &str, seed: u64) -> Sink {
    let thorough = tier == "thorough";
    let n = if thorough { 12000 } else { 2500 };
    let parts = par_map(n, threads(), |i| {
        let mut sink = Sink::default();
        let mut r = Rng::new(seed.wrapping_mul(48271) ^ (i as u64) ^ 0xC06);
        let k = r.below(9);
        let vals = ["a", "bb", "1", "'s'", "ccc", "x.y", "f()", "\"t\"", "nil", "true"];
        let mut body = String::new();
        body.push_str(*r.pick(&["", " ", "  ", "", " "]));
        for j in 0..k {
            if r.chance(1, 4) {
                body.push_str(&format!("k{} = ", j));
            }
            body.push_str(*r.pick(&vals));
            if j + 1 < k || r.chance(1, 5) {
                body.push_str(*r.pick(&[",", ", ", ", ", " , ", ",  ", ";", "; "]));
            }
        }
        body.push_str(*r.pick(&["", " ", "  ", "", " "]));
        // the table is the only field of an outer table that is already multi-line: no assignment / call
        // tactic re-positions it, its line starts at one indent level
        let src = format!("local x = {{\n\t{{{}}},\n}}\n", body);
        let ast = match parse(&src, LuaVersion::Lua51) {
            Some(a) => a,
            None => return (sink, 0usize),
        };
        let t = match table_of(&ast) {
            Some(t) => t,
            None => return (sink, 0),
        };
        let (open, close) = t.braces().tokens();
        let has_fields = t.fields().iter().next().is_some();
        let nl = open.trailing_trivia().any(|x| x.token_kind() == TokenKind::Whitespace && x.to_string().contains('\n'));
        let start = match open.leading_trivia().last() {
            Some(tok) => tok.end_position().bytes(),
            None => open.token().end_position().bytes(),
        };
        let span = close.token().start_position().bytes() - start;
        let ws_open = open.trailing_trivia().any(|x| x.token_kind() == TokenKind::Whitespace);
        let ws_close = match t.fields().last() {
            Some(p) => match p.punctuation() {
                Some(tok) => tok.trailing_trivia().any(|x| x.token_kind() == TokenKind::Whitespace),
                None => p.value().tokens().last().map(|tok| tok.trailing_trivia().any(|x| x.token_kind() == TokenKind::Whitespace)).unwrap_or(false),
            },
            None => false,
        };
        let centre = 4 + span + 1;
        let mut cases = 0;
        for dw in [-3i64, -2, -1, 0, 1, 2, 3, 8, -8] {
            let w = centre as i64 + dw;
            if w < 6 {
                continue;
            }
            let mut c = cfg();
            c.syntax = LuaVersion::Lua51;
            c.column_width = w as usize;
            let out = match fmt(&src, c, None, false) {
                Outcome::Ok(o) => o,
                _ => continue,
            };
            cases += 1;
            // where the table ended up: the assignment layer may have moved it to a line of its own
            let inner_out = out.split_once('{').map(|x| x.1).unwrap_or("");
            let (before, after) = inner_out.split_once('{').unwrap_or(("", ""));
            let line = before.rsplit('\n').next().unwrap_or("");
            // + 1: format_multiline_table reserves the comma that follows the field (table.rs:367)
            let col: usize = line.chars().map(|ch| if ch == '\t' { 4 } else { 1 }).sum::<usize>() + 1;
            let obs = if after.starts_with('}') {
                "empty"
            } else if after.starts_with('\n') || after.starts_with("\r\n") {
                "multi"
            } else {
                "single"
            };
            if std::env::var("C06T_DEBUG").is_ok() {
                eprintln!("DBG\t{} {} {} {} {} {} {}\t{}\t{:?}\t{:?}", w, col, has_fields as u8, nl as u8, span, ws_open as u8, ws_close as u8, obs, src, out);
            }
            sink.q(
                format!("tabledec {} {} {} {} {} {} {} 0", w, col, has_fields as u8, nl as u8, span, ws_open as u8, ws_close as u8),
                obs.into(),
            );
            if let Outcome::Ok(o2) = fmt(&out, c, None, false) {
                if o2 != out {
                    // the decision is taken on the input's width: growth of the content flips it (D14);
                    // any other instability of these programs is something else
                    let a2 = o2.split_once('{').map(|x| x.1).unwrap_or("").split_once('{').map(|x| x.1).unwrap_or("");
                    let obs2 = if a2.starts_with('}') { "empty" } else if a2.starts_with('\n') || a2.starts_with("\r\n") { "multi" } else { "single" };
                    sink.v("C06", &format!("table:not-idempotent:{}->{}", obs, obs2), json!({"input": src, "config": cfg_to_string(&c), "first": out, "second": o2}));
                }
            }
        }
        (sink, cases)
    });
    let mut sink = Sink::default();
    let mut cases = 0;
    for (s, c) in parts {
        sink.merge(s);
        cases += c;
    }
    sink.s(json!({"c06t": {"tables": n, "cases": cases, "oracle_evaluations": cases}}));
    sink
}
