//! C07 — totality: no panic, no hang, error only on unparseable input, never Ok on it.
//!  ring 2: call counters (hook) on nested inputs vs Model/Cost.lean (`cost` protocol).
//!  ring 3: valid programs (corpus + mutations) and invalid ones (truncate / splice) x
//!          extreme configurations x ranges x verification on/off, with a time budget.
use crate::pipe::load_corpus;
use crate::util::*;
use serde_json::json;
use std::time::Instant;
use stylua_lib::{Config, IndentType, LuaVersion, Range};

fn nest_chain(d: usize) -> String {
    // a:b(a:b(...):c()):c()
    let mut s = String::from("a");
    for _ in 0..d {
        s = format!("a:b({}):c()", s);
    }
    format!("local x = {}\n", s)
}
fn nest_call(d: usize) -> String {
    let mut s = String::from("a");
    for _ in 0..d {
        s = format!("f({}, b)", s);
    }
    format!("local x = {}\n", s)
}
fn nest_table(d: usize) -> String {
    let mut s = String::from("1");
    for _ in 0..d {
        s = format!("{{ k = {}, 2 }}", s);
    }
    format!("local x = {}\n", s)
}
fn nest_paren(d: usize) -> String {
    let mut s = String::from("a");
    for _ in 0..d {
        s = format!("({} + b)", s);
    }
    format!("local x = {}\n", s)
}
fn nest_func(d: usize) -> String {
    let mut s = String::from("return 1");
    for _ in 0..d {
        s = format!("return function() {} end", s);
    }
    format!("{}\n", s)
}

fn nest_pyramid(d: usize) -> String {
    // on(e, function() on(e, function() ... end) end)
    let mut s = String::from("done()");
    for _ in 0..d {
        s = format!("on(e, function() {} end)", s);
    }
    format!("{}\n", s)
}

fn nest_index(d: usize) -> String {
    // a[b[c[...]]]
    let mut s = String::from("k");
    for i in 0..d {
        s = format!("t{}[{}]", i % 3, s);
    }
    format!("local x = {}\n", s)
}
fn nest_tablekey(d: usize) -> String {
    // { [{ [...] = 1 }] = 1 }
    let mut s = String::from("1");
    for _ in 0..d {
        s = format!("{{ [{}] = 1 }}", s);
    }
    format!("local x = {}\n", s)
}
fn nest_unary(d: usize) -> String {
    let mut s = String::from("a");
    for i in 0..d {
        s = if i % 2 == 0 { format!("not ({})", s) } else { format!("-({})", s) };
    }
    format!("local x = {}\n", s)
}
fn nest_concat(d: usize) -> String {
    let mut s = String::from("a");
    for _ in 0..d {
        s = format!("b .. ({} .. c)", s);
    }
    format!("local x = {}\n", s)
}
fn nest_ifexpr(d: usize) -> String {
    let mut s = String::from("a");
    for _ in 0..d {
        s = format!("if c then {} else b", s);
    }
    format!("local x = {}\n", s)
}
fn nest_strcall(d: usize) -> String {
    // f{ g{ h{ ... } } } : table-call sugar
    let mut s = String::from("1");
    for _ in 0..d {
        s = format!("f {{ {} }}", s);
    }
    format!("local x = {}\n", s)
}
fn nest_typeassert(d: usize) -> String {
    let mut s = String::from("a");
    for _ in 0..d {
        s = format!("(({}) :: any)", s);
    }
    format!("local x = {}\n", s)
}
fn nest_ifstmt(d: usize) -> String {
    let mut s = String::from("x = 1");
    for _ in 0..d {
        s = format!("if a then {} end", s);
    }
    format!("{}\n", s)
}

fn extreme_configs() -> Vec<Config> {
    let mut v = Vec::new();
    for w in [1usize, 2, 80, usize::MAX] {
        for iw in [1usize, 16] {
            let mut c = Config::default();
            c.column_width = w;
            c.indent_width = iw;
            c.indent_type = if iw == 1 { IndentType::Spaces } else { IndentType::Tabs };
            v.push(c);
        }
    }
    v
}

pub fn run(tier: &str, seed: u64) -> Sink {
    let tier = tier.to_string();
    // deep nesting needs a deep stack
    std::thread::Builder::new().stack_size(512 << 20).spawn(move || run_(&tier, seed)).unwrap().join().unwrap()
}

fn run_(tier: &str, seed: u64) -> Sink {
    let thorough = tier == "thorough";
    let mut sink = Sink::default();
    // ---- ring 2: cost of nested inputs (counters are per thread; run on this thread)
    let maxd = if thorough { 13 } else { 11 };
    for (name, gen) in [("chain", nest_chain as fn(usize) -> String), ("call", nest_call), ("table", nest_table), ("paren", nest_paren), ("func", nest_func), ("pyramid", nest_pyramid),
        ("index", nest_index), ("tablekey", nest_tablekey), ("unary", nest_unary), ("concat", nest_concat), ("ifexpr", nest_ifexpr),
        ("strcall", nest_strcall), ("typeassert", nest_typeassert), ("ifstmt", nest_ifstmt)] {
        let mut slow_reported = false;
        let mut history: Vec<u64> = Vec::new();
        for d in 0..=maxd {
            if name == "func" && d > 6 {
                break; // stack depth of deeply nested function bodies is a build-profile artefact
            }
            let src = gen(d);
            stylua_lib::verif::reset();
            let t0 = Instant::now();
            let res = fmt(&src, Config::default(), None, false);
            let ms = t0.elapsed().as_millis();
            let (calls, exprs) = stylua_lib::verif::counters();
            if let Outcome::Panic(p) = &res {
                sink.v("C07", &format!("panic:nest-{}", name), json!({"input": src, "panic": p}));
            }
            if name == "chain" || name == "call" {
                // the model counts entries of format_function_call along the single-line path (the
                // self-call structure); measured with an unbounded column width so that no over-width
                // retry is mixed in (at the default width the 127 bytes of depth 13 no longer fit)
                let mut wide = Config::default();
                wide.column_width = usize::MAX;
                stylua_lib::verif::reset();
                let _ = fmt(&src, wide, None, false);
                let (wcalls, _) = stylua_lib::verif::counters();
                sink.q(format!("cost {} {}", name, d), format!("{}", wcalls));
            }
            // for the growth probe either counter will do (families without calls only move the second)
            let calls = calls.max(exprs / 4);
            // time out of proportion: more than 2 s for < 300 bytes
            history.push(calls.max(1));
            // deterministic form of "time out of proportion": the number of formatter entries doubles
            // (factor >= 1.8) with each of the last three nesting levels
            let k = history.len();
            let exponential = k >= 7 && (k - 3..k).all(|i| history[i] as f64 >= 1.8 * history[i - 1] as f64);
            if exponential && !slow_reported {
                slow_reported = true;
                sink.v("C07", &format!("superlinear:nest-{}", name), json!({"input": src, "depth": d, "bytes": src.len(), "ms": ms as u64, "format_function_call_invocations": calls}));
            }
            if ms > 8000 {
                break;
            }
        }
    }
    // ---- ring 3: malformed inputs and extreme configurations
    let items = load_corpus();
    let cfgs = extreme_configs();
    let per_file = if thorough { 40 } else { 6 };
    let n = items.len() * per_file;
    let parts = par_map(n, threads(), |k| {
        let it = &items[k / per_file];
        let mut r = Rng::new(seed.wrapping_mul(2654435761) ^ (k as u64) ^ 0xC07);
        let mut sink = Sink::default();
        let text = &it.text;
        // build a variant: truncate, splice, or keep
        let bytes = text.as_bytes();
        let cut = |r: &mut Rng| -> usize {
            let mut p = r.below(bytes.len().max(1));
            while p > 0 && !text.is_char_boundary(p) {
                p -= 1;
            }
            p
        };
        let variant: String = match r.below(5) {
            0 => text[..cut(&mut r)].to_string(),
            1 => {
                let a = cut(&mut r);
                let b = cut(&mut r);
                format!("{}{}", &text[..a], &text[b..])
            }
            2 => {
                let a = cut(&mut r);
                let junk = ["(", ")", "end", "[[", "\"", "--[[", "{", "}", "then", "::", "\\", "'"][r.below(12)];
                format!("{}{}{}", &text[..a], junk, &text[a..])
            }
            3 => text.replace(' ', "\t").replace('\n', "\r\n"),
            _ => text.clone(),
        };
        let mut c = cfgs[r.below(cfgs.len())];
        c.syntax = it.syntax;
        let range = match r.below(6) {
            0 => Some(Range::from_values(Some(0), Some(0))),
            1 => Some(Range::from_values(Some(10), Some(3))),
            2 => Some(Range::from_values(Some(variant.len() + 5), Some(variant.len() + 50))),
            3 => Some(Range::from_values(Some(cut(&mut r)), None)),
            4 => Some(Range::from_values(None, Some(cut(&mut r)))),
            _ => None,
        };
        let verify = r.chance(1, 3);
        let parses_in = parses(&variant, c.syntax);
        let t0 = Instant::now();
        let res = fmt(&variant, c, range, verify);
        let ms = t0.elapsed().as_millis();
        let detail = |extra: serde_json::Value| {
            let mut d = json!({"file": it.rel, "variant_bytes": variant.len(), "config": cfg_to_string(&c), "verify": verify,
                "range": range.map(|_| "yes"), "input": if variant.len() < 400 { variant.clone() } else { String::new() }});
            if let (Some(o), Some(e)) = (d.as_object_mut(), extra.as_object()) {
                for (k, v) in e {
                    o.insert(k.clone(), v.clone());
                }
            }
            d
        };
        match res {
            Outcome::Panic(p) => {
                // signature = panic site (file:line), so that a panic at a new site is a new finding
                let site = p.rsplit(" @ ").next().unwrap_or("?").to_string();
                let sig = format!("panic@{}", site);
                sink.v("C07", &sig, detail(json!({"panic": p.chars().take(200).collect::<String>()})));
            }
            Outcome::Ok(_) if !parses_in => sink.v("C07", "ok-on-unparseable", detail(json!({}))),
            Outcome::ParseError if parses_in => sink.v("C07", "parse-error-on-parseable", detail(json!({}))),
            _ => {}
        }
        if ms > 5000 + 20 * variant.len() as u128 {
            sink.v("C07", "slow", detail(json!({"ms": ms as u64})));
        }
        (sink, parses_in)
    });
    let mut valid = 0usize;
    for (s, p) in parts {
        sink.merge(s);
        if p {
            valid += 1;
        }
    }
    // a few fixed probes
    for (src, syntax, verify, sig) in [
        ("local x = 0xFFFFFFFFFFFFFFFFFFFF\n", LuaVersion::Lua51, true, "panic:verify-hex-overflow"),
        ("local x = a << b\n", LuaVersion::Luau, false, "panic:full_moon-shift-under-luau"),
        ("local x = 1e400\n", LuaVersion::Lua51, true, "panic:verify-float"),
        ("local x = 0x1p4\n", LuaVersion::Lua52, true, "panic:verify-hexfloat"),
    ] {
        let mut c = Config::default();
        c.syntax = syntax;
        if let Outcome::Panic(p) = fmt(src, c, None, verify) {
            sink.v("C07", sig, json!({"input": src, "config": cfg_to_string(&c), "verify": verify, "panic": p.chars().take(200).collect::<String>()}));
        }
    }
    sink.s(json!({"c07": {"malformed_or_extreme_cases": n, "of_which_parseable": valid, "oracle_evaluations": n}}));
    sink
}
