//! Comment-slot (and line-break-slot) enumeration (C03 / C01 / C02): for every construct of a fixed catalogue and
//! for EVERY token gap of it, one comment (block, multi-line block, or line comment + newline)
//! is injected, the program is formatted under a fixed set of configurations, and all
//! pipeline oracles are applied. The set is closed and seed-independent; failures on the
//! unchanged tree are listed exactly (construct, gap, comment kind, configuration).
use crate::pipe::check_case;
use crate::util::*;
use full_moon::tokenizer::TokenType;
use serde_json::json;
use stylua_lib::{CallParenType, CollapseSimpleStatement, Config, LuaVersion, QuoteStyle};

pub const CONSTRUCTS: &[(&str, &str, &str)] = &[
    ("local-assign", "51", "local a, b = 1, 2\n"),
    ("assign", "51", "a, b.c = 1, f(2)\n"),
    ("call", "51", "f(a, b)\n"),
    ("call-string", "51", "f \"s\"\n"),
    ("call-table", "51", "f { a = 1 }\n"),
    ("method-call", "51", "obj:m(a, b)\n"),
    ("index-chain", "51", "a.b[c].d = f(x)[y]\n"),
    ("call-chain", "51", "f(a)(b):c(d).e()\n"),
    ("do", "51", "do local x = 1 end\n"),
    ("while", "51", "while a < b do f() end\n"),
    ("repeat", "51", "repeat f() until a == b\n"),
    ("if", "51", "if a then f() end\n"),
    ("if-else", "51", "if a then f() elseif b then g() else h() end\n"),
    ("if-guard", "51", "if not a then return end\n"),
    ("if-guard-call", "51", "if a == nil then f(a) end\n"),
    ("numeric-for", "51", "for i = 1, 10, 2 do f(i) end\n"),
    ("generic-for", "51", "for k, v in pairs(t) do f(k, v) end\n"),
    ("function-decl", "51", "function foo.bar:baz(a, b, ...) return a + b end\n"),
    ("local-function", "51", "local function foo(a) return a end\n"),
    ("anon-function", "51", "local f = function(a, b) return a end\n"),
    ("function-arg", "51", "f(function() return 1 end, a)\n"),
    ("return", "51", "return a, b\n"),
    ("return-call", "51", "return f(a), (g())\n"),
    ("break", "51", "while true do break end\n"),
    ("table", "51", "local t = { 1, 2, x = 3, [\"y\"] = 4, [5] = 6; 7 }\n"),
    ("table-nested", "51", "local t = { a = { b = { 1 } }, f = function() end }\n"),
    ("paren-expr", "51", "local x = (a + b) * c\n"),
    ("excess-paren", "51", "local x = (a) + ((b))\n"),
    ("and-or", "51", "local x = a and b or c\n"),
    ("unary-caret-concat", "51", "local x = -a ^ b .. c\n"),
    ("not-eq", "51", "local x = not (a == b)\n"),
    ("len-index", "51", "local x = #t + t[1]\n"),
    ("strings", "51", "local s = \"str\" .. 'str2' .. [[long]]\n"),
    ("cond-paren", "51", "if (a and b) then f() end\n"),
    ("semicolon", "51", "local a = f; (g or h)()\n"),
    ("fn-return-semi", "51", "local function f() return; end\n"),
    ("fn-return-value-semi", "51", "local f = function() return x; end\n"),
    ("fn-assign-semi", "51", "local function f() x = 1; end\n"),
    ("if-return-semi", "51", "if a then return; end\n"),
    ("stmts-semi", "51", "local a = 1; f(); return a;\n"),
    ("call-3", "51", "register(handler, fallback, function() return 1 end)\n"),
    ("method-chain-class", "51", "local r = Promise:resolve(42):andThen(print)\n"),
    ("dot-chain-short", "51", "app.use(logger).listen(8080)\n"),
    ("method-chain-3", "51", "x:a():b(1):c()\n"),
    ("method-chain-long", "51", "local result = SomeLongClassNameForChains.new(argument):withOption(option):build()\n"),
    ("require-block", "51", "local b = require(\"b\")\nlocal a = require(\"a\")\n"),
    ("table-trailing-sep", "51", "local t = { 1, 2, }\n"),
    ("table-trailing-semi-named", "51", "local t = { a = 1; b = 2; }\n"),
    ("call-table-trailing-sep", "51", "f({ \"a\", })\n"),
    ("goto-label", "52", "goto done ::done::\n"),
    ("attrib", "54", "local a <const>, b <close> = 1, 2\n"),
    ("luau-typed-local", "luau", "local x: number, y: string? = 1, nil\n"),
    ("luau-type-decl", "luau", "type A<T> = { x: number, [string]: T } | (a: number) -> string\n"),
    ("luau-export-type", "luau", "export type B = A<number> & { y: boolean }\n"),
    ("luau-assert", "luau", "local y = (x :: number) + 1\n"),
    ("luau-ifexpr", "luau", "local z = if a then b elseif c then d else e\n"),
    ("luau-generic-fn", "luau", "function f<T>(a: T, ...: number): T return a end\n"),
    ("luau-compound", "luau", "x += 1\n"),
    ("luau-interp", "luau", "local s = `a {b} c {d}`\n"),
    ("luau-continue", "luau", "for i = 1, 2 do continue end\n"),
];

pub const KINDS: &[(&str, &str)] = &[
    ("block", " --[[c]] "),
    ("mblock", " --[[c\nd]] "),
    ("line", " --c\n"),
    // the comment starts the next line (leading trivia of the following token)
    ("nl-block", "\n--[[c]] "),
    ("nl-line", "\n--c\n"),
    ("nl-eqblock", "\n--[==[c]==] "),
    // no comment at all: a line break / a blank line in the gap (layout decisions taken from input positions)
    ("nl", "\n"),
    ("blank", "\n\n"),
];

pub fn configs() -> Vec<(&'static str, Config)> {
    let mk = |f: &dyn Fn(&mut Config)| {
        let mut c = Config::default();
        f(&mut c);
        c
    };
    vec![
        ("default", mk(&|_| {})),
        ("w40", mk(&|c| c.column_width = 40)),
        ("w10", mk(&|c| c.column_width = 10)),
        ("collapse", mk(&|c| c.collapse_simple_statement = CollapseSimpleStatement::Always)),
        ("callnone-single", mk(&|c| {
            c.call_parentheses = CallParenType::None;
            c.quote_style = QuoteStyle::AutoPreferSingle;
        })),
        ("w10-collapse-callnone", mk(&|c| {
            c.column_width = 10;
            c.collapse_simple_statement = CollapseSimpleStatement::Always;
            c.call_parentheses = CallParenType::None;
        })),
    ]
}

fn syntax_of(s: &str) -> LuaVersion {
    match s {
        "52" => LuaVersion::Lua52,
        "54" => LuaVersion::Lua54,
        "luau" => LuaVersion::Luau,
        _ => LuaVersion::Lua51,
    }
}

/// byte offsets at which a comment may be injected: after every non-trivia token (and at 0)
fn gaps(src: &str, v: LuaVersion) -> Vec<usize> {
    let mut g = vec![0usize];
    if let Some(toks) = crate::lexutil::tokens(src, v) {
        for t in toks {
            match t.token_type() {
                TokenType::Whitespace { .. } | TokenType::Eof | TokenType::SingleLineComment { .. } | TokenType::MultiLineComment { .. } => {}
                _ => g.push(t.end_position().bytes()),
            }
        }
    }
    g.sort();
    g.dedup();
    g
}

pub struct Case {
    pub id: String,
    pub src: String,
    pub cfg: Config,
}

pub fn cases() -> Vec<Case> {
    let cfgs = configs();
    let mut out = Vec::new();
    for (name, syn, src) in CONSTRUCTS {
        let v = syntax_of(syn);
        for (gi, off) in gaps(src, v).iter().enumerate() {
            for (kname, ktext) in KINDS {
                let mut s = String::new();
                s.push_str(&src[..*off]);
                s.push_str(ktext);
                s.push_str(&src[*off..]);
                if !parses(&s, v) {
                    continue; // e.g. a comment inside an interpolated string segment
                }
                for (cname, c) in &cfgs {
                    let mut c = *c;
                    c.syntax = v;
                    out.push(Case { id: format!("slot:{}#{}:{}@{}", name, gi, kname, cname), src: s.clone(), cfg: c });
                }
            }
        }
    }
    out
}

pub fn run(_tier: &str, _seed: u64) -> Sink {
    let cs = cases();
    let n = cs.len();
    let parts = par_map(n, threads(), |i| {
        let mut sink = Sink::default();
        let (ok, _) = check_case(&cs[i].id, &cs[i].src, cs[i].cfg, &mut sink);
        (sink, ok)
    });
    let mut sink = Sink::default();
    let mut formatted = 0;
    for (s, ok) in parts {
        sink.merge(s);
        if ok {
            formatted += 1;
        }
    }
    sink.s(json!({"slots": {"constructs": CONSTRUCTS.len(), "comment_kinds": KINDS.len(), "configs": configs().len(), "cases": n, "formatted": formatted, "oracle_evaluations": formatted}}));
    sink
}
