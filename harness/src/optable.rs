//! Observes, from the compiled formatter, the exact text every operator is emitted with
//! (the `fmt_op!` tables of expression.rs). Used by tools/translate.py to regenerate
//! lean/StyluaModel/Generated/OpTables.lean on every run.
use crate::sexp::{BINOPS, UNOPS};
use crate::util::*;
use stylua_lib::LuaVersion;

pub fn run() {
    for (name, sym, _, _) in BINOPS {
        let syntax = match name {
            "dslash" => LuaVersion::Luau,
            "shl" | "shr" | "band" | "bxor" | "bor" => LuaVersion::Lua53,
            _ => LuaVersion::Lua51,
        };
        let src = format!("local x = aa {} bb\n", sym);
        let mut c = cfg();
        c.syntax = syntax;
        match fmt(&src, c, None, false) {
            Outcome::Ok(out) => {
                let a = out.find("aa").map(|i| i + 2);
                let b = out.find("bb");
                match (a, b) {
                    (Some(a), Some(b)) if a <= b => println!("bin {} {}", name, hex(out[a..b].as_bytes())),
                    _ => println!("bin {} ?", name),
                }
            }
            _ => println!("bin {} ?", name),
        }
    }
    for (name, sym) in UNOPS {
        let syntax = if name == "t" { LuaVersion::Lua53 } else { LuaVersion::Lua51 };
        let src = format!("local x = {}bb\n", sym);
        let mut c = cfg();
        c.syntax = syntax;
        match fmt(&src, c, None, false) {
            Outcome::Ok(out) => {
                let a = out.find("= ").map(|i| i + 2);
                let b = out.find("bb");
                match (a, b) {
                    (Some(a), Some(b)) if a <= b => println!("un {} {}", name, hex(out[a..b].as_bytes())),
                    _ => println!("un {} ?", name),
                }
            }
            _ => println!("un {} ?", name),
        }
    }
}
