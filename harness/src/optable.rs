//! Observes, from the compiled formatter, the exact text every operator is emitted with
//! (the `fmt_op!` tables of expression.rs). Used by tools/translate.py to regenerate
//! lean/StyluaModel/Generated/OpTables.lean on every run.
use crate::sexp::{BINOPS, UNOPS};
use crate::util::*;
use stylua_lib::LuaVersion;

pub fn run() {
    for (name, sym, _, _) in BINOPS {
        let syntax = match name {
            "dslash" => LuaVersion::Luau,
            "shl" | "shr" | "band" | "bxor" | "bor" => LuaVersion::Lua53,
            _ => LuaVersion::Lua51,
        };
        let src = format!("local x = aa {} bb\n", sym);
        let mut c = cfg();
        c.syntax = syntax;
        match fmt(&src, c, None, false) {
            Outcome::Ok(out) => {
                let a = out.find("aa").map(|i| i + 2);
                let b = out.find("bb");
                match (a, b) {
                    (Some(a), Some(b)) if a <= b => println!("bin {} {}", name, hex(out[a..b].as_bytes())),
                    _ => println!("bin {} ?", name),
                }
            }
            _ => println!("bin {} ?", name),
        }
        // precedence and associativity as full_moon (the parser the properties name) has them
        match binop_of(&src, syntax) {
            Some((p, r)) => println!("prec bin {} {} {}", name, p, r as u8),
            None => println!("prec bin {} ? ?", name),
        }
    }
    for (name, sym) in UNOPS {
        let syntax = if name == "t" { LuaVersion::Lua53 } else { LuaVersion::Lua51 };
        let src = format!("local x = {}bb\n", sym);
        let mut c = cfg();
        c.syntax = syntax;
        match fmt(&src, c, None, false) {
            Outcome::Ok(out) => {
                let a = out.find("= ").map(|i| i + 2);
                let b = out.find("bb");
                match (a, b) {
                    (Some(a), Some(b)) if a <= b => println!("un {} {}", name, hex(out[a..b].as_bytes())),
                    _ => println!("un {} ?", name),
                }
            }
            _ => println!("un {} ?", name),
        }
        match unop_prec(&src, syntax) {
            Some(p) => println!("prec un {} {} 0", name, p),
            None => println!("prec un {} ? ?", name),
        }
    }
}

fn first_expression(src: &str, syntax: LuaVersion) -> Option<full_moon::ast::Expression> {
    let ast = parse(src, syntax)?;
    let first = ast.nodes().stmts().next().cloned();
    match first? {
        full_moon::ast::Stmt::LocalAssignment(l) => l.expressions().iter().next().cloned(),
        _ => None,
    }
}

fn binop_of(src: &str, syntax: LuaVersion) -> Option<(u8, bool)> {
    match first_expression(src, syntax)? {
        full_moon::ast::Expression::BinaryOperator { binop, .. } => Some((binop.precedence(), binop.is_right_associative())),
        _ => None,
    }
}

fn unop_prec(src: &str, syntax: LuaVersion) -> Option<u8> {
    match first_expression(src, syntax)? {
        full_moon::ast::Expression::UnaryOperator { .. } => Some(full_moon::ast::UnOp::precedence()),
        _ => None,
    }
}
