mod c02t;
mod c03;
mod semi;
mod c06t;
mod c04;
mod c05;
mod c07;
mod c08;
mod c11;
mod c11gen;
mod c12;
mod diffops;
mod sexp;
mod slots;
mod lexutil;
mod nf;
mod optable;
mod gen;
mod pipe;
mod progen;
mod util;

fn main() {
    std::env::set_var("RUST_BACKTRACE", "0");
    std::panic::set_hook(Box::new(|info| {
        // panics of the code under test are caught and reported as data; the harness's own are loud
        if !util::IN_FMT.with(|f| f.get()) {
            eprintln!("harness panic: {}", info);
        } else if let Some(l) = info.location() {
            let file = l.file().rsplit("/src/").next().unwrap_or(l.file()).to_string();
            // panics inside a dependency are identified by crate only (their code cannot change with /repo)
            let at = if l.file().contains("full_moon") {
                "full_moon-parser".to_string()
            } else if l.file().contains("/.cargo/") || l.file().contains("/rustc/") {
                format!("dependency:{}", file)
            } else {
                format!("{}:{}", file, l.line())
            };
            util::LAST_PANIC_AT.with(|c| *c.borrow_mut() = at);
        }
    }));
    let args: Vec<String> = std::env::args().collect();
    let tier = std::env::var("VERIF_TIER").unwrap_or_else(|_| "quick".into());
    let seed: u64 = std::env::var("VERIF_SEED").ok().and_then(|s| s.parse().ok()).unwrap_or(0);
    let cmd = args.get(1).map(|s| s.as_str()).unwrap_or("");
    let sink = match cmd {
        "c02t" => c02t::run(&tier, seed),
        "c03" => c03::run(&tier, seed),
        "c06t" => c06t::run(&tier, seed),
        "c04" => c04::run(&tier, seed),
        "c05" => c05::run(&tier, seed),
        "c07" => c07::run(&tier, seed),
        "c08" => c08::run(&tier, seed),
        "c11" => c11gen::run(&tier, seed),
        "c12" => c12::run(&tier, seed),
        "pipe" => pipe::run(&tier, seed),
        "progen" => progen::run(&tier, seed),
        "slots" => slots::run(&tier, seed),
        "diffops" => {
            diffops::run(&args[2], &args[3]);
            return;
        }
        "optable" => {
            optable::run();
            return;
        }
        "nf" => {
            use std::io::Read;
            let mut src = String::new();
            std::io::stdin().read_to_string(&mut src).unwrap();
            let c = util::cfg_from_string(args.get(2).map(|s| s.as_str()).unwrap_or(""));
            match util::parse(&src, c.syntax) {
                Some(a) => println!("{}", nf::normal_form(a)),
                None => println!("<parse error>"),
            }
            return;
        }
        "fmt" => {
            // ad-hoc: hx fmt "<config string>" < input
            use std::io::Read;
            let mut src = String::new();
            std::io::stdin().read_to_string(&mut src).unwrap();
            let c = util::cfg_from_string(args.get(2).map(|s| s.as_str()).unwrap_or(""));
            match util::fmt(&src, c, None, false) {
                util::Outcome::Ok(o) => print!("{}", o),
                util::Outcome::ParseError => println!("<parse error>"),
                util::Outcome::OtherError(e) => println!("<error {}>", e),
                util::Outcome::Panic(m) => println!("<panic {}>", m),
            }
            return;
        }
        _ => {
            eprintln!("usage: hx <c04|...>");
            std::process::exit(64);
        }
    };
    sink.flush();
}
