mod c04;
mod lexutil;
mod util;

fn main() {
    std::env::set_var("RUST_BACKTRACE", "0");
    std::panic::set_hook(Box::new(|_| {}));
    let args: Vec<String> = std::env::args().collect();
    let tier = std::env::var("VERIF_TIER").unwrap_or_else(|_| "quick".into());
    let seed: u64 = std::env::var("VERIF_SEED").ok().and_then(|s| s.parse().ok()).unwrap_or(0);
    let cmd = args.get(1).map(|s| s.as_str()).unwrap_or("");
    let sink = match cmd {
        "c04" => c04::run(&tier, seed),
        _ => {
            eprintln!("usage: hx <c04|...>");
            std::process::exit(64);
        }
    };
    sink.flush();
}
