local a = (x :: number) < y
local b = (x :: number) + (y :: number)
local c = -(x :: number)
local d = #(x :: {number})
local e = (x :: any) :: number
local f = ((x :: any)) :: number
local g = a and (b :: number) < 0
local h = (if a then b else c) + 1
local i = ((if a then b else c)) + 1
local j = (if a then b else c)
local k = f((x :: T))
local l = { (x :: T), (y :: U) < z }
if aaaaaaaaaaaaaaaaaaaaaaaaaaaaaaaaaaaaaaaa ~= nil and (bbbbbbbbbbbbbbbbbbbbbbbbbbbbbbbbbbbbbbbb :: number) < 0 and (cccccccccccccccccccccccc :: number) + 1 > 0 then
end
