local a = 1
--[[
first line
second line
]]
local b = [[
x
y
]]
-- trailing   
local c = 2 -- t  
local d = [==[
q
]==]
--[=[ one
two
three ]=]
return a
