-- long-bracket strings next to `[`
local a = t[ [[x]] ]
local b = t[ [=[x]=] ]
local c = t[ [==[x]==] ]
local d = { [ [[k]] ] = 1, [ [=[k]=] ] = 2, [ [==[k]==] ] = 3 }
t[ [=[k]=] ] = 3
t[ [[k]] ] = 4
local e = t[ [[a]] .. x ]
local f = t[ ([[a]]) ]
local g = { [ ([[k]]) ] = 1, [ [[a]] .. "b" ] = 2 }
print(t[ [==[k]==] ], v)
local h = t[ [[x]] ][ [=[y]=] ][ [[z]] ]
f [[long]]
f [=[long]=]
local s = obj:method [[long]]
